//! Lifecycle LP actor (C18): legal and illegal transitions of ordinary, metadata,
//! token-extension and bundled positions, locks and bundles, in random order.

use crate::decode::{self, MAX_TICK, MIN_TICK};
use crate::gen::{full_range_only, init_array_ix, liq_accounts, max_usable, min_usable, my_positions, pick_range, pool_of, ta_start, Actor, Knobs, World};
use crate::ix::{self, LiqAccounts, PositionKeys};
use crate::rng::Rng;
use crate::rt::{Ix, Ledger, Tx};
use crate::world::new_key;
use solana_program::pubkey::Pubkey;
use whirlpool::accounts as wa;
use whirlpool::instruction as wi;

fn tx1(i: Ix) -> Tx {
    Tx { ixs: vec![i] }
}

/// bundles held by a wallet: (bundle mint, bundle account, token account, bitmap)
pub fn my_bundles(l: &Ledger, wallet: &Pubkey) -> Vec<(Pubkey, Pubkey, Pubkey, [u8; 32])> {
    let mut v = Vec::new();
    for (k, a) in l.accts.iter() {
        if a.owner != ix::tok() || a.data.len() != 165 || a.data[32..64] != wallet.to_bytes() {
            continue;
        }
        let Some(t) = decode::token_account(&a.data) else { continue };
        if t.amount != 1 {
            continue;
        }
        let bk = ix::pda_position_bundle(&t.mint);
        if let Some(b) = l.data(&bk).and_then(decode::position_bundle) {
            v.push((t.mint, bk, *k, b.bitmap));
        }
    }
    v
}

/// a (possibly invalid) tick range
pub fn pick_any_range(rng: &mut Rng, l: &Ledger, wk: &Pubkey, pool: &decode::Pool) -> (i32, i32) {
    let sp = pool.tick_spacing as i32;
    let (lo, hi) = pick_range(rng, l, wk, pool);
    if full_range_only(pool.tick_spacing) && rng.chance(1, 2) {
        // full-range-only pool: partial ranges on perfectly usable ticks
        let (lu, hu) = (min_usable(pool.tick_spacing), max_usable(pool.tick_spacing));
        return match rng.below(5) {
            0 => (-sp, sp),
            1 => (lu, 0),
            2 => (0, hu),
            3 => (lu + sp, hu),
            _ => (lu, hu - sp),
        };
    }
    match rng.below(14) {
        0 => (lo + 1, hi),                 // off spacing (unless spacing 1)
        1 => (lo, hi - 1),
        2 => (hi, lo),                     // lower >= upper
        3 => (lo, lo),
        4 => (min_usable(pool.tick_spacing) - sp, hi), // out of bounds
        5 => (lo, max_usable(pool.tick_spacing) + sp),
        6 => (i32::MIN, hi),               // one sentinel: lower derived from the price
        7 => (lo, i32::MAX),               // upper derived from the price
        8 => (i32::MIN, i32::MAX),         // both sentinels
        9 => (MIN_TICK, MAX_TICK),
        _ => (lo, hi),
    }
}

pub fn plan_lifecycle_lp(w: &World, knobs: &Knobs, actor: &mut Actor, l: &Ledger) -> Vec<(Tx, String)> {
    let rng = &mut actor.rng.clone();
    let mut flow: Vec<(Tx, String)> = Vec::new();
    let mine = my_positions(l, &actor.wallet);
    let bundles = my_bundles(l, &actor.wallet);
    let pi = &w.pools[rng.idx(w.pools.len())];
    let Some(pool) = l.data(&pi.keys.whirlpool).and_then(decode::pool) else { return flow };
    let wk = pi.keys.whirlpool;
    let action = rng.below(20);
    match action {
        0..=3 => {
            // open some kind of position with a valid or invalid range, maybe add liquidity
            let (lo, hi) = if rng.chance(2, 3) { pick_range(rng, l, &wk, &pool) } else { pick_any_range(rng, l, &wk, &pool) };
            let mint = new_key(rng);
            let kind = rng.below(3);
            let (open_ix, pk) = match kind {
                0 => ix::open_position(&wk, &actor.wallet, &actor.wallet, &mint, lo, hi),
                1 => ix::open_position_with_metadata(&wk, &actor.wallet, &actor.wallet, &mint, lo, hi),
                _ => ix::open_position_with_token_extensions(&wk, &actor.wallet, &actor.wallet, &mint, lo, hi, rng.chance(1, 2)),
            };
            flow.push((tx1(open_ix), "open_position".into()));
            // (whatever the program let the LP open gets funded: a range it should have refused is then traded against)
            if lo > MIN_TICK - 100_000 && hi < MAX_TICK + 100_000 && hi > MIN_TICK - 100_000 && lo < MAX_TICK + 100_000 && rng.chance(2, 3) {
                let sp = pi.keys.tick_spacing;
                let mut starts = vec![ta_start(lo, sp)];
                if !starts.contains(&ta_start(hi, sp)) {
                    starts.push(ta_start(hi, sp));
                }
                for s in starts {
                    if !l.exists(&ix::pda_tick_array(&wk, s)) {
                        flow.push((tx1(init_array_ix(knobs, rng, &wk, &actor.wallet, s)), "init_tick_array".into()));
                    }
                }
                let fake = decode::Position { lower: lo, upper: hi, ..Default::default() };
                let la = liq_accounts(actor, &pi.keys, &pk, &fake);
                flow.push((tx1(ix::increase_liquidity_v2(&la, crate::gen::liq_amount(rng, knobs.liq_bits.min(60).max(40)), u64::MAX, u64::MAX)), "increase_liquidity".into()));
            }
        }
        4 | 5 if !mine.is_empty() => {
            // close: empty or not
            let (pk, _p) = &mine[rng.idx(mine.len())];
            flow.push((tx1(crate::gen::close_ix(actor, pk)), "close_position".into()));
        }
        6 | 7 if !mine.is_empty() => {
            // withdraw everything then collect and close (a complete exit flow that may be abandoned midway)
            let (pk, p) = &mine[rng.idx(mine.len())];
            if let Some(ppi) = pool_of(w, &p.whirlpool) {
                let la = liq_accounts(actor, &ppi.keys, pk, p);
                if p.liquidity > 0 {
                    flow.push((tx1(ix::decrease_liquidity_v2(&la, p.liquidity, 0, 0)), "decrease_liquidity".into()));
                }
                flow.push((tx1(ix::collect_fees_v2(&la)), "collect_fees".into()));
                flow.push((tx1(crate::gen::close_ix(actor, pk)), "close_position".into()));
            }
        }
        8 | 9 if !mine.is_empty() => {
            // reset range (empty / non-empty / same / invalid)
            let (pk, p) = &mine[rng.idx(mine.len())];
            if let (Some(ppi), Some(ppool)) = (pool_of(w, &p.whirlpool), l.data(&p.whirlpool).and_then(decode::pool)) {
                let (lo, hi) = match rng.below(4) {
                    0 => (p.lower, p.upper),
                    1 => pick_any_range(rng, l, &p.whirlpool, &ppool),
                    _ => pick_range(rng, l, &p.whirlpool, &ppool),
                };
                // packaging fault: another pool's account in the whirlpool slot (with a range that is fine for that pool)
                let other: Vec<&crate::gen::PoolInfo> = w.pools.iter().filter(|q| q.keys.whirlpool != p.whirlpool).collect();
                let (named_pool, lo, hi) = if !other.is_empty() && rng.chance(1, 5) {
                    let o = other[rng.idx(other.len())];
                    match l.data(&o.keys.whirlpool).and_then(decode::pool) {
                        Some(op) => {
                            let (a, b) = pick_range(rng, l, &o.keys.whirlpool, &op);
                            (o.keys.whirlpool, a, b)
                        }
                        None => (ppi.keys.whirlpool, lo, hi),
                    }
                } else {
                    (ppi.keys.whirlpool, lo, hi)
                };
                flow.push((
                    tx1(ix::mk(
                        wa::ResetPositionRange {
                            funder: actor.wallet,
                            position_authority: actor.wallet,
                            whirlpool: named_pool,
                            position: pk.position,
                            position_token_account: pk.token_account,
                            system_program: ix::sys(),
                        },
                        wi::ResetPositionRange { new_tick_lower_index: lo, new_tick_upper_index: hi },
                    )),
                    "reset_position_range".into(),
                ));
                // ... and the position is funded on its new range straight away (if the reset was refused, so is this)
                let in_reach = |t: i32| t > MIN_TICK - 100_000 && t < MAX_TICK + 100_000;
                if named_pool == ppi.keys.whirlpool && p.liquidity == 0 && in_reach(lo) && in_reach(hi) && rng.chance(2, 3) {
                    let sp = ppi.keys.tick_spacing;
                    let mut starts = vec![ta_start(lo, sp)];
                    if !starts.contains(&ta_start(hi, sp)) {
                        starts.push(ta_start(hi, sp));
                    }
                    for s in starts {
                        if !l.exists(&ix::pda_tick_array(&named_pool, s)) {
                            flow.push((tx1(init_array_ix(knobs, rng, &named_pool, &actor.wallet, s)), "init_tick_array".into()));
                        }
                    }
                    let fake = decode::Position { lower: lo, upper: hi, ..Default::default() };
                    let la = liq_accounts(actor, &ppi.keys, pk, &fake);
                    flow.push((tx1(ix::increase_liquidity_v2(&la, crate::gen::liq_amount(rng, knobs.liq_bits.min(60).max(40)), u64::MAX, u64::MAX)), "increase_liquidity".into()));
                }
            }
        }
        10 | 11 if !mine.is_empty() => {
            // lock (any kind of position, empty or not, already locked or not)
            let (pk, p) = &mine[rng.idx(mine.len())];
            flow.push((
                tx1(ix::mk(
                    wa::LockPosition {
                        funder: actor.wallet,
                        position_authority: actor.wallet,
                        position: pk.position,
                        position_mint: pk.mint,
                        position_token_account: pk.token_account,
                        lock_config: ix::pda_lock_config(&pk.position),
                        whirlpool: p.whirlpool,
                        token_2022_program: ix::tok22(),
                        system_program: ix::sys(),
                    },
                    wi::LockPosition { lock_type: whirlpool::state::LockType::Permanent },
                )),
                "lock_position".into(),
            ));
        }
        12 if !mine.is_empty() => {
            // transfer a (locked or unlocked) position to another LP; locked ones preferred (only those can be handed over)
            let locked: Vec<usize> = (0..mine.len()).filter(|i| l.data(&mine[*i].0.token_account).and_then(decode::token_account).map(|t| t.state == 2).unwrap_or(false)).collect();
            let pick = if !locked.is_empty() && rng.chance(3, 4) { locked[rng.idx(locked.len())] } else { rng.idx(mine.len()) };
            let (pk, _p) = &mine[pick];
            let others: Vec<&Actor> = w.actors.iter().filter(|a| a.role == actor.role && a.wallet != actor.wallet).collect();
            if !others.is_empty() {
                let to = others[rng.idx(others.len())];
                let mut dest = ix::ata(&to.wallet, &pk.mint, &pk.nft_program);
                let mut ixs = Vec::new();
                let style = rng.below(4);
                if style >= 2 {
                    // not an associated token account: a bare token account (base length, no extensions) of the
                    // receiver (style 2) or of the sender itself (style 3, plain token transfer of an unlocked position)
                    let holder = if style == 2 { to.wallet } else { actor.wallet };
                    dest = crate::world::new_key(rng);
                    ixs.push(ix::sys_create_account(&actor.wallet, &dest, crate::world::rent_min(165), 165, &pk.nft_program));
                    ixs.push(ix::from_sol(if pk.nft_program == ix::tok() {
                        spl_token::instruction::initialize_account3(&ix::tok(), &dest, &pk.mint, &holder).unwrap()
                    } else {
                        spl_token_2022::instruction::initialize_account3(&ix::tok22(), &dest, &pk.mint, &holder).unwrap()
                    }));
                    if style == 3 {
                        ixs.push(ix::from_sol(if pk.nft_program == ix::tok() {
                            spl_token::instruction::transfer_checked(&ix::tok(), &pk.token_account, &pk.mint, &dest, &actor.wallet, &[], 1, 0).unwrap()
                        } else {
                            spl_token_2022::instruction::transfer_checked(&ix::tok22(), &pk.token_account, &pk.mint, &dest, &actor.wallet, &[], 1, 0).unwrap()
                        }));
                        flow.push((Tx { ixs }, "move_position_token_to_bare_account".into()));
                        actor.rng = rng.clone();
                        return flow;
                    }
                } else if !l.exists(&dest) {
                    ixs.push(ix::from_sol(spl_associated_token_account::instruction::create_associated_token_account(&actor.wallet, &to.wallet, &pk.mint, &pk.nft_program)));
                }
                ixs.push(ix::mk(
                    wa::TransferLockedPosition {
                        position_authority: actor.wallet,
                        receiver: actor.wallet,
                        position: pk.position,
                        position_mint: pk.mint,
                        position_token_account: pk.token_account,
                        destination_token_account: dest,
                        lock_config: ix::pda_lock_config(&pk.position),
                        token_2022_program: ix::tok22(),
                    },
                    wi::TransferLockedPosition {},
                ));
                if rng.chance(2, 3) {
                    // destination set-up and hand-over in one atomic transaction
                    flow.push((Tx { ixs }, "transfer_locked_position".into()));
                } else {
                    for i in ixs {
                        flow.push((tx1(i), "transfer_locked_position".into()));
                    }
                }
            }
        }
        13 | 14 if !mine.is_empty() => {
            // operations on (possibly locked) positions
            let (pk, p) = &mine[rng.idx(mine.len())];
            if let (Some(ppi), Some(ppool)) = (pool_of(w, &p.whirlpool), l.data(&p.whirlpool).and_then(decode::pool)) {
                let la = liq_accounts(actor, &ppi.keys, pk, p);
                match rng.below(5) {
                    0 => flow.push((tx1(ix::increase_liquidity_v2(&la, crate::gen::liq_amount(rng, 40), u64::MAX, u64::MAX)), "increase_liquidity".into())),
                    1 => flow.push((tx1(ix::decrease_liquidity(&la, (p.liquidity / 2).max(1), 0, 0)), "decrease_liquidity".into())),
                    2 => flow.push((tx1(ix::decrease_liquidity_v2(&la, p.liquidity.max(1), 0, 0)), "decrease_liquidity".into())),
                    3 => flow.push((tx1(ix::collect_fees_v2(&la)), "collect_fees".into())),
                    _ => {
                        let (lo, hi) = if rng.chance(1, 3) { pick_any_range(rng, l, &p.whirlpool, &ppool) } else { pick_range(rng, l, &p.whirlpool, &ppool) };
                        let (lo, hi) = (lo.clamp(MIN_TICK - 70_000, MAX_TICK + 70_000), hi.clamp(MIN_TICK - 70_000, MAX_TICK + 70_000));
                        let sp = ppi.keys.tick_spacing;
                        let r = ix::RepositionAccounts {
                            liq: la,
                            funder: actor.wallet,
                            new_ta_lower: ix::pda_tick_array(&p.whirlpool, ta_start(lo, sp)),
                            new_ta_upper: ix::pda_tick_array(&p.whirlpool, ta_start(hi, sp)),
                        };
                        flow.push((tx1(ix::reposition_liquidity_v2(&r, lo, hi, p.liquidity.max(1), 0, 0, u64::MAX, u64::MAX)), "reposition_liquidity_v2".into()));
                    }
                }
            }
        }
        15 => {
            // new bundle (with or without metadata)
            let mint = new_key(rng);
            let bundle = ix::pda_position_bundle(&mint);
            let ta = ix::ata(&actor.wallet, &mint, &ix::tok());
            let mut i = if rng.chance(1, 2) {
                ix::mk(
                    wa::InitializePositionBundle {
                        position_bundle: bundle,
                        position_bundle_mint: mint,
                        position_bundle_token_account: ta,
                        position_bundle_owner: actor.wallet,
                        funder: actor.wallet,
                        token_program: ix::tok(),
                        system_program: ix::sys(),
                        rent: ix::rent_sysvar(),
                        associated_token_program: ix::ata_prog(),
                    },
                    wi::InitializePositionBundle {},
                )
            } else {
                ix::mk(
                    wa::InitializePositionBundleWithMetadata {
                        position_bundle: bundle,
                        position_bundle_mint: mint,
                        position_bundle_metadata: ix::pda_metadata(&mint),
                        position_bundle_token_account: ta,
                        position_bundle_owner: actor.wallet,
                        funder: actor.wallet,
                        metadata_update_auth: whirlpool::constants::nft::whirlpool_nft_update_auth::ID,
                        token_program: ix::tok(),
                        system_program: ix::sys(),
                        rent: ix::rent_sysvar(),
                        associated_token_program: ix::ata_prog(),
                        metadata_program: ix::mpl(),
                    },
                    wi::InitializePositionBundleWithMetadata {},
                )
            };
            for m in i.accounts.iter_mut() {
                if m.pubkey == mint {
                    m.is_signer = true;
                }
            }
            flow.push((tx1(i), "initialize_position_bundle".into()));
        }
        16 | 17 if !bundles.is_empty() => {
            // open a bundled position: free index, occupied index, out-of-range index
            let (bmint, bk, bta, bitmap) = &bundles[rng.idx(bundles.len())];
            let set: Vec<u16> = (0..256u16).filter(|i| bitmap[(*i / 8) as usize] & (1 << (i % 8)) != 0).collect();
            let index = match rng.below(6) {
                0 if !set.is_empty() => set[rng.idx(set.len())],
                1 => 256 + rng.below(10) as u16,
                2 => *rng.pick(&[0u16, 7, 8, 255]),
                _ => rng.below(256) as u16,
            };
            let (lo, hi) = if rng.chance(3, 4) { pick_range(rng, l, &wk, &pool) } else { pick_any_range(rng, l, &wk, &pool) };
            let bp = ix::pda_bundled_position(bmint, index);
            flow.push((
                tx1(ix::mk(
                    wa::OpenBundledPosition {
                        bundled_position: bp,
                        position_bundle: *bk,
                        position_bundle_token_account: *bta,
                        position_bundle_authority: actor.wallet,
                        whirlpool: wk,
                        funder: actor.wallet,
                        system_program: ix::sys(),
                        rent: ix::rent_sysvar(),
                    },
                    wi::OpenBundledPosition { bundle_index: index, tick_lower_index: lo, tick_upper_index: hi },
                )),
                "open_bundled_position".into(),
            ));
            if lo < hi && lo >= MIN_TICK && hi <= MAX_TICK && rng.chance(1, 2) && !full_range_only(pi.keys.tick_spacing) {
                let sp = pi.keys.tick_spacing;
                let mut starts = vec![ta_start(lo, sp)];
                if !starts.contains(&ta_start(hi, sp)) {
                    starts.push(ta_start(hi, sp));
                }
                for s in starts {
                    if !l.exists(&ix::pda_tick_array(&wk, s)) {
                        flow.push((tx1(init_array_ix(knobs, rng, &wk, &actor.wallet, s)), "init_tick_array".into()));
                    }
                }
                let la = LiqAccounts {
                    pool: pi.keys.clone(),
                    authority: actor.wallet,
                    position: bp,
                    position_token_account: *bta,
                    owner_a: actor.tokens[&pi.keys.mint_a],
                    owner_b: actor.tokens[&pi.keys.mint_b],
                    ta_lower: ix::pda_tick_array(&wk, ta_start(lo, sp)),
                    ta_upper: ix::pda_tick_array(&wk, ta_start(hi, sp)),
                };
                flow.push((tx1(ix::increase_liquidity(&la, crate::gen::liq_amount(rng, 40), u64::MAX, u64::MAX)), "increase_liquidity".into()));
            }
        }
        12 | 18 if !bundles.is_empty() && (action == 18 || mine.is_empty()) => {
            // close a bundled position (open or free index; maybe after withdrawing)
            let (bmint, bk, bta, bitmap) = &bundles[rng.idx(bundles.len())];
            let set: Vec<u16> = (0..256u16).filter(|i| bitmap[(*i / 8) as usize] & (1 << (i % 8)) != 0).collect();
            let index = if !set.is_empty() && rng.chance(4, 5) { set[rng.idx(set.len())] } else { rng.below(258) as u16 };
            let bp = ix::pda_bundled_position(bmint, index);
            if let Some(p) = l.data(&bp).and_then(decode::position) {
                if p.liquidity > 0 && rng.chance(2, 3) {
                    if let Some(ppi) = pool_of(w, &p.whirlpool) {
                        let pk = PositionKeys { position: bp, mint: *bmint, token_account: *bta, owner: actor.wallet, nft_program: ix::tok() };
                        let la = liq_accounts(actor, &ppi.keys, &pk, &p);
                        flow.push((tx1(ix::decrease_liquidity(&la, p.liquidity, 0, 0)), "decrease_liquidity".into()));
                        flow.push((tx1(ix::collect_fees(&la)), "collect_fees".into()));
                    }
                }
            }
            if rng.chance(1, 6) {
                // the wrong instruction: the ordinary close_position over the bundled position, the bundle mint and the bundle
                // token (it would burn the bundle token and leave the bitmap behind); must be refused
                let pk = PositionKeys { position: bp, mint: *bmint, token_account: *bta, owner: actor.wallet, nft_program: ix::tok() };
                flow.push((tx1(ix::close_position(&actor.wallet, &actor.wallet, &pk)), "close_position on a bundled position".into()));
            }
            // one close in eight is followed, in the SAME transaction, by a deposit into the position just closed (what the close
            // leaves behind until the transaction ends must not be usable as a position)
            let zombie_deposit = if rng.chance(1, 8) {
                l.data(&bp).and_then(decode::position).and_then(|p| pool_of(w, &p.whirlpool).map(|ppi| {
                    let pk = PositionKeys { position: bp, mint: *bmint, token_account: *bta, owner: actor.wallet, nft_program: ix::tok() };
                    let la = liq_accounts(actor, &ppi.keys, &pk, &p);
                    ix::increase_liquidity_v2(&la, 1 + rng.below(100_000) as u128, u64::MAX, u64::MAX)
                }))
            } else {
                None
            };
            flow.push((
                tx1(ix::mk(
                    wa::CloseBundledPosition {
                        bundled_position: bp,
                        position_bundle: *bk,
                        position_bundle_token_account: *bta,
                        position_bundle_authority: actor.wallet,
                        receiver: actor.wallet,
                    },
                    // one time in six the index named is that of ANOTHER open slot of the bundle (the account is this slot's)
                    wi::CloseBundledPosition { bundle_index: if set.len() >= 2 && rng.chance(1, 6) { *set.iter().find(|j| **j != index).unwrap() } else { index } },
                )),
                "close_bundled_position".into(),
            ));
            if let (Some(dep), Some((tx, tag))) = (zombie_deposit, flow.last_mut()) {
                tx.ixs.push(dep);
                tag.push_str(" + deposit into the closed position (one transaction)");
            }
        }
        19 if !bundles.is_empty() => {
            let (bmint, bk, bta, _) = &bundles[rng.idx(bundles.len())];
            flow.push((
                tx1(ix::mk(
                    wa::DeletePositionBundle {
                        position_bundle: *bk,
                        position_bundle_mint: *bmint,
                        position_bundle_token_account: *bta,
                        position_bundle_owner: actor.wallet,
                        receiver: actor.wallet,
                        token_program: ix::tok(),
                    },
                    wi::DeletePositionBundle {},
                )),
                "delete_position_bundle".into(),
            ));
        }
        _ => {}
    }
    actor.rng = rng.clone();
    flow
}
