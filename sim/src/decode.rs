//! The simulator's own byte-level decoders for program accounts (independent of the
//! program's types, so that a layout mistake in either implementation cannot hide itself).

use crate::rt::Ledger;
use solana_program::pubkey::Pubkey;
use std::cell::RefCell;
use std::collections::BTreeMap;

pub const TICK_ARRAY_SIZE: i32 = 88;
pub const FIXED_TA_LEN: usize = 9988;
pub const DYN_TA_MIN_LEN: usize = 148;
pub const WHIRLPOOL_LEN: usize = 653;
pub const POSITION_LEN: usize = 216;
pub const ORACLE_LEN: usize = 254;
pub const MIN_TICK: i32 = -443636;
pub const MAX_TICK: i32 = 443636;
pub const MIN_SQRT_PRICE: u128 = 4295048016;
pub const MAX_SQRT_PRICE: u128 = 79226673515401279992447579055;

thread_local! {
    static DISC: RefCell<BTreeMap<&'static str, [u8; 8]>> = RefCell::new(BTreeMap::new());
}

pub fn disc(name: &'static str) -> [u8; 8] {
    if let Some(d) = DISC.with(|c| c.borrow().get(name).cloned()) {
        return d;
    }
    let h = solana_program::hash::hash(format!("account:{}", name).as_bytes());
    let mut d = [0u8; 8];
    d.copy_from_slice(&h.to_bytes()[..8]);
    DISC.with(|c| c.borrow_mut().insert(name, d));
    d
}

pub fn event_disc(name: &str) -> [u8; 8] {
    let h = solana_program::hash::hash(format!("event:{}", name).as_bytes());
    let mut d = [0u8; 8];
    d.copy_from_slice(&h.to_bytes()[..8]);
    d
}

pub struct Rd<'a> {
    pub d: &'a [u8],
    pub o: usize,
}
impl<'a> Rd<'a> {
    pub fn new(d: &'a [u8], o: usize) -> Self {
        Rd { d, o }
    }
    pub fn u8(&mut self) -> u8 {
        let v = self.d[self.o];
        self.o += 1;
        v
    }
    pub fn bool(&mut self) -> bool {
        self.u8() != 0
    }
    pub fn u16(&mut self) -> u16 {
        let v = u16::from_le_bytes(self.d[self.o..self.o + 2].try_into().unwrap());
        self.o += 2;
        v
    }
    pub fn u32(&mut self) -> u32 {
        let v = u32::from_le_bytes(self.d[self.o..self.o + 4].try_into().unwrap());
        self.o += 4;
        v
    }
    pub fn i32(&mut self) -> i32 {
        self.u32() as i32
    }
    pub fn u64(&mut self) -> u64 {
        let v = u64::from_le_bytes(self.d[self.o..self.o + 8].try_into().unwrap());
        self.o += 8;
        v
    }
    pub fn u128(&mut self) -> u128 {
        let v = u128::from_le_bytes(self.d[self.o..self.o + 16].try_into().unwrap());
        self.o += 16;
        v
    }
    pub fn i128(&mut self) -> i128 {
        self.u128() as i128
    }
    pub fn key(&mut self) -> Pubkey {
        let v = Pubkey::new_from_array(self.d[self.o..self.o + 32].try_into().unwrap());
        self.o += 32;
        v
    }
    pub fn skip(&mut self, n: usize) {
        self.o += n;
    }
    pub fn left(&self) -> usize {
        self.d.len().saturating_sub(self.o)
    }
}

#[derive(Clone, Debug, Default, PartialEq, Eq)]
pub struct RewardInfo {
    pub mint: Pubkey,
    pub vault: Pubkey,
    pub extension: [u8; 32],
    pub emissions_per_second_x64: u128,
    pub growth_global_x64: u128,
}

impl RewardInfo {
    pub fn initialized(&self) -> bool {
        self.mint != Pubkey::default()
    }
}

#[derive(Clone, Debug, Default, PartialEq, Eq)]
pub struct Pool {
    pub config: Pubkey,
    pub bump: u8,
    pub tick_spacing: u16,
    pub fee_tier_index_seed: [u8; 2],
    pub fee_rate: u16,
    pub protocol_fee_rate: u16,
    pub liquidity: u128,
    pub sqrt_price: u128,
    pub tick_current_index: i32,
    pub protocol_fee_owed_a: u64,
    pub protocol_fee_owed_b: u64,
    pub mint_a: Pubkey,
    pub vault_a: Pubkey,
    pub fee_growth_global_a: u128,
    pub mint_b: Pubkey,
    pub vault_b: Pubkey,
    pub fee_growth_global_b: u128,
    pub reward_last_updated_timestamp: u64,
    pub rewards: [RewardInfo; 3],
}

pub fn is_kind(d: &[u8], name: &'static str) -> bool {
    d.len() >= 8 && d[..8] == disc(name)
}

pub fn pool(d: &[u8]) -> Option<Pool> {
    if d.len() != WHIRLPOOL_LEN || !is_kind(d, "Whirlpool") {
        return None;
    }
    let mut r = Rd::new(d, 8);
    let mut p = Pool {
        config: r.key(),
        bump: r.u8(),
        tick_spacing: r.u16(),
        ..Default::default()
    };
    p.fee_tier_index_seed = [r.u8(), r.u8()];
    p.fee_rate = r.u16();
    p.protocol_fee_rate = r.u16();
    p.liquidity = r.u128();
    p.sqrt_price = r.u128();
    p.tick_current_index = r.i32();
    p.protocol_fee_owed_a = r.u64();
    p.protocol_fee_owed_b = r.u64();
    p.mint_a = r.key();
    p.vault_a = r.key();
    p.fee_growth_global_a = r.u128();
    p.mint_b = r.key();
    p.vault_b = r.key();
    p.fee_growth_global_b = r.u128();
    p.reward_last_updated_timestamp = r.u64();
    for i in 0..3 {
        p.rewards[i].mint = r.key();
        p.rewards[i].vault = r.key();
        let mut e = [0u8; 32];
        e.copy_from_slice(&r.d[r.o..r.o + 32]);
        r.skip(32);
        p.rewards[i].extension = e;
        p.rewards[i].emissions_per_second_x64 = r.u128();
        p.rewards[i].growth_global_x64 = r.u128();
    }
    Some(p)
}

// whirlpool field offsets (for direct state fast-forward faults)
pub const POOL_OFF_FEE_GROWTH_A: usize = 8 + 32 + 1 + 2 + 2 + 2 + 2 + 16 + 16 + 4 + 8 + 8 + 32 + 32;
pub const POOL_OFF_FEE_GROWTH_B: usize = POOL_OFF_FEE_GROWTH_A + 16 + 32 + 32;
pub const POOL_OFF_REWARDS: usize = POOL_OFF_FEE_GROWTH_B + 16 + 8;
pub const REWARD_INFO_LEN: usize = 128;

#[derive(Clone, Debug, Default, PartialEq, Eq)]
pub struct PosReward {
    pub growth_inside_checkpoint: u128,
    pub amount_owed: u64,
}

#[derive(Clone, Debug, Default, PartialEq, Eq)]
pub struct Position {
    pub whirlpool: Pubkey,
    pub mint: Pubkey,
    pub liquidity: u128,
    pub lower: i32,
    pub upper: i32,
    pub fee_growth_checkpoint_a: u128,
    pub fee_owed_a: u64,
    pub fee_growth_checkpoint_b: u128,
    pub fee_owed_b: u64,
    pub rewards: [PosReward; 3],
}

pub fn position(d: &[u8]) -> Option<Position> {
    if d.len() != POSITION_LEN || !is_kind(d, "Position") {
        return None;
    }
    let mut r = Rd::new(d, 8);
    let mut p = Position {
        whirlpool: r.key(),
        mint: r.key(),
        liquidity: r.u128(),
        lower: r.i32(),
        upper: r.i32(),
        fee_growth_checkpoint_a: r.u128(),
        fee_owed_a: r.u64(),
        fee_growth_checkpoint_b: r.u128(),
        fee_owed_b: r.u64(),
        ..Default::default()
    };
    for i in 0..3 {
        p.rewards[i].growth_inside_checkpoint = r.u128();
        p.rewards[i].amount_owed = r.u64();
    }
    Some(p)
}

#[derive(Clone, Debug, Default, PartialEq, Eq)]
pub struct Tick {
    pub initialized: bool,
    pub liquidity_net: i128,
    pub liquidity_gross: u128,
    pub fee_growth_outside_a: u128,
    pub fee_growth_outside_b: u128,
    pub reward_growths_outside: [u128; 3],
}

fn tick_body(r: &mut Rd) -> Tick {
    Tick {
        initialized: true,
        liquidity_net: r.i128(),
        liquidity_gross: r.u128(),
        fee_growth_outside_a: r.u128(),
        fee_growth_outside_b: r.u128(),
        reward_growths_outside: [r.u128(), r.u128(), r.u128()],
    }
}

#[derive(Clone, Debug, PartialEq, Eq)]
pub struct TickArray {
    pub dynamic: bool,
    pub start: i32,
    pub whirlpool: Pubkey,
    pub ticks: Vec<Tick>, // 88
    /// dynamic only
    pub bitmap: u128,
}

#[derive(Clone, Debug, PartialEq, Eq)]
pub enum TaError {
    NotTickArray,
    Malformed(String),
}

pub fn tick_array(d: &[u8]) -> Result<TickArray, TaError> {
    if is_kind(d, "TickArray") {
        if d.len() != FIXED_TA_LEN {
            return Err(TaError::Malformed(format!("fixed array length {}", d.len())));
        }
        let mut r = Rd::new(d, 8);
        let start = r.i32();
        let mut ticks = Vec::with_capacity(88);
        for _ in 0..88 {
            let init = r.u8();
            let mut t = tick_body(&mut r);
            t.initialized = init != 0;
            if init > 1 {
                return Err(TaError::Malformed(format!("initialized byte {}", init)));
            }
            ticks.push(t);
        }
        let whirlpool = r.key();
        Ok(TickArray {
            dynamic: false,
            start,
            whirlpool,
            ticks,
            bitmap: 0,
        })
    } else if is_kind(d, "DynamicTickArray") {
        if d.len() < DYN_TA_MIN_LEN {
            return Err(TaError::Malformed(format!("dynamic array length {}", d.len())));
        }
        let mut r = Rd::new(d, 8);
        let start = r.i32();
        let whirlpool = r.key();
        let bitmap = r.u128();
        let mut ticks = Vec::with_capacity(88);
        for i in 0..88 {
            if r.left() < 1 {
                return Err(TaError::Malformed(format!("ran out of bytes at slot {}", i)));
            }
            let flag = r.u8();
            match flag {
                0 => ticks.push(Tick::default()),
                1 => {
                    if r.left() < 112 {
                        return Err(TaError::Malformed(format!(
                            "initialized slot {} truncated",
                            i
                        )));
                    }
                    ticks.push(tick_body(&mut r));
                }
                x => return Err(TaError::Malformed(format!("slot {} flag byte {}", i, x))),
            }
            let bit = (bitmap >> i) & 1 == 1;
            if bit != (flag == 1) {
                return Err(TaError::Malformed(format!(
                    "bitmap bit {} = {} but slot flag = {}",
                    i, bit, flag
                )));
            }
        }
        if r.o != d.len() {
            return Err(TaError::Malformed(format!(
                "walk ended at {} but data_len is {}",
                r.o,
                d.len()
            )));
        }
        if bitmap >> 88 != 0 {
            return Err(TaError::Malformed("bitmap bits beyond 88 set".into()));
        }
        let expect = DYN_TA_MIN_LEN + 112 * (bitmap.count_ones() as usize);
        if d.len() != expect {
            return Err(TaError::Malformed(format!(
                "data_len {} != 148 + 112*popcount = {}",
                d.len(),
                expect
            )));
        }
        Ok(TickArray {
            dynamic: true,
            start,
            whirlpool,
            ticks,
            bitmap,
        })
    } else {
        Err(TaError::NotTickArray)
    }
}

#[derive(Clone, Debug, Default, PartialEq, Eq)]
pub struct AfConstants {
    pub filter_period: u16,
    pub decay_period: u16,
    pub reduction_factor: u16,
    pub adaptive_fee_control_factor: u32,
    pub max_volatility_accumulator: u32,
    pub tick_group_size: u16,
    pub major_swap_threshold_ticks: u16,
}

#[derive(Clone, Debug, Default, PartialEq, Eq)]
pub struct AfVariables {
    pub last_reference_update_timestamp: u64,
    pub last_major_swap_timestamp: u64,
    pub volatility_reference: u32,
    pub tick_group_index_reference: i32,
    pub volatility_accumulator: u32,
}

#[derive(Clone, Debug, Default, PartialEq, Eq)]
pub struct Oracle {
    pub whirlpool: Pubkey,
    pub trade_enable_timestamp: u64,
    pub c: AfConstants,
    pub v: AfVariables,
}

pub fn oracle(d: &[u8]) -> Option<Oracle> {
    if d.len() != ORACLE_LEN || !is_kind(d, "Oracle") {
        return None;
    }
    let mut r = Rd::new(d, 8);
    let whirlpool = r.key();
    let trade_enable_timestamp = r.u64();
    let c = AfConstants {
        filter_period: r.u16(),
        decay_period: r.u16(),
        reduction_factor: r.u16(),
        adaptive_fee_control_factor: r.u32(),
        max_volatility_accumulator: r.u32(),
        tick_group_size: r.u16(),
        major_swap_threshold_ticks: r.u16(),
    };
    r.skip(16);
    let v = AfVariables {
        last_reference_update_timestamp: r.u64(),
        last_major_swap_timestamp: r.u64(),
        volatility_reference: r.u32(),
        tick_group_index_reference: r.i32(),
        volatility_accumulator: r.u32(),
    };
    Some(Oracle {
        whirlpool,
        trade_enable_timestamp,
        c,
        v,
    })
}

#[derive(Clone, Debug, Default, PartialEq, Eq)]
pub struct Config {
    pub fee_authority: Pubkey,
    pub collect_protocol_fees_authority: Pubkey,
    pub reward_emissions_super_authority: Pubkey,
    pub default_protocol_fee_rate: u16,
    pub feature_flags: u16,
}

pub fn config(d: &[u8]) -> Option<Config> {
    if d.len() != 108 || !is_kind(d, "WhirlpoolsConfig") {
        return None;
    }
    let mut r = Rd::new(d, 8);
    Some(Config {
        fee_authority: r.key(),
        collect_protocol_fees_authority: r.key(),
        reward_emissions_super_authority: r.key(),
        default_protocol_fee_rate: r.u16(),
        feature_flags: r.u16(),
    })
}

#[derive(Clone, Debug, Default, PartialEq, Eq)]
pub struct FeeTier {
    pub config: Pubkey,
    pub tick_spacing: u16,
    pub default_fee_rate: u16,
}

pub fn fee_tier(d: &[u8]) -> Option<FeeTier> {
    if d.len() != 44 || !is_kind(d, "FeeTier") {
        return None;
    }
    let mut r = Rd::new(d, 8);
    Some(FeeTier {
        config: r.key(),
        tick_spacing: r.u16(),
        default_fee_rate: r.u16(),
    })
}

#[derive(Clone, Debug, Default, PartialEq, Eq)]
pub struct AdaptiveFeeTier {
    pub config: Pubkey,
    pub fee_tier_index: u16,
    pub tick_spacing: u16,
    pub initialize_pool_authority: Pubkey,
    pub delegated_fee_authority: Pubkey,
    pub default_base_fee_rate: u16,
    pub c: AfConstants,
}

pub fn adaptive_fee_tier(d: &[u8]) -> Option<AdaptiveFeeTier> {
    if d.len() != 8 + 32 + 2 + 2 + 32 + 32 + 2 + 2 + 2 + 2 + 4 + 4 + 2 + 2 + 128
        || !is_kind(d, "AdaptiveFeeTier")
    {
        return None;
    }
    let mut r = Rd::new(d, 8);
    Some(AdaptiveFeeTier {
        config: r.key(),
        fee_tier_index: r.u16(),
        tick_spacing: r.u16(),
        initialize_pool_authority: r.key(),
        delegated_fee_authority: r.key(),
        default_base_fee_rate: r.u16(),
        c: AfConstants {
            filter_period: r.u16(),
            decay_period: r.u16(),
            reduction_factor: r.u16(),
            adaptive_fee_control_factor: r.u32(),
            max_volatility_accumulator: r.u32(),
            tick_group_size: r.u16(),
            major_swap_threshold_ticks: r.u16(),
        },
    })
}

#[derive(Clone, Debug, PartialEq, Eq)]
pub struct PositionBundle {
    pub mint: Pubkey,
    pub bitmap: [u8; 32],
}

pub fn position_bundle(d: &[u8]) -> Option<PositionBundle> {
    if d.len() != 136 || !is_kind(d, "PositionBundle") {
        return None;
    }
    let mut r = Rd::new(d, 8);
    let mint = r.key();
    let mut bitmap = [0u8; 32];
    bitmap.copy_from_slice(&d[r.o..r.o + 32]);
    Some(PositionBundle { mint, bitmap })
}

#[derive(Clone, Debug, PartialEq, Eq)]
pub struct LockConfig {
    pub position: Pubkey,
    pub position_owner: Pubkey,
    pub whirlpool: Pubkey,
    pub locked_timestamp: u64,
    pub lock_type: u8,
}

pub fn lock_config(d: &[u8]) -> Option<LockConfig> {
    if d.len() != 8 + 32 + 32 + 32 + 8 + 1 + 128 || !is_kind(d, "LockConfig") {
        return None;
    }
    let mut r = Rd::new(d, 8);
    Some(LockConfig {
        position: r.key(),
        position_owner: r.key(),
        whirlpool: r.key(),
        locked_timestamp: r.u64(),
        lock_type: r.u8(),
    })
}

// ---- token accounts (SPL Token and Token-2022 share the 165-byte base layout) ----------------

#[derive(Clone, Debug, Default, PartialEq, Eq)]
pub struct TokenAcct {
    pub mint: Pubkey,
    pub owner: Pubkey,
    pub amount: u64,
    pub delegate: Option<Pubkey>,
    pub state: u8,
    pub delegated_amount: u64,
    pub close_authority: Option<Pubkey>,
}

pub fn token_account(d: &[u8]) -> Option<TokenAcct> {
    if d.len() < 165 {
        return None;
    }
    if d.len() > 165 && d[165] != 2 {
        return None; // Token-2022 account type byte
    }
    let mut r = Rd::new(d, 0);
    let mint = r.key();
    let owner = r.key();
    let amount = r.u64();
    let dtag = r.u32();
    let dk = r.key();
    let state = r.u8();
    r.skip(12);
    let delegated_amount = r.u64();
    let ctag = r.u32();
    let ck = r.key();
    if state == 0 {
        return None;
    }
    Some(TokenAcct {
        mint,
        owner,
        amount,
        delegate: if dtag == 1 { Some(dk) } else { None },
        state,
        delegated_amount,
        close_authority: if ctag == 1 { Some(ck) } else { None },
    })
}

#[derive(Clone, Debug, Default, PartialEq, Eq)]
pub struct MintAcct {
    pub mint_authority: Option<Pubkey>,
    pub supply: u64,
    pub decimals: u8,
    pub initialized: bool,
    pub freeze_authority: Option<Pubkey>,
}

pub fn mint(d: &[u8]) -> Option<MintAcct> {
    if d.len() < 82 {
        return None;
    }
    if d.len() > 82 && (d.len() <= 165 || d[165] != 1) {
        return None;
    }
    let mut r = Rd::new(d, 0);
    let atag = r.u32();
    let ak = r.key();
    let supply = r.u64();
    let decimals = r.u8();
    let initialized = r.bool();
    let ftag = r.u32();
    let fk = r.key();
    Some(MintAcct {
        mint_authority: if atag == 1 { Some(ak) } else { None },
        supply,
        decimals,
        initialized,
        freeze_authority: if ftag == 1 { Some(fk) } else { None },
    })
}

/// Token-2022 TLV entries after the account-type byte: (type, value bytes)
pub fn tlv_entries(d: &[u8]) -> Vec<(u16, &[u8])> {
    let mut out = Vec::new();
    if d.len() <= 166 {
        return out;
    }
    let mut o = 166;
    while o + 4 <= d.len() {
        let t = u16::from_le_bytes(d[o..o + 2].try_into().unwrap());
        let l = u16::from_le_bytes(d[o + 2..o + 4].try_into().unwrap()) as usize;
        if t == 0 {
            break;
        }
        if o + 4 + l > d.len() {
            break;
        }
        out.push((t, &d[o + 4..o + 4 + l]));
        o += 4 + l;
    }
    out
}

// ---- ledger scans -----------------------------------------------------------------------------

pub fn positions_of_pool(l: &Ledger, whirlpool: &Pubkey) -> Vec<(Pubkey, Position)> {
    let wp = crate::ix::wp();
    l.accts
        .iter()
        .filter(|(_, a)| a.owner == wp && a.data.len() == POSITION_LEN)
        .filter_map(|(k, a)| position(&a.data).map(|p| (*k, p)))
        .filter(|(_, p)| p.whirlpool == *whirlpool)
        .collect()
}

pub fn tick_arrays_of_pool(l: &Ledger, whirlpool: &Pubkey) -> Vec<(Pubkey, Result<TickArray, TaError>)> {
    let wp = crate::ix::wp();
    let mut v = Vec::new();
    for (k, a) in l.accts.iter() {
        if a.owner != wp {
            continue;
        }
        let d = &a.data;
        if is_kind(d, "TickArray") || is_kind(d, "DynamicTickArray") {
            // whirlpool field: fixed at the end, dynamic at offset 12
            let w = if is_kind(d, "TickArray") {
                if d.len() == FIXED_TA_LEN {
                    Pubkey::new_from_array(d[FIXED_TA_LEN - 32..].try_into().unwrap())
                } else {
                    Pubkey::default()
                }
            } else if d.len() >= 44 {
                Pubkey::new_from_array(d[12..44].try_into().unwrap())
            } else {
                Pubkey::default()
            };
            if w == *whirlpool {
                v.push((*k, tick_array(d)));
            }
        }
    }
    v
}

pub fn pools(l: &Ledger) -> Vec<(Pubkey, Pool)> {
    let wp = crate::ix::wp();
    l.accts
        .iter()
        .filter(|(_, a)| a.owner == wp && a.data.len() == WHIRLPOOL_LEN)
        .filter_map(|(k, a)| pool(&a.data).map(|p| (*k, p)))
        .collect()
}

/// holder (token account key, token account) of an NFT-like mint: the account with amount 1
pub fn holder_of(l: &Ledger, mint_key: &Pubkey) -> Option<(Pubkey, TokenAcct)> {
    for (k, a) in l.accts.iter() {
        if a.owner != crate::ix::tok() && a.owner != crate::ix::tok22() {
            continue;
        }
        if a.data.len() < 165 || a.data[..32] != mint_key.to_bytes() {
            continue;
        }
        if let Some(t) = token_account(&a.data) {
            if t.amount == 1 {
                return Some((*k, t));
            }
        }
    }
    None
}

/// the tick record the swap path sees for `tick`: the slot of the canonical array (start = floor to 88 x spacing) at its PDA
pub fn canonical_tick(l: &Ledger, whirlpool: &Pubkey, spacing: u16, tick: i32) -> Option<Tick> {
    let start = crate::gen::ta_start(tick, spacing);
    let ta = tick_array(l.data(&crate::ix::pda_tick_array(whirlpool, start))?).ok()?;
    let off = (tick - start) / spacing as i32;
    ta.ticks.get(off as usize).cloned()
}


/// The same tick contents in the other encoding (fixed <-> dynamic), as account bytes.
pub fn reencode_tick_array(ta: &TickArray) -> Vec<u8> {
    let body = |d: &mut Vec<u8>, t: &Tick| {
        d.extend_from_slice(&t.liquidity_net.to_le_bytes());
        d.extend_from_slice(&t.liquidity_gross.to_le_bytes());
        d.extend_from_slice(&t.fee_growth_outside_a.to_le_bytes());
        d.extend_from_slice(&t.fee_growth_outside_b.to_le_bytes());
        for r in t.reward_growths_outside {
            d.extend_from_slice(&r.to_le_bytes());
        }
    };
    let mut d = Vec::new();
    if ta.dynamic {
        // -> fixed
        d.extend_from_slice(&disc("TickArray"));
        d.extend_from_slice(&ta.start.to_le_bytes());
        for t in &ta.ticks {
            d.push(t.initialized as u8);
            if t.initialized {
                body(&mut d, t);
            } else {
                d.extend_from_slice(&[0u8; 112]);
            }
        }
        d.extend_from_slice(ta.whirlpool.as_ref());
    } else {
        // -> dynamic
        d.extend_from_slice(&disc("DynamicTickArray"));
        d.extend_from_slice(&ta.start.to_le_bytes());
        d.extend_from_slice(ta.whirlpool.as_ref());
        let mut bm: u128 = 0;
        for (i, t) in ta.ticks.iter().enumerate() {
            if t.initialized {
                bm |= 1u128 << i;
            }
        }
        d.extend_from_slice(&bm.to_le_bytes());
        for t in &ta.ticks {
            if t.initialized {
                d.push(1);
                body(&mut d, t);
            } else {
                d.push(0);
            }
        }
    }
    d
}
