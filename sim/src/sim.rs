//! Discrete-event simulator core: history events, application of an event to the ledger,
//! monitors interface, coverage bookkeeping, replay-file (de)serialisation.

use crate::rt::{self, ClockState, ExecOpts, Ix, Ledger, Meta, RentParams, Tx, TxOutcome};
use serde_json::{json, Value};
use solana_program::pubkey::Pubkey;
use std::collections::{BTreeMap, BTreeSet};

#[derive(Clone, Debug, PartialEq, Eq)]
pub enum HEvent {
    Tx {
        tx: Tx,
        clock: ClockState,
        /// fault: (instruction index, k-th CPI of that instruction fails)
        fail_cpi: Option<(usize, usize)>,
        salt: u64,
        tag: String,
    },
    /// an account appears in the ledger with given bytes (fabricated mint; lamports sent to an address)
    Put {
        key: Pubkey,
        lamports: u64,
        owner: Pubkey,
        data: Vec<u8>,
        tag: String,
    },
    /// direct edit of account bytes (state fast-forward fault)
    Patch {
        key: Pubkey,
        offset: usize,
        bytes: Vec<u8>,
        tag: String,
    },
}

#[derive(Clone, Debug)]
pub struct Violation {
    pub property: &'static str,
    /// stable class id: monitor + kind of failure (used to keep "the same violation" while minimising)
    pub class: String,
    pub detail: String,
    pub event_idx: usize,
}

pub struct Landed<'a> {
    pub idx: usize,
    pub salt: u64,
    pub tag: &'a str,
    pub tx: &'a Tx,
    pub pre: &'a Ledger,
    pub post: &'a Ledger,
    pub out: &'a TxOutcome,
    pub clock: ClockState,
    pub fail_cpi: Option<(usize, usize)>,
}

pub struct IxView<'a> {
    pub i: usize,
    pub ix: &'a Ix,
    pub out: &'a rt::IxOutcome,
    pub pre: &'a Ledger,
    pub post: &'a Ledger,
}

impl<'a> Landed<'a> {
    /// per-instruction views of a successful transaction (pre/post ledger of each instruction)
    pub fn ix_views(&self) -> Vec<IxView<'_>> {
        let mut v = Vec::new();
        if !self.out.ok {
            return v;
        }
        for (i, ix) in self.tx.ixs.iter().enumerate() {
            let pre = if i == 0 { self.pre } else { &self.out.post_ix[i - 1] };
            let post = &self.out.post_ix[i];
            v.push(IxView {
                i,
                ix,
                out: &self.out.ix_outcomes[i],
                pre,
                post,
            });
        }
        v
    }
}

#[derive(Default, Clone)]
pub struct Coverage {
    pub evaluations: u64,
    pub distinct: BTreeSet<String>,
    pub probes: BTreeMap<String, u64>,
    pub samples: Vec<Value>,
    pub notes: BTreeMap<String, u64>,
}

impl Coverage {
    pub fn probe(&mut self, name: &str) {
        *self.probes.entry(name.to_string()).or_insert(0) += 1;
    }
    pub fn probe_n(&mut self, name: &str, n: u64) {
        *self.probes.entry(name.to_string()).or_insert(0) += n;
    }
    pub fn note(&mut self, name: &str) {
        *self.notes.entry(name.to_string()).or_insert(0) += 1;
    }
    pub fn eval(&mut self, key: String) {
        self.evaluations += 1;
        if self.distinct.len() < 200_000 {
            self.distinct.insert(key);
        }
    }
    pub fn sample(&mut self, v: Value) {
        if self.samples.len() < 6 {
            self.samples.push(v);
        }
    }
    pub fn merge(&mut self, o: Coverage) {
        self.evaluations += o.evaluations;
        for k in o.distinct {
            if self.distinct.len() < 200_000 {
                self.distinct.insert(k);
            }
        }
        for (k, v) in o.probes {
            *self.probes.entry(k).or_insert(0) += v;
        }
        for (k, v) in o.notes {
            *self.notes.entry(k).or_insert(0) += v;
        }
        for s in o.samples {
            if self.samples.len() < 6 {
                self.samples.push(s);
            }
        }
    }
}

pub trait Monitor {
    fn name(&self) -> &'static str;
    fn on_genesis(&mut self, _l: &Ledger, _cov: &mut Coverage) {}
    fn on_landed(&mut self, ev: &Landed, cov: &mut Coverage) -> Vec<Violation>;
    fn on_patch(&mut self, _idx: usize, _pre: &Ledger, _post: &Ledger, _cov: &mut Coverage) {}
    fn end_of_run(&mut self, _l: &Ledger, _cov: &mut Coverage) -> Vec<Violation> {
        Vec::new()
    }
}

/// Apply one history event to the ledger and show it to the monitors.
pub fn apply_event(
    ledger: &mut Ledger,
    idx: usize,
    ev: &HEvent,
    monitors: &mut [Box<dyn Monitor>],
    cov: &mut Coverage,
) -> (Option<TxOutcome>, Vec<Violation>) {
    match ev {
        HEvent::Tx {
            tx,
            clock,
            fail_cpi,
            salt,
            tag,
        } => {
            rt::with_ctx(|c| c.clock = *clock);
            let pre = ledger.clone();
            let fc = *fail_cpi;
            let out = rt::exec_tx(ledger, tx, &|i| ExecOpts {
                fail_cpi_at: fc.and_then(|(ii, k)| if ii == i { Some(k) } else { None }),
                record_logs: std::env::var("WPSIM_DEBUG_FAILS").is_ok(),
                hook_fail: false,
            });
            if !out.ok && std::env::var("WPSIM_DEBUG_FAILS").is_ok() {
                if let Some(io) = out.ix_outcomes.last() {
                    eprintln!("DEBUG fail idx={} tag={} code={:#x} detail={:?} logs={:?} cpis={:?}", idx, tag, io.code, io.detail, io.logs, io.cpis.iter().map(|c| (c.program_id.to_string(), c.data.clone(), c.result)).collect::<Vec<_>>());
                }
            }
            let landed = Landed {
                idx,
                salt: *salt,
                tag,
                tx,
                pre: &pre,
                post: ledger,
                out: &out,
                clock: *clock,
                fail_cpi: fc,
            };
            let mut v = Vec::new();
            for m in monitors.iter_mut() {
                v.extend(m.on_landed(&landed, cov));
                // monitors run forks, which move the thread-local clock; restore
                rt::with_ctx(|c| c.clock = *clock);
            }
            (Some(out), v)
        }
        HEvent::Put {
            key,
            lamports,
            owner,
            data,
            ..
        } => {
            let pre = ledger.clone();
            if !ledger.exists(key) {
                ledger.put(*key, rt::Account::new(*lamports, data.clone(), *owner));
            }
            for m in monitors.iter_mut() {
                m.on_patch(idx, &pre, ledger, cov);
            }
            (None, Vec::new())
        }
        HEvent::Patch {
            key,
            offset,
            bytes,
            ..
        } => {
            let pre = ledger.clone();
            if let Some(a) = ledger.accts.get_mut(key) {
                let mut d = (*a.data).clone();
                if offset + bytes.len() <= d.len() {
                    d[*offset..offset + bytes.len()].copy_from_slice(bytes);
                    a.data = std::rc::Rc::new(d);
                }
            }
            for m in monitors.iter_mut() {
                m.on_patch(idx, &pre, ledger, cov);
            }
            (None, Vec::new())
        }
    }
}

// ---------------------------------------------------------------------------------------------
// replay file
// ---------------------------------------------------------------------------------------------

pub fn hex(b: &[u8]) -> String {
    let mut s = String::with_capacity(b.len() * 2);
    for x in b {
        s.push_str(&format!("{:02x}", x));
    }
    s
}
pub fn unhex(s: &str) -> Vec<u8> {
    (0..s.len() / 2)
        .map(|i| u8::from_str_radix(&s[i * 2..i * 2 + 2], 16).unwrap_or(0))
        .collect()
}

pub fn key_s(k: &Pubkey) -> String {
    k.to_string()
}
pub fn s_key(s: &str) -> Pubkey {
    s.parse().unwrap_or_default()
}

fn ix_json(ix: &Ix) -> Value {
    let name = crate::wpix::decode(ix).map(|c| c.name()).unwrap_or("");
    json!({
        "program": key_s(&ix.program_id),
        "name": name,
        "accounts": ix.accounts.iter().map(|m| json!([key_s(&m.pubkey), m.is_signer, m.is_writable])).collect::<Vec<_>>(),
        "data": hex(&ix.data),
    })
}
fn json_ix(v: &Value) -> Ix {
    Ix {
        program_id: s_key(v["program"].as_str().unwrap_or("")),
        accounts: v["accounts"]
            .as_array()
            .map(|a| {
                a.iter()
                    .map(|m| Meta {
                        pubkey: s_key(m[0].as_str().unwrap_or("")),
                        is_signer: m[1].as_bool().unwrap_or(false),
                        is_writable: m[2].as_bool().unwrap_or(false),
                    })
                    .collect()
            })
            .unwrap_or_default(),
        data: unhex(v["data"].as_str().unwrap_or("")),
    }
}

pub fn clock_json(c: &ClockState) -> Value {
    json!({"slot": c.slot, "epoch": c.epoch, "epoch_start_timestamp": c.epoch_start_timestamp,
           "leader_schedule_epoch": c.leader_schedule_epoch, "unix_timestamp": c.unix_timestamp})
}
pub fn json_clock(v: &Value) -> ClockState {
    ClockState {
        slot: v["slot"].as_u64().unwrap_or(0),
        epoch: v["epoch"].as_u64().unwrap_or(0),
        epoch_start_timestamp: v["epoch_start_timestamp"].as_i64().unwrap_or(0),
        leader_schedule_epoch: v["leader_schedule_epoch"].as_u64().unwrap_or(0),
        unix_timestamp: v["unix_timestamp"].as_i64().unwrap_or(0),
    }
}

pub fn event_json(e: &HEvent) -> Value {
    match e {
        HEvent::Tx {
            tx,
            clock,
            fail_cpi,
            salt,
            tag,
        } => json!({
            "type": "tx", "tag": tag, "salt": salt, "clock": clock_json(clock),
            "fail_cpi": fail_cpi.map(|(a, b)| json!([a, b])),
            "ixs": tx.ixs.iter().map(ix_json).collect::<Vec<_>>(),
        }),
        HEvent::Put {
            key,
            lamports,
            owner,
            data,
            tag,
        } => json!({"type": "put", "tag": tag, "key": key_s(key), "lamports": lamports, "owner": key_s(owner), "data": hex(data)}),
        HEvent::Patch {
            key,
            offset,
            bytes,
            tag,
        } => json!({"type": "patch", "tag": tag, "key": key_s(key), "offset": offset, "bytes": hex(bytes)}),
    }
}

pub fn json_event(v: &Value) -> Option<HEvent> {
    match v["type"].as_str()? {
        "tx" => Some(HEvent::Tx {
            tx: Tx {
                ixs: v["ixs"].as_array()?.iter().map(json_ix).collect(),
            },
            clock: json_clock(&v["clock"]),
            fail_cpi: v["fail_cpi"].as_array().map(|a| {
                (
                    a[0].as_u64().unwrap_or(0) as usize,
                    a[1].as_u64().unwrap_or(0) as usize,
                )
            }),
            salt: v["salt"].as_u64().unwrap_or(0),
            tag: v["tag"].as_str().unwrap_or("").to_string(),
        }),
        "put" => Some(HEvent::Put {
            key: s_key(v["key"].as_str()?),
            lamports: v["lamports"].as_u64()?,
            owner: s_key(v["owner"].as_str()?),
            data: unhex(v["data"].as_str()?),
            tag: v["tag"].as_str().unwrap_or("").to_string(),
        }),
        "patch" => Some(HEvent::Patch {
            key: s_key(v["key"].as_str()?),
            offset: v["offset"].as_u64()? as usize,
            bytes: unhex(v["bytes"].as_str()?),
            tag: v["tag"].as_str().unwrap_or("").to_string(),
        }),
        _ => None,
    }
}

pub fn rent_json(r: &RentParams) -> Value {
    json!({"lamports_per_byte_year": r.lamports_per_byte_year, "exemption_threshold": r.exemption_threshold, "burn_percent": r.burn_percent})
}
