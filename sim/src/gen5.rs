//! Byzantine liquidity provider ("attacker"): an ordinary funded user whose transactions carry crafted account
//! lists. On a correct program every crafted transaction fails; if one lands, the semantic monitors (solvency,
//! liquidity sums, fee shares, ...) see its consequences in the history itself, not only on a fork.
//!
//! Scripts:
//!   * own token account in a vault slot (increase / decrease / collect / swap, v1 and v2);
//!   * a position of pool X (with its token account) operated through pool Y, after opening twin positions over the
//!     same tick range in both pools;
//!   * a tick array of another pool in an array slot.

use crate::decode;
use crate::gen::{init_array_ix, liq_accounts, my_positions, pool_of, ta_start, Actor, Knobs, World};
use crate::ix::{self, LiqAccounts};
use crate::rng::Rng;
use crate::rt::{Ix, Ledger, Tx};
use crate::world::new_key;
use solana_program::pubkey::Pubkey;

fn tx1(i: Ix) -> Tx {
    Tx { ixs: vec![i] }
}

fn replace_key(i: &mut Ix, from: &Pubkey, to: &Pubkey) {
    for m in i.accounts.iter_mut() {
        if m.pubkey == *from {
            m.pubkey = *to;
        }
    }
}

pub fn plan_attacker(w: &World, knobs: &Knobs, actor: &mut Actor, l: &Ledger) -> Vec<(Tx, String)> {
    let rng = &mut actor.rng.clone();
    let mut flow: Vec<(Tx, String)> = Vec::new();
    let mine = my_positions(l, &actor.wallet);
    let usable: Vec<&crate::gen::PoolInfo> = w.pools.iter().filter(|p| p.keys.tick_spacing < 32768).collect();
    if usable.is_empty() {
        return flow;
    }
    // keep up to two funded positions per pool, opened honestly; twin ranges across pools (multiples of the largest spacing)
    let max_sp = usable.iter().map(|p| p.keys.tick_spacing).max().unwrap_or(1) as i32;
    let need_open = usable.iter().find(|p| mine.iter().filter(|(_, q)| q.whirlpool == p.keys.whirlpool).count() == 0);
    if let Some(pi) = need_open {
        if let Some(pool) = l.data(&pi.keys.whirlpool).and_then(decode::pool) {
            // the same range in every pool: around tick 0 in units of the largest spacing, wide enough to hold the price often
            let (lo, hi) = (-(max_sp * 64), max_sp * 64);
            let mint = new_key(rng);
            let (open_ix, pk) = ix::open_position(&pi.keys.whirlpool, &actor.wallet, &actor.wallet, &mint, lo, hi);
            let mut ixs: Vec<Ix> = Vec::new();
            for s in [ta_start(lo, pi.keys.tick_spacing), ta_start(hi, pi.keys.tick_spacing)] {
                if !l.exists(&ix::pda_tick_array(&pi.keys.whirlpool, s)) && !ixs.iter().any(|i: &Ix| i.accounts.iter().any(|m| m.pubkey == ix::pda_tick_array(&pi.keys.whirlpool, s))) {
                    ixs.push(init_array_ix(knobs, rng, &pi.keys.whirlpool, &actor.wallet, s));
                }
            }
            ixs.push(open_ix);
            let fake = decode::Position { lower: lo, upper: hi, ..Default::default() };
            let la = liq_accounts(actor, &pi.keys, &pk, &fake);
            let liq = 1_000 + rng.log_u128(knobs.liq_bits.min(36));
            ixs.push(ix::increase_liquidity_v2(&la, liq, u64::MAX, u64::MAX));
            let _ = pool;
            flow.push((Tx { ixs }, "attacker: honest open+increase".into()));
            actor.rng = rng.clone();
            return flow;
        }
    }
    if mine.is_empty() {
        actor.rng = rng.clone();
        return flow;
    }
    let (pk, p) = &mine[rng.idx(mine.len())];
    let Some(pi) = pool_of(w, &p.whirlpool) else { return flow };
    let la: LiqAccounts = liq_accounts(actor, &pi.keys, pk, p);
    let v1_ok = pi.keys.prog_a == ix::tok() && pi.keys.prog_b == ix::tok() && !crate::gen::V2_ONLY.with(|c| c.get());
    let small = 1 + rng.below(1_000_000) as u128;
    // an honest instruction of this actor to start from
    let honest = |rng: &mut Rng| -> (Ix, &'static str) {
        match rng.below(7) {
            6 => (ix::update_fees_and_rewards(&pi.keys.whirlpool, &pk.position, &la.ta_lower, &la.ta_upper), "update_fees_and_rewards"),
            0 if v1_ok => (ix::increase_liquidity(&la, small, u64::MAX, u64::MAX), "increase_liquidity"),
            0 | 1 => (ix::increase_liquidity_v2(&la, small, u64::MAX, u64::MAX), "increase_liquidity_v2"),
            2 if v1_ok => (ix::decrease_liquidity(&la, (p.liquidity / 3).max(1), 0, 0), "decrease_liquidity"),
            2 | 3 => (ix::decrease_liquidity_v2(&la, (p.liquidity / 3).max(1), 0, 0), "decrease_liquidity_v2"),
            4 if v1_ok => (ix::collect_fees(&la), "collect_fees"),
            _ => (ix::collect_fees_v2(&la), "collect_fees_v2"),
        }
    };
    // a tick array at a start index that is a multiple of the tick spacing but not of the array width, with a position
    // whose lower tick lives in it (one atomic transaction; on a correct program the initialisation is refused)
    if rng.chance(1, 8) {
        if let Some(pool) = l.data(&p.whirlpool).and_then(decode::pool) {
            let sp = pi.keys.tick_spacing as i32;
            let base = ta_start(pool.tick_current_index, pi.keys.tick_spacing) + (1 + rng.below(2) as i32) * 88 * sp * if rng.chance(1, 2) { 1 } else { -1 };
            let off = base + (1 + rng.below(87) as i32) * sp;
            let lo = off + (rng.below(40) as i32) * sp;
            let hi = lo + (1 + rng.below(200) as i32) * sp;
            if lo > crate::gen::min_usable(pi.keys.tick_spacing) && hi < crate::gen::max_usable(pi.keys.tick_spacing) {
                let mint = new_key(rng);
                let (open_ix, npk) = ix::open_position(&pi.keys.whirlpool, &actor.wallet, &actor.wallet, &mint, lo, hi);
                let fake = decode::Position { lower: lo, upper: hi, ..Default::default() };
                let mut nla = liq_accounts(actor, &pi.keys, &npk, &fake);
                nla.ta_lower = ix::pda_tick_array(&pi.keys.whirlpool, off);
                let mut ixs = vec![init_array_ix(knobs, rng, &pi.keys.whirlpool, &actor.wallet, off)];
                let up = ix::pda_tick_array(&pi.keys.whirlpool, ta_start(hi, pi.keys.tick_spacing));
                if !l.exists(&up) {
                    ixs.push(init_array_ix(knobs, rng, &pi.keys.whirlpool, &actor.wallet, ta_start(hi, pi.keys.tick_spacing)));
                }
                ixs.push(open_ix);
                ixs.push(ix::increase_liquidity_v2(&nla, 1_000 + rng.log_u128(30), u64::MAX, u64::MAX));
                flow.push((Tx { ixs }, "attacker: position with its lower tick in an off-grid tick array".into()));
                actor.rng = rng.clone();
                return flow;
            }
        }
    }
    // a position with a bound on the very first tick of a tick array, funded while naming the PRECEDING array in that
    // slot (the tick is one past its last slot); on a correct program the deposit is refused (tick not found)
    if rng.chance(1, 8) {
        if let Some(pool) = l.data(&p.whirlpool).and_then(decode::pool) {
            let sp = pi.keys.tick_spacing as i32;
            let width = 88 * sp;
            let edge = ta_start(pool.tick_current_index, pi.keys.tick_spacing) + (rng.below(3) as i32 - 1) * width;
            let upper_side = rng.chance(1, 2);
            let (lo, hi) = if upper_side { (edge - (1 + rng.below(120) as i32) * sp, edge) } else { (edge, edge + (1 + rng.below(120) as i32) * sp) };
            if lo > crate::gen::min_usable(pi.keys.tick_spacing) && hi < crate::gen::max_usable(pi.keys.tick_spacing) && edge - width >= ta_start(crate::gen::min_usable(pi.keys.tick_spacing), pi.keys.tick_spacing) {
                let mint = new_key(rng);
                let (open_ix, npk) = ix::open_position(&pi.keys.whirlpool, &actor.wallet, &actor.wallet, &mint, lo, hi);
                let fake = decode::Position { lower: lo, upper: hi, ..Default::default() };
                let mut nla = liq_accounts(actor, &pi.keys, &npk, &fake);
                let prev = ix::pda_tick_array(&pi.keys.whirlpool, edge - width);
                if upper_side {
                    nla.ta_upper = prev;
                } else {
                    nla.ta_lower = prev;
                }
                let mut ixs: Vec<Ix> = Vec::new();
                for s in [edge - width, ta_start(lo, pi.keys.tick_spacing), ta_start(hi, pi.keys.tick_spacing)] {
                    let k = ix::pda_tick_array(&pi.keys.whirlpool, s);
                    if !l.exists(&k) && !ixs.iter().any(|i: &Ix| i.accounts.iter().any(|m| m.pubkey == k)) {
                        ixs.push(init_array_ix(knobs, rng, &pi.keys.whirlpool, &actor.wallet, s));
                    }
                }
                ixs.push(open_ix);
                ixs.push(if v1_ok && rng.chance(1, 2) { ix::increase_liquidity(&nla, 1_000 + rng.log_u128(30), u64::MAX, u64::MAX) } else { ix::increase_liquidity_v2(&nla, 1_000 + rng.log_u128(30), u64::MAX, u64::MAX) });
                flow.push((Tx { ixs }, "attacker: bound on the first tick of an array, preceding array named".into()));
                actor.rng = rng.clone();
                return flow;
            }
        }
    }
    // liquidity amounts at the integer limits, through the attacker's own position: a withdrawal of 2^128 - x (which a
    // careless sign conversion reads as a deposit of x), a deposit at or above 2^127, and deposits whose exact token cost
    // sits just above 2^64 or 2^128 (which a truncating conversion reads as a small number). All must be refused.
    if rng.chance(1, 8) {
        if let Some(pool) = l.data(&p.whirlpool).and_then(decode::pool) {
            let x = 1 + rng.below(1_000_000) as u128;
            let (pl, pu) = (crate::model::sqrt_price_of_tick(p.lower), crate::model::sqrt_price_of_tick(p.upper));
            let t = pool.tick_current_index;
            let pr = if pl <= pu { pool.sqrt_price.clamp(pl, pu) } else { pool.sqrt_price };
            // per-unit cost n/d of token A (if any) and token B (if any) at the current price
            let mut wraps: Vec<u128> = Vec::new();
            let two64 = crate::model::two64();
            let mut sides: Vec<(num_bigint::BigUint, num_bigint::BigUint)> = Vec::new();
            if t < p.upper {
                let bot = if t < p.lower { pl } else { pr };
                if pu > bot {
                    sides.push((&two64 * crate::model::bu(pu - bot), crate::model::bu(pu) * crate::model::bu(bot)));
                }
            }
            if t >= p.lower {
                let top = if t < p.upper { pr } else { pu };
                if top > pl {
                    sides.push((crate::model::bu(top - pl), two64.clone()));
                }
            }
            for (n, d) in sides {
                for k in [crate::model::bu(u64::MAX as u128), crate::model::bu(u128::MAX)] {
                    let lw = (k * &d) / &n + num_bigint::BigUint::from(1u8) + (&d / &n) * num_bigint::BigUint::from(x as u64);
                    if let Some(v) = crate::model::to_u128(&lw) {
                        wraps.push(v);
                    }
                }
            }
            let pick = rng.below(4);
            let (i, n): (Ix, &str) = match pick {
                0 if v1_ok => (ix::decrease_liquidity(&la, u128::MAX - x + 1, 0, 0), "decrease_liquidity of 2^128 - x"),
                0 | 1 => (ix::decrease_liquidity_v2(&la, u128::MAX - x + 1, 0, 0), "decrease_liquidity_v2 of 2^128 - x"),
                2 => (ix::increase_liquidity_v2(&la, (1u128 << 127) + x - 1, u64::MAX, u64::MAX), "increase_liquidity_v2 of 2^127 + x"),
                _ if !wraps.is_empty() => {
                    let lw = wraps[rng.idx(wraps.len())];
                    if v1_ok && rng.chance(1, 2) {
                        (ix::increase_liquidity(&la, lw, u64::MAX, u64::MAX), "increase_liquidity with a cost just above 2^64 / 2^128")
                    } else {
                        (ix::increase_liquidity_v2(&la, lw, u64::MAX, u64::MAX), "increase_liquidity_v2 with a cost just above 2^64 / 2^128")
                    }
                }
                _ => (ix::decrease_liquidity_v2(&la, u128::MAX - x + 1, 0, 0), "decrease_liquidity_v2 of 2^128 - x"),
            };
            flow.push((tx1(i), format!("attacker: {}", n)));
            actor.rng = rng.clone();
            return flow;
        }
    }
    // rewards: collect index i out of the vault that is registered for index j (same mint)
    if rng.chance(1, 4) {
        if let Some(pool) = l.data(&p.whirlpool).and_then(decode::pool) {
            let pairs: Vec<(usize, usize)> = (0..3).flat_map(|i| (0..3).map(move |j| (i, j))).filter(|(i, j)| i != j && pool.rewards[*i].initialized() && pool.rewards[*j].initialized() && pool.rewards[*i].mint == pool.rewards[*j].mint).collect();
            if !pairs.is_empty() {
                let (i, j) = pairs[rng.idx(pairs.len())];
                if let Some(own) = actor.tokens.get(&pool.rewards[i].mint) {
                    let mut r = pool.rewards[i].clone();
                    r.vault = pool.rewards[j].vault;
                    let upd = ix::update_fees_and_rewards(&pi.keys.whirlpool, &pk.position, &la.ta_lower, &la.ta_upper);
                    let col = crate::gen2::collect_reward_ix(rng, &pi.keys, &actor.wallet, pk, i as u8, &r, own);
                    flow.push((Tx { ixs: vec![upd, col] }, "attacker: collect_reward out of another index's vault".into()));
                    actor.rng = rng.clone();
                    return flow;
                }
            }
        }
    }
    match rng.below(4) {
        3 => {
            // a swap with the trader's own token account in a vault slot
            if let Some(pool) = l.data(&pi.keys.whirlpool).and_then(decode::pool) {
                let a_to_b = rng.chance(1, 2);
                let (Some(oa), Some(ob)) = (actor.tokens.get(&pi.keys.mint_a), actor.tokens.get(&pi.keys.mint_b)) else { return flow };
                let sa = ix::SwapAccounts { pool: pi.keys.clone(), authority: actor.wallet, owner_a: *oa, owner_b: *ob, tick_arrays: crate::gen::swap_tick_arrays(&pool, &pi.keys.whirlpool, a_to_b) };
                let args = ix::SwapArgs { amount: 1 + rng.log_u64(40), other_amount_threshold: 0, sqrt_price_limit: 0, amount_specified_is_input: true, a_to_b };
                let mut i = if v1_ok && rng.chance(1, 2) { ix::swap(&sa, &args) } else { ix::swap_v2(&sa, &args, &[]) };
                // the output vault (the pool would pay the trader out of the trader's own account - or rather: not at all)
                // or the input vault (the pool would be credited although the tokens never reach it)
                let out_side = rng.chance(1, 2);
                let side_a = a_to_b != out_side;
                let (vault, own) = if side_a { (pi.keys.vault_a, *oa) } else { (pi.keys.vault_b, *ob) };
                // only the vault slot: the owner slot keeps naming the same account
                let mut done = false;
                for (n, m) in i.accounts.iter_mut().enumerate() {
                    if m.pubkey == vault && !done {
                        let _ = n;
                        m.pubkey = own;
                        done = true;
                    }
                }
                flow.push((tx1(i), "attacker: swap with own token account as vault".into()));
            }
        }
        0 => {
            // own token account in a vault slot
            let (mut i, n) = honest(rng);
            let side_a = rng.chance(1, 2);
            let (vault, mint) = if side_a { (pi.keys.vault_a, pi.keys.mint_a) } else { (pi.keys.vault_b, pi.keys.mint_b) };
            if let Some(own) = actor.tokens.get(&mint) {
                replace_key(&mut i, &vault, own);
                flow.push((tx1(i), format!("attacker: {} with own token account as vault", n)));
            }
        }
        1 => {
            // a position of another pool (same range) through this pool
            let foreign: Vec<&(ix::PositionKeys, decode::Position)> = mine.iter().filter(|(_, q)| q.whirlpool != p.whirlpool && q.lower == p.lower && q.upper == p.upper).collect();
            if !foreign.is_empty() {
                let (fk, _fp) = foreign[rng.idx(foreign.len())];
                let (mut i, n) = honest(rng);
                replace_key(&mut i, &pk.position, &fk.position);
                replace_key(&mut i, &pk.token_account, &fk.token_account);
                flow.push((tx1(i), format!("attacker: {} with a position of another pool", n)));
            }
        }
        _ if rng.chance(1, 3) => {
            // a NEIGHBOURING array of the same pool (one array width below or above the right one, created first if need be) for
            // one of the position's bounds: the tick is not in it, the deposit must be refused
            let lower_side = rng.chance(1, 2);
            let width = 88 * pi.keys.tick_spacing as i32;
            let start = ta_start(if lower_side { p.lower } else { p.upper }, pi.keys.tick_spacing) + if rng.chance(1, 2) { width } else { -width };
            let lo_ok = start >= ta_start(crate::gen::min_usable(pi.keys.tick_spacing), pi.keys.tick_spacing) && start <= crate::gen::max_usable(pi.keys.tick_spacing);
            if lo_ok {
                let neighbour = ix::pda_tick_array(&pi.keys.whirlpool, start);
                let mut ixs: Vec<Ix> = Vec::new();
                if !l.exists(&neighbour) {
                    ixs.push(init_array_ix(knobs, rng, &pi.keys.whirlpool, &actor.wallet, start));
                }
                let (mut i, n) = honest(rng);
                replace_key(&mut i, if lower_side { &la.ta_lower } else { &la.ta_upper }, &neighbour);
                ixs.push(i);
                flow.push((Tx { ixs }, format!("attacker: {} with the neighbouring tick array of the same pool", n)));
            }
        }
        _ if rng.chance(1, 2) => {
            // the array of ANOTHER pool with the same tick spacing at the same start index (created first if need be - anyone
            // may initialise arrays): every tick of the position exists in it, only the pool reference is wrong
            let same_sp: Vec<Pubkey> = decode::pools(l).into_iter().filter(|(k, q)| *k != p.whirlpool && q.tick_spacing == pi.keys.tick_spacing).map(|(k, _)| k).collect();
            if !same_sp.is_empty() {
                let other = same_sp[rng.idx(same_sp.len())];
                let lower_side = rng.chance(1, 2);
                let start = ta_start(if lower_side { p.lower } else { p.upper }, pi.keys.tick_spacing);
                let foreign = ix::pda_tick_array(&other, start);
                let mut ixs: Vec<Ix> = Vec::new();
                if !l.exists(&foreign) {
                    ixs.push(init_array_ix(knobs, rng, &other, &actor.wallet, start));
                }
                let (mut i, n) = honest(rng);
                replace_key(&mut i, if lower_side { &la.ta_lower } else { &la.ta_upper }, &foreign);
                ixs.push(i);
                flow.push((Tx { ixs }, format!("attacker: {} with the same-start tick array of another pool", n)));
            }
        }
        _ => {
            // a tick array of another pool in an array slot
            let others: Vec<Pubkey> = decode::pools(l).into_iter().filter(|(k, _)| *k != p.whirlpool).flat_map(|(k, _)| decode::tick_arrays_of_pool(l, &k).into_iter().map(|(a, _)| a)).collect();
            if !others.is_empty() {
                let (mut i, n) = honest(rng);
                let victim = if rng.chance(1, 2) { la.ta_lower } else { la.ta_upper };
                replace_key(&mut i, &victim, &others[rng.idx(others.len())]);
                flow.push((tx1(i), format!("attacker: {} with a tick array of another pool", n)));
            }
        }
    }
    actor.rng = rng.clone();
    flow
}
