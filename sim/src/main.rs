mod decode;
mod gen;
mod gen2;
mod gen3;
mod gen4;
mod gen5;
mod ix;
mod ixtable;
mod model;
mod mon;
mod programs;
mod rng;
mod rt;
mod run;
mod sim;
mod world;
mod wpix;

use gen::Profile;
use run::CheckSpec;
use sim::Monitor;

const COMMON_ASSUMPTIONS: &[&str] = &[
    "program code runs natively (not in the SBF VM): compute-unit, heap and transaction-size limits are not simulated",
    "the runtime stub (/verif/sim/src/rt.rs) stands for the Solana runtime: loader buffer layout, CPI privilege rules, rent and lamport post-conditions, transaction atomicity",
    "signatures are a flag on the account meta, which is all a program can observe",
    "tick <-> sqrt-price conversion is taken from the program (trusted base; C09 is not claimed)",
    "host seams are patched copies of pinocchio, solana-invoke, solana-cpi, solana-msg and anchor-lang under /verif/vendor (only the not(target_os=solana) branches differ)",
];

fn mk_c05() -> Vec<Box<dyn Monitor>> {
    vec![Box::new(mon::c05::C05::new())]
}

fn mk_c01() -> Vec<Box<dyn Monitor>> {
    vec![Box::new(mon::c01::C01 { every: 1 })]
}
fn mk_c07() -> Vec<Box<dyn Monitor>> {
    vec![Box::new(mon::c07::C07::new())]
}
fn mk_c08() -> Vec<Box<dyn Monitor>> {
    vec![Box::new(mon::c08::C08)]
}
fn mk_c17() -> Vec<Box<dyn Monitor>> {
    vec![Box::new(mon::c17::C17)]
}
fn mk_c10() -> Vec<Box<dyn Monitor>> {
    vec![Box::new(mon::c10::C10)]
}
fn mk_c12() -> Vec<Box<dyn Monitor>> {
    vec![Box::new(mon::c12::C12)]
}
fn mk_c13() -> Vec<Box<dyn Monitor>> {
    vec![Box::new(mon::c13::C13)]
}
fn mk_c11() -> Vec<Box<dyn Monitor>> {
    vec![Box::new(mon::c11::C11::new()), Box::new(mon::c11::C11Reject)]
}
fn mk_c14() -> Vec<Box<dyn Monitor>> {
    vec![Box::new(mon::c14::C14)]
}
fn mk_c16() -> Vec<Box<dyn Monitor>> {
    vec![Box::new(mon::c16::C16)]
}
fn mk_c18() -> Vec<Box<dyn Monitor>> {
    vec![Box::new(mon::c18::C18)]
}
fn mk_c19() -> Vec<Box<dyn Monitor>> {
    vec![Box::new(mon::c19::C19)]
}
fn mk_c04() -> Vec<Box<dyn Monitor>> {
    vec![Box::new(mon::byz::C04::new()), Box::new(mon::frame::C04Frame)]
}
fn mk_c15() -> Vec<Box<dyn Monitor>> {
    vec![Box::new(mon::byz::C15::new()), Box::new(mon::frame::C15Frame)]
}
fn mk_c20() -> Vec<Box<dyn Monitor>> {
    vec![Box::new(mon::c20::C20)]
}
fn mk_c06() -> Vec<Box<dyn Monitor>> {
    vec![Box::new(mon::swaps::C06)]
}
fn mk_c03() -> Vec<Box<dyn Monitor>> {
    vec![Box::new(mon::swaps::C03)]
}

const HIST: &str = "seeded multi-actor histories (LPs, traders, keeper, fee authority, protocol-fee collector) on 1-2 pools with swarm-randomised knobs (tick spacing, start price, liquidity and swap magnitudes, fee rates, fixed/dynamic/mixed arrays, rent) under delay/reorder/drop/duplicate/burst/actor-crash/actor-stall/CPI-failure/state-fast-forward faults; ";

fn specs() -> Vec<CheckSpec> {
    vec![
    CheckSpec {
        id: "C01",
        profile: Profile::Core,
        more_profiles: &[Profile::TwoHop, Profile::Adaptive, Profile::Rewards],
        mk: mk_c01,
        level: "exploration",
        rule: "HIST after every landed transaction that touches a pool: (1) token conservation per mint, (2) a full drain replayed on a fork through the real handlers and the real token program - every position (random order) update-fees, decrease all, collect fees, and collect-protocol-fees at a random place; the violation is a drain instruction failing for lack of funds, (3) vault >= protocol owed + stored fees owed + exact withdrawable amounts, (4) an injected CPI failure must fail the transaction and leave the ledger byte-identical; sampled forks where a single party swaps back and forth alone / adds and removes liquidity alone must not end ahead; a case is one (instruction kind, #positions, zero liquidity, protocol fees owed, spacing, price at bound) tuple at which the drain ran",
        quick_runs: 2400,
        thorough_secs: 1200,
        assumptions: COMMON_ASSUMPTIONS,
        extra: None,
    },
    CheckSpec {
        id: "C03",
        profile: Profile::Core,
        more_profiles: &[Profile::T22, Profile::TwoHop],
        mk: mk_c03,
        level: "exploration",
        rule: "HIST every swap / swap_v2 / two-hop (v1, v2) that lands (planned on a view that went stale while in flight) is checked from the trader's balance deltas and the pool account; one third are replayed on forks with threshold = realised, realised-1, realised+1; a case is one (instruction, direction, mode, explicit limit, stopped at limit, fully filled, threshold class, tick spacing) tuple of a successful swap",
        quick_runs: 6000,
        thorough_secs: 1200,
        assumptions: COMMON_ASSUMPTIONS,
        extra: None,
    },
    CheckSpec {
        id: "C06",
        profile: Profile::Core,
        more_profiles: &[Profile::TwoHop, Profile::Adaptive, Profile::T22],
        mk: mk_c06,
        level: "exploration",
        rule: "HIST every landed swap's per-step trace (hook H1) must chain from the pool's pre-state to its post-state and is re-computed step by step with big integers (curve amounts, fee, protocol share, LP growth increment), then reconciled with account deltas, vault balances and the Traded event; protocol-fee collections must pay exactly the owed amounts and zero them; a case is one (instruction, direction, mode, #steps, #crossed ticks, zero-liquidity step, ended at limit, explicit limit, spacing, fee class, protocol fee on) tuple",
        quick_runs: 4800,
        thorough_secs: 1200,
        assumptions: COMMON_ASSUMPTIONS,
        extra: None,
    },
    CheckSpec {
        id: "C07",
        profile: Profile::Core,
        more_profiles: &[Profile::TwoHop, Profile::Adaptive],
        mk: mk_c07,
        level: "exploration",
        rule: "HIST an exact rational shadow ledger distributes the LP fee of every traced swap step with liquidity over the positions in range at that step (model tick moving with the crossings), pro rata; whenever a position's fee state changes the credited delta c is compared with the exact entitlement e since the previous credit: c <= floor(e) always, and c >= floor(e) - (steps*L/2^64 + 2) unless the credit would reach 2^64 (documented overflow carve-out); accumulators are fast-forwarded to just below 2^128 in a quarter of the runs; a case is one (instruction, token, earned-anything, #steps, liquidity magnitude) tuple at a credit event",
        quick_runs: 4800,
        thorough_secs: 1200,
        assumptions: COMMON_ASSUMPTIONS,
        extra: None,
    },
    CheckSpec {
        id: "C08",
        profile: Profile::Core,
        more_profiles: &[Profile::Lifecycle, Profile::Rewards, Profile::T22],
        mk: mk_c08,
        level: "exploration",
        rule: "HIST every landed increase/decrease (v1, v2), by-token-amounts and reposition is checked from balance deltas against exact big-integer amounts (up on deposit, down on withdrawal, one-sided outside the range incl. price on a bound and the shifted state); success implies the caller's max/min was respected; a third are replayed on forks with token_max = cost / cost-1 and token_min = proceeds / proceeds+1; a quarter of the increases are followed on a fork by removing the same liquidity at the unchanged price; by-token-amounts must yield the largest liquidity that fits; a case is one (instruction, price region relative to the range, spacing, liquidity magnitude, zero-amount sides) tuple",
        quick_runs: 6000,
        thorough_secs: 1200,
        assumptions: COMMON_ASSUMPTIONS,
        extra: None,
    },
    CheckSpec {
        id: "C17",
        profile: Profile::TwoHop,
        more_profiles: &[Profile::TwoHop, Profile::T22],
        mk: mk_c17,
        level: "exploration",
        rule: "three pools over three mints (all four direction combinations arise), a router actor quoting on a stale view, plus LPs/traders/keeper under the same faults; every landed two-hop (v1, v2; successful or not) is replayed on a fork of its pre-state as its two single swaps with the second leg's input equal to the first leg's output (exact-out: intermediate amount learned on a scratch fork); success <=> both legs succeed with matching intermediate amount, distinct pools, shared mint and threshold met; on success all pool-side bytes (pools, tick arrays, oracles, vaults) and the trader's balances must be equal; a case is one (instruction, mode, directions, outcome, singles outcome, limits) tuple",
        quick_runs: 4800,
        thorough_secs: 1200,
        assumptions: COMMON_ASSUMPTIONS,
        extra: None,
    },
    CheckSpec {
        id: "C10",
        profile: Profile::Core,
        more_profiles: &[Profile::TwoHop, Profile::Adaptive, Profile::Rewards],
        mk: mk_c10,
        level: "exploration",
        rule: "HIST for every landed swap (v1, v2, two-hop legs) the ticks the trace reports as crossed must be exactly the initialized ticks (bounds of positions with liquidity) between the current tick before and after, in price order, each once, with the liquidity after each crossing implied by the positions; half of the single swaps are replayed on forks under packaging faults: tick arrays permuted, duplicated/omitted (same result or failure), passed as v2 supplemental arrays with irrelevant arrays in the main slots, merely-named arrays created empty (fixed or dynamic), an array of another pool substituted (must fail); a case is one (instruction, direction, #crossed, shifted start, edge slot crossed, spacing, zero liquidity) tuple",
        quick_runs: 4000,
        thorough_secs: 1200,
        assumptions: COMMON_ASSUMPTIONS,
        extra: None,
    },
    CheckSpec {
        id: "C12",
        profile: Profile::Rewards,
        more_profiles: &[Profile::T22, Profile::Lifecycle, Profile::Adaptive],
        mk: mk_c12,
        level: "exploration",
        rule: "HIST every increase/decrease (v1, v2) that lands - successful or not, including under an injected CPI failure - is re-executed on a fork of its pre-state through the Anchor implementation still in the tree (try_accounts -> Context -> handler -> exit) and through the live Pinocchio routing; success <=> success, equal program error codes (>= 6000), and on success every account byte and lamport (pool, position, both tick arrays incl. dynamic resize and rent movement, vaults, user accounts), the CPI sequence and the emitted event must be identical; every whirlpool instruction is additionally executed through both the real entrypoint and the public handlers and compared; a case is one (instruction, live outcome, twin outcome, price region, #dynamic arrays, spacing) tuple",
        quick_runs: 4000,
        thorough_secs: 1200,
        assumptions: COMMON_ASSUMPTIONS,
        extra: None,
    },
    CheckSpec {
        id: "C13",
        profile: Profile::Rewards,
        more_profiles: &[Profile::Lifecycle, Profile::Adaptive],
        mk: mk_c13,
        level: "exploration",
        rule: "HIST (1) after every landed instruction each touched dynamic tick array is walked from raw bytes (flag byte 0/1, 112 more bytes iff 1, bitmap bit i <=> slot i initialised, walk ends exactly at data_len = 148 + 112*popcount, rent exempt), Anchor's dynamic accessors (get_tick, get_next_init_tick_index both directions, off-spacing ticks) are compared with Anchor's fixed accessors on the decoded content and with the raw bytes for all 88 slots, and rent must only move between the position and its arrays; (2) twin runs: every seed is run three times with fixed / dynamic / mixed arrays and every transaction outcome plus the observable state after every transaction (token accounts, pool and position bytes, decoded tick contents) must be equal; a case is one (instruction, created/grown/shrunk/rewritten, #initialised, boundary slot) tuple or one twin comparison",
        quick_runs: 1200,
        thorough_secs: 1200,
        assumptions: COMMON_ASSUMPTIONS,
        extra: Some(mon::c13::run_twins),
    },
    CheckSpec {
        id: "C11",
        profile: Profile::Rewards,
        more_profiles: &[],
        mk: mk_c11,
        level: "exploration",
        rule: "core histories plus a reward authority (initialise 1-3 rewards v1/v2, fund or under-fund the vaults, change emission rates incl. 0, 2^64*10^9, 2^100 and near-u128::MAX, authority hand-overs) and LPs collecting rewards, under a simulated clock with stall / jump (seconds to decades) / back-step faults; an exact rational shadow ledger accrues emissions x elapsed seconds over the positions in range between consecutive accrual points (old rate at a rate change); every credit c obeys c <= floor(e) and c >= floor(e) - (intervals*L/2^64 + 2) unless a documented carve-out applies; time-reading instructions with a clock earlier than the last update must fail; collects pay min(owed, vault); emission changes need a day of emissions in the vault (both directions); a case is one (instruction, reward index, initialised, earned, #intervals, carve-out) tuple",
        quick_runs: 6000,
        thorough_secs: 1200,
        assumptions: COMMON_ASSUMPTIONS,
        extra: None,
    },
    CheckSpec {
        id: "C14",
        profile: Profile::Adaptive,
        more_profiles: &[Profile::Adaptive, Profile::TwoHop, Profile::Adaptive, Profile::Admin],
        mk: mk_c14,
        level: "exploration",
        rule: "pools created from adaptive fee tiers with constants drawn over the whole valid region (boundary biased: control factor 0 / 99999, max accumulator 0 / u32 limit, group size = every divisor of the spacing, decay = filter+1 .. 3600), permissioned tiers with a trade-enable time; LPs/traders/keeper under the core faults plus clock stall / jump (1 s, 59-61 s, 3599-3601 s, days, decades) / back-step and same-second bursts; a naive group-by-group model written from the documentation (no skip optimisation) gives the reference after the elapsed-time class and the rate of every tick group; each traced step must charge the model's rate on every group its price interval touches, accumulator <= max, static <= rate <= 100000, control factor 0 => static rate; after the swap the stored reference, accumulator (group where the swap ended or adjacent) and major-swap timestamp (1e-9 tolerance band) must follow the rules; swaps before the trade-enable time must fail and only those; a case is one (instruction, direction, elapsed-time class, control factor 0, #steps, skip used, saturated) tuple",
        quick_runs: 4000,
        thorough_secs: 1200,
        assumptions: COMMON_ASSUMPTIONS,
        extra: None,
    },
    CheckSpec {
        id: "C16",
        profile: Profile::T22,
        more_profiles: &[],
        mk: mk_c16,
        level: "exploration",
        rule: "pools over Token-2022 mints with TransferFeeConfig (basis points 0/1/30/100/500/5000/9999/10000, maximum fee 0/10/1e6/1e12/u64::MAX, mixed with fee-less Token-2022 and plain SPL mints), tiny epochs so that the fee schedule switches while a mint-authority actor issues SetTransferFee; the real Token-2022 processor moves the tokens and the fee actually withheld is read from the destination account's withheld delta; for every landed swap_v2 / two_hop_swap_v2 / increase_v2 / decrease_v2 / by-token-amounts: included = excluded + fee with the SPL fee of the sent amount, the vault receives at least the curve amount (trace / exact oracle), the amount requested from the user is the smallest whose fee-reduced value covers the need and never above the stated maximum, the vault sends exactly the curve amount and thresholds / token minima are compared with what the user receives, events (Traded; Pinocchio liquidity events via hook H2) report the amounts moved; a case is one (instruction, direction, mode, fee class of each mint, partial fill) tuple",
        quick_runs: 6000,
        thorough_secs: 1200,
        assumptions: COMMON_ASSUMPTIONS,
        extra: None,
    },
    CheckSpec {
        id: "C18",
        profile: Profile::Lifecycle,
        more_profiles: &[],
        mk: mk_c18,
        level: "exploration",
        rule: "LP actors attempt legal and illegal life-cycle transitions in random order under crash/duplicate/reorder faults: open (plain, metadata, token-extension, bundled) with valid ranges and with off-spacing / lower>=upper / out-of-bounds / non-full-range-on-full-range-only / one-sentinel / both-sentinel bounds, close empty and non-empty, reset (non-empty, same range, invalid range), lock (empty, twice, non-token-extension), decrease / close / reset / reposition on locked positions, increase and collect on locked positions, transfer-locked, open an occupied or out-of-range bundle index, close a free one, delete a non-empty bundle; a rule-based model evaluated on the pre-state of every landed instruction predicts what must be rejected, and after each accepted step the ledger must show: supply 1 / no mint authority / token with the owner, stored range = resolved range (sentinels: nearest usable tick on one side of the price), clean fresh position, checkpoints zero after reset, token account frozen iff locked, bitmap = set of open bundled positions; a case is one (instruction, model inputs, outcome) tuple",
        quick_runs: 6000,
        thorough_secs: 1200,
        assumptions: COMMON_ASSUMPTIONS,
        extra: None,
    },
    CheckSpec {
        id: "C19",
        profile: Profile::Admin,
        more_profiles: &[],
        mk: mk_c19,
        level: "exploration",
        rule: "an admin actor calls every initialiser and setter (fee rates, protocol fee rates, fee tiers incl. spacing 0, adaptive fee tiers and pool constants near every validity boundary, delegated-authority and preset-constant paths, config extension and badge authorities) with boundary-biased arbitrary arguments, and a pool creator offers fabricated mints (plain SPL; Token-2022 with 0-3 extensions drawn from all known type numbers, account-only types and unknown numbers; freeze authority or not; truncated TLV records; badge issued / lamports parked at the badge address / none) to initialize_pool, initialize_pool_v2, initialize_pool_with_adaptive_fee and initialize_reward_v2 with in- and out-of-bound prices and reversed mint order, interleaved with LPs and traders that push prices to the protocol bounds; after every landed transaction every program-owned Whirlpool, FeeTier, AdaptiveFeeTier, Oracle and Config account is checked against the bounds restated independently, and pool/reward creation must agree with an admission predicate written from the statement; a case is one (instruction, outcome, error code) or (instruction, mint description, outcome) tuple",
        quick_runs: 8000,
        thorough_secs: 1200,
        assumptions: COMMON_ASSUMPTIONS,
        extra: None,
    },
    CheckSpec {
        id: "C04",
        profile: Profile::Byz,
        more_profiles: &[Profile::Admin, Profile::Byz, Profile::Lifecycle, Profile::Byz, Profile::Rewards],
        mk: mk_c04,
        level: "fault_enumeration",
        rule: "worlds with 2-3 pools (static and adaptive-fee), rewards, admin / creator / reward-authority / life-cycle LP / router actors, so that histories contain every privileged instruction kind; the Byzantine-client fault replays each successful privileged instruction on forks of its pre-state (where it is known to succeed as is) with one mutation: (a) the authority slot replaced by a fresh attacker key that signs, (b) the right key with the signer flag cleared (when it signs nowhere else), and for position / bundle authorities (c) the attacker as delegate of the position token account with delegated amount 0, 1, 2 (1 may succeed, 0 and 2 must not) and (d) the attacker as owner of an empty token account of the position mint; every mutation except delegate(1) must be rejected; the matrix is reported cell by cell (probes `cell: instruction / slot / mutation`); a case is one (instruction, slot, mutation) cell",
        quick_runs: 4500,
        thorough_secs: 1200,
        assumptions: COMMON_ASSUMPTIONS,
        extra: None,
    },
    CheckSpec {
        id: "C15",
        profile: Profile::Byz,
        more_profiles: &[Profile::Byz, Profile::Lifecycle, Profile::Byz, Profile::TwoHop, Profile::T22],
        mk: mk_c15,
        level: "fault_enumeration",
        rule: "same worlds as C04; each successful fund-moving instruction (swap, swap_v2, two-hop x2, increase/decrease x4, by-token-amounts, reposition, collect fees / reward / protocol fees x6, update-fees, set-reward-emissions x2, initialise-reward x2) is replayed on forks of its pre-state with one account slot at a time substituted by a well-formed account of the same type that belongs elsewhere: another pool, a vault / token account / mint of another mint, another (non-vault) token account of the same mint in a vault slot, a tick array or position or oracle of another pool, another position of the same pool, another program (incl. the other token program), the same pool for both two-hop legs; slots where another account is legitimately acceptable (any token account of the right mint as source/destination, same-pool arrays in swaps, same-pool positions in update-fees) are excluded; every substitution must be rejected; the matrix is reported cell by cell; a case is one (instruction, slot, substitute kind) cell",
        quick_runs: 4000,
        thorough_secs: 1200,
        assumptions: COMMON_ASSUMPTIONS,
        extra: None,
    },
    CheckSpec {
        id: "C20",
        profile: Profile::Core,
        more_profiles: &[Profile::Adaptive, Profile::T22],
        mk: mk_c20,
        level: "exploration",
        rule: "HIST (core, adaptive-fee and transfer-fee worlds) the Rust core SDK (rust-sdk/core from the working tree, built against an ethnum shim) is fed with facades built from the ledger at the pre-state of every landed swap / swap_v2 and increase / decrease (v1, v2): compute_swap with the transaction's own limit must succeed whenever the program did and give the same amounts in, out and total fee (static and adaptive pools); where the program refused with a quote-level error (zero amount, limit direction, limit out of bounds) the SDK must not produce a number; swap_quote_by_input/output_token (transfer fees included) and increase/decrease_liquidity_quote must equal the balances that moved, with slippage-adjusted min/max on the safe side; tick<->price conversions are compared on the values reached; a case is one (instruction, direction, mode, program outcome, SDK outcome, adaptive, complete arrays, limit) tuple",
        quick_runs: 5000,
        thorough_secs: 1200,
        assumptions: COMMON_ASSUMPTIONS,
        extra: None,
    },
    CheckSpec {
        id: "C05",
        profile: Profile::Core,
        more_profiles: &[Profile::Rewards, Profile::Lifecycle, Profile::T22],
        mk: mk_c05,
        level: "exploration",
        rule: "HIST after every landed transaction the pool, position and tick-array bytes are decoded independently and compared; a case is one (instruction kind, #positions, #in-range, #bounded ticks, zero-liquidity, shifted-state, tick spacing, #dynamic arrays) tuple with at least one position in the pool",
        quick_runs: 6000,
        thorough_secs: 1200,
        assumptions: COMMON_ASSUMPTIONS,
        extra: None,
    },
    ]
}

fn usage() -> ! {
    eprintln!("usage: wpsim check <ID> [--tier quick|thorough] [--seed N] [--runs N] [--secs N]\n       wpsim replay <file>\n       wpsim one <ID> <seed> [--thorough]\n       wpsim selfcheck determinism [--seeds N]");
    std::process::exit(2)
}

fn arg_val(args: &[String], name: &str) -> Option<String> {
    args.iter().position(|a| a == name).and_then(|i| args.get(i + 1)).cloned()
}

fn main() {
    let args: Vec<String> = std::env::args().collect();
    if args.len() < 2 {
        usage();
    }
    rt::install_stubs();
    let specs = specs();
    match args[1].as_str() {
        "check" => {
            let id = args.get(2).cloned().unwrap_or_else(|| usage());
            let spec = specs.iter().find(|s| s.id == id).unwrap_or_else(|| {
                eprintln!("unknown check {}", id);
                std::process::exit(2)
            });
            let tier = arg_val(&args, "--tier")
                .or_else(|| std::env::var("VERIF_TIER").ok())
                .unwrap_or_else(|| "quick".into());
            let seed: u64 = arg_val(&args, "--seed")
                .or_else(|| std::env::var("VERIF_SEED").ok())
                .and_then(|s| s.parse().ok())
                .unwrap_or(20260924);
            let runs = arg_val(&args, "--runs").and_then(|s| s.parse().ok());
            let secs = arg_val(&args, "--secs").and_then(|s| s.parse().ok());
            let code = run::run_batch(spec, tier == "thorough", seed, runs, secs);
            std::process::exit(code);
        }
        "one" => {
            let id = args.get(2).cloned().unwrap_or_else(|| usage());
            let seed: u64 = args.get(3).and_then(|s| s.parse().ok()).unwrap_or_else(|| usage());
            let spec = specs.iter().find(|s| s.id == id).unwrap_or_else(|| usage());
            let thorough = args.iter().any(|a| a == "--thorough");
            let t0 = std::time::Instant::now();
            let profile = arg_val(&args, "--profile").and_then(|p| Profile::parse(&p)).unwrap_or(spec.profile);
            if let Some(k) = arg_val(&args, "--array-kind").and_then(|k| k.parse::<u8>().ok()) {
                gen::FORCE_ARRAY_KIND.with(|c| c.set(Some(k)));
            }
            let r = run::run_one(seed, profile, thorough, spec.mk, true);
            println!(
                "seed {} events {} ok {} fail {} evals {} distinct {} hash {:016x} in {:?}",
                seed,
                r.history.len(),
                r.landed_ok,
                r.landed_fail,
                r.cov.evaluations,
                r.cov.distinct.len(),
                r.log_hash,
                t0.elapsed()
            );
            if args.iter().any(|a| a == "--dump") {
                for (i, e) in r.history.iter().enumerate() {
                    if let sim::HEvent::Tx { tag, .. } = e {
                        println!("{:4} {}", i, tag);
                    }
                }
            }
            for v in &r.violations {
                println!("violation {} {} @{}: {}", v.property, v.class, v.event_idx, v.detail);
            }
            println!("faults {:?}", r.faults);
            println!("probes {:?}", r.cov.probes);
            println!("notes {:?}", r.cov.notes);
        }
        "replay" => {
            let path = args.get(2).cloned().unwrap_or_else(|| usage());
            let Some(doc) = run::read_replay(&path) else {
                eprintln!("cannot read replay file {}", path);
                std::process::exit(2)
            };
            let spec = specs.iter().find(|s| s.id == doc.property).unwrap_or_else(|| {
                eprintln!("unknown check {}", doc.property);
                std::process::exit(2)
            });
            let v = if doc.mode_extra {
                let mut cov = sim::Coverage::default();
                spec.extra.and_then(|x| x(doc.seed, doc.profile, doc.thorough, doc.max_events, &mut cov)).into_iter().collect()
            } else {
                run::replay_events(doc.seed, doc.profile, doc.thorough, &doc.events, spec.mk)
            };
            if let Some(x) = v.first() {
                println!("VIOLATION property={} replay={}", doc.property, path);
                println!("  class={} event={} : {}", x.class, x.event_idx, x.detail);
                std::process::exit(1);
            } else {
                println!("replay of {}: no violation", path);
                std::process::exit(0);
            }
        }
        "dbg-liq" => {
            // wpsim dbg-liq <liquidity> <lower> <upper> <sqrt_price> : program vs SDK amounts for a deposit
            let l: u128 = args[2].parse().unwrap();
            let (lo, hi): (i32, i32) = (args[3].parse().unwrap(), args[4].parse().unwrap());
            let p: u128 = args[5].parse().unwrap();
            let (pl, pu) = (whirlpool::math::sqrt_price_from_tick_index(lo), whirlpool::math::sqrt_price_from_tick_index(hi));
            println!("program delta_a(lower,upper) = {:?}", whirlpool::math::get_amount_delta_a(pl, pu, l, true));
            println!("program delta_b(lower,upper) = {:?}", whirlpool::math::get_amount_delta_b(pl, pu, l, true));
            println!("sdk try_get_amount_delta_a = {:?}", orca_whirlpools_core::try_get_amount_delta_a(pl, pu, l, true));
            println!("sdk try_get_amount_delta_b = {:?}", orca_whirlpools_core::try_get_amount_delta_b(pl, pu, l, true));
            println!("sdk increase_liquidity_quote = {:?}", orca_whirlpools_core::increase_liquidity_quote(l, 0, p, lo, hi, None, None).map(|q| (q.token_est_a, q.token_est_b)));
            let exact = model::liquidity_amounts(l, whirlpool::math::tick_index_from_sqrt_price(&p), p, lo, hi, true);
            println!("exact = {} / {}", exact.0, exact.1);
            std::process::exit(0);
        }
        "dbg-next-a" => {
            // wpsim dbg-next-a <sqrt_price> <liquidity> <amount> <is_input 0|1>
            let p: u128 = args[2].parse().unwrap();
            let l: u128 = args[3].parse().unwrap();
            let a: u64 = args[4].parse().unwrap();
            let inp = args[5] == "1";
            println!("program = {:?}", whirlpool::math::get_next_sqrt_price_from_a_round_up(p, l, a, inp));
            println!("sdk     = {:?}", orca_whirlpools_core::try_get_next_sqrt_price_from_a(p, l, a, inp));
            std::process::exit(0);
        }
        "selfcheck" => {
            // prints "<check> <seed> <event-log hash> <events>" lines; tools/determinism.sh runs this in
            // several processes (sequential and on 16 threads) and diffs the outputs
            let n: u64 = arg_val(&args, "--seeds").and_then(|s| s.parse().ok()).unwrap_or(64);
            let base: u64 = arg_val(&args, "--seed").and_then(|s| s.parse().ok()).unwrap_or(777);
            let only = arg_val(&args, "--only");
            let par = args.iter().any(|a| a == "--par");
            let mut jobs: Vec<(usize, u64)> = Vec::new();
            for (si, spec) in specs.iter().enumerate() {
                if only.as_deref().map(|o| o != spec.id).unwrap_or(false) {
                    continue;
                }
                for i in 0..n {
                    jobs.push((si, base + i));
                }
            }
            let run_job = |si: usize, seed: u64| -> String {
                let spec = &specs[si];
                let mut profiles = vec![spec.profile];
                profiles.extend_from_slice(spec.more_profiles);
                let profile = profiles[(seed % profiles.len() as u64) as usize];
                let r = run::run_one(seed, profile, seed % 2 == 1, spec.mk, true);
                format!("{} {} {:016x} {} {}", spec.id, seed, r.log_hash, r.history.len(), r.violations.len())
            };
            let mut lines: Vec<String> = if par {
                let jobs = std::sync::Arc::new(std::sync::Mutex::new(jobs));
                let out = std::sync::Arc::new(std::sync::Mutex::new(Vec::new()));
                std::thread::scope(|sc| {
                    for _ in 0..16 {
                        let jobs = jobs.clone();
                        let out = out.clone();
                        let run_job = &run_job;
                        std::thread::Builder::new()
                            .stack_size(64 << 20)
                            .spawn_scoped(sc, move || loop {
                                let j = jobs.lock().unwrap().pop();
                                let Some((si, seed)) = j else { break };
                                let l = run_job(si, seed);
                                out.lock().unwrap().push(l);
                            })
                            .unwrap();
                    }
                });
                let v = out.lock().unwrap().clone();
                v
            } else {
                jobs.iter().map(|(si, seed)| run_job(*si, *seed)).collect()
            };
            lines.sort();
            for l in lines {
                println!("{}", l);
            }
        }
        _ => usage(),
    }
}
