mod ix;
mod programs;
mod rng;
mod rt;
mod world;

use rt::*;
use world::*;

fn smoke() {
    let mut rng = rng::Rng::new(1);
    with_ctx(|c| {
        c.clock = ClockState::default();
        c.rent = RentParams::default();
    });
    let rent = RentParams::default();
    let mut l = base_ledger(&rent);
    let payer = ADMIN0;
    fund(&mut l, &payer, 1_000_000_000_000);
    let config = new_key(&mut rng);
    let fee_auth = new_key(&mut rng);
    fund(&mut l, &fee_auth, 1_000_000_000);
    let o = must(&mut l, vec![ix::initialize_config(&config, &payer, &fee_auth, &fee_auth, &fee_auth, 300)], "init config");
    println!("config ok, cpis={}", o.ix_outcomes[0].cpis.len());
    must(&mut l, vec![ix::initialize_fee_tier(&config, &payer, &fee_auth, 64, 3000)], "fee tier");
    let mut m1 = new_key(&mut rng);
    let mut m2 = new_key(&mut rng);
    if m1 > m2 { std::mem::swap(&mut m1, &mut m2); }
    create_mint(&mut l, &payer, &m1, &payer, 6, None);
    create_mint(&mut l, &payer, &m2, &payer, 6, None);
    let whirlpool = ix::pda_whirlpool(&config, &m1, &m2, 64);
    let pk = ix::PoolKeys { config, whirlpool, mint_a: m1, mint_b: m2, vault_a: new_key(&mut rng), vault_b: new_key(&mut rng), prog_a: ix::tok(), prog_b: ix::tok(), tick_spacing: 64, fee_tier_index: 64, oracle: ix::pda_oracle(&whirlpool) };
    must(&mut l, vec![ix::initialize_pool(&pk, &payer, 1u128 << 64)], "init pool");
    println!("pool ok len={}", l.data(&whirlpool).unwrap().len());
    must(&mut l, vec![ix::initialize_tick_array(&whirlpool, &payer, 0)], "ta 0");
    must(&mut l, vec![ix::initialize_dynamic_tick_array(&whirlpool, &payer, -5632, false)], "ta -5632");
    must(&mut l, vec![ix::initialize_tick_array(&whirlpool, &payer, 5632)], "ta 5632");
    let lp = new_key(&mut rng);
    fund(&mut l, &lp, 100_000_000_000);
    let pmint = new_key(&mut rng);
    let (oix, pkeys) = ix::open_position(&whirlpool, &lp, &lp, &pmint, -128, 128);
    must(&mut l, vec![oix], "open position");
    let lp_a = new_key(&mut rng);
    let lp_b = new_key(&mut rng);
    create_token_account(&mut l, &payer, &lp_a, &m1, &lp);
    create_token_account(&mut l, &payer, &lp_b, &m2, &lp);
    mint_to(&mut l, &ix::tok(), &m1, &lp_a, &payer, 1_000_000_000_000);
    mint_to(&mut l, &ix::tok(), &m2, &lp_b, &payer, 1_000_000_000_000);
    let la = ix::LiqAccounts { pool: pk.clone(), authority: lp, position: pkeys.position, position_token_account: pkeys.token_account, owner_a: lp_a, owner_b: lp_b, ta_lower: ix::pda_tick_array(&whirlpool, -5632), ta_upper: ix::pda_tick_array(&whirlpool, 0) };
    let o = must(&mut l, vec![ix::increase_liquidity(&la, 1_000_000_000, u64::MAX, u64::MAX)], "increase");
    println!("increase ok: cpis={} events={} a={} b={}", o.ix_outcomes[0].cpis.len(), o.ix_outcomes[0].events.len(), token_amount(&l, &pk.vault_a), token_amount(&l, &pk.vault_b));
    let sa = ix::SwapAccounts { pool: pk.clone(), authority: lp, owner_a: lp_a, owner_b: lp_b, tick_arrays: [ix::pda_tick_array(&whirlpool, 0), ix::pda_tick_array(&whirlpool, -5632), ix::pda_tick_array(&whirlpool, -11264)] };
    let t0 = std::time::Instant::now();
    let o = must(&mut l, vec![ix::swap(&sa, &ix::SwapArgs { amount: 10_000, other_amount_threshold: 0, sqrt_price_limit: 0, amount_specified_is_input: true, a_to_b: true })], "swap");
    println!("swap ok in {:?}: events={} a={} b={} mismatch={:?}", t0.elapsed(), o.ix_outcomes[0].events.len(), token_amount(&l, &pk.vault_a), token_amount(&l, &pk.vault_b), o.ix_outcomes[0].routing_mismatch);
    let o = must(&mut l, vec![ix::swap_v2(&sa, &ix::SwapArgs { amount: 10_000, other_amount_threshold: u64::MAX, sqrt_price_limit: 0, amount_specified_is_input: false, a_to_b: false }, &[])], "swap v2");
    println!("swapv2 ok: events={} a={} b={}", o.ix_outcomes[0].events.len(), token_amount(&l, &pk.vault_a), token_amount(&l, &pk.vault_b));
    let o = must(&mut l, vec![ix::decrease_liquidity_v2(&la, 1_000_000_000, 0, 0)], "decrease");
    println!("decrease ok: events={} a={} b={}", o.ix_outcomes[0].events.len(), token_amount(&l, &pk.vault_a), token_amount(&l, &pk.vault_b));
    must(&mut l, vec![ix::collect_fees(&la)], "collect");
    println!("after collect a={} b={}", token_amount(&l, &pk.vault_a), token_amount(&l, &pk.vault_b));
    // failing case: wrong signer
    let mut bad = ix::close_position(&payer, &payer, &pkeys);
    let o = run(&mut l, vec![bad.clone()]);
    println!("close by stranger: ok={} code={:#x} {:?}", o.ok, o.code(), o.ix_outcomes[0].detail);
    bad = ix::close_position(&lp, &lp, &pkeys);
    let o = run(&mut l, vec![bad]);
    println!("close by owner: ok={} code={:#x} {:?}", o.ok, o.code(), o.ix_outcomes[0].detail);
}

fn main() {
    smoke();
}
