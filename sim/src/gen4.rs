//! Admin actor (every initialiser / setter with boundary-biased arguments) and pool creator
//! (mints with arbitrary Token-2022 extension combinations, badges, pool / reward initialisation).

use crate::decode;
use crate::gen::{pick_start_price, Actor, Knobs, World, RAW_EVENTS};
use crate::ix::{self, PoolKeys};
use crate::rng::Rng;
use crate::rt::{Ix, Ledger, Tx};
use crate::sim::HEvent;
use crate::world::new_key;
use solana_program::pubkey::Pubkey;
use whirlpool::accounts as wa;
use whirlpool::instruction as wi;

fn tx1(i: Ix) -> Tx {
    Tx { ixs: vec![i] }
}

fn edge_u16(rng: &mut Rng) -> u16 {
    *rng.pick(&[0u16, 1, 100, 300, 2499, 2500, 2501, 3000, 10000, 59999, 60000, 60001, 65535])
}

pub fn plan_admin(w: &World, _k: &Knobs, actor: &mut Actor, l: &Ledger) -> Vec<(Tx, String)> {
    let rng = &mut actor.rng.clone();
    let mut flow: Vec<(Tx, String)> = Vec::new();
    let pools = decode::pools(l);
    if pools.is_empty() {
        return flow;
    }
    let (wk, pool) = &pools[rng.idx(pools.len())];
    let config = w.config;
    let me = actor.wallet;
    let tiers: Vec<(Pubkey, decode::AdaptiveFeeTier)> = l
        .accts
        .iter()
        .filter(|(_, a)| a.owner == ix::wp())
        .filter_map(|(k, a)| decode::adaptive_fee_tier(&a.data).map(|t| (*k, t)))
        .collect();
    let mut push = |i: Ix, n: &str| flow.push((tx1(i), n.to_string()));
    match rng.below(16) {
        0 => push(ix::set_fee_rate(&config, wk, &me, edge_u16(rng)), "set_fee_rate"),
        1 => push(ix::set_protocol_fee_rate(&config, wk, &me, edge_u16(rng)), "set_protocol_fee_rate"),
        2 => {
            let sp = *rng.pick(&[1u16, 8, 64, 128, 32768, pool.tick_spacing]);
            push(
                ix::mk(
                    wa::SetDefaultFeeRate { whirlpools_config: config, fee_tier: ix::pda_fee_tier(&config, sp), fee_authority: me },
                    wi::SetDefaultFeeRate { default_fee_rate: edge_u16(rng) },
                ),
                "set_default_fee_rate",
            );
        }
        3 => push(
            ix::mk(wa::SetDefaultProtocolFeeRate { whirlpools_config: config, fee_authority: me }, wi::SetDefaultProtocolFeeRate { default_protocol_fee_rate: edge_u16(rng) }),
            "set_default_protocol_fee_rate",
        ),
        4 => {
            let sp = *rng.pick(&[0u16, 1, 2, 3, 16, 96, 256, 32767, 32768, 65535]);
            push(ix::initialize_fee_tier(&config, &me, &me, sp, edge_u16(rng)), "initialize_fee_tier");
        }
        5 | 6 => {
            // adaptive fee tier with arbitrary (valid or invalid) constants
            let sp = *rng.pick(&[1u16, 8, 64, 128, 0, 32768, 32896]);
            let (idx, c) = arbitrary_constants(rng, sp);
            push(
                ix::mk(
                    wa::InitializeAdaptiveFeeTier { whirlpools_config: config, adaptive_fee_tier: ix::pda_fee_tier(&config, idx), funder: me, fee_authority: me, system_program: ix::sys() },
                    wi::InitializeAdaptiveFeeTier {
                        fee_tier_index: idx,
                        tick_spacing: sp,
                        initialize_pool_authority: if rng.chance(1, 2) { Pubkey::default() } else { w.payer },
                        delegated_fee_authority: if rng.chance(1, 3) { Pubkey::default() } else { me },
                        default_base_fee_rate: edge_u16(rng),
                        filter_period: c.filter_period,
                        decay_period: c.decay_period,
                        reduction_factor: c.reduction_factor,
                        adaptive_fee_control_factor: c.adaptive_fee_control_factor,
                        max_volatility_accumulator: c.max_volatility_accumulator,
                        tick_group_size: c.tick_group_size,
                        major_swap_threshold_ticks: c.major_swap_threshold_ticks,
                    },
                ),
                "initialize_adaptive_fee_tier",
            );
        }
        7 if !tiers.is_empty() => {
            let (tk, t) = &tiers[rng.idx(tiers.len())];
            match rng.below(4) {
                0 => push(
                    ix::mk(wa::SetDefaultBaseFeeRate { whirlpools_config: config, adaptive_fee_tier: *tk, fee_authority: me }, wi::SetDefaultBaseFeeRate { default_base_fee_rate: edge_u16(rng) }),
                    "set_default_base_fee_rate",
                ),
                1 => {
                    let (_, c) = arbitrary_constants(rng, t.tick_spacing);
                    push(
                        ix::mk(
                            wa::SetPresetAdaptiveFeeConstants { whirlpools_config: config, adaptive_fee_tier: *tk, fee_authority: me },
                            wi::SetPresetAdaptiveFeeConstants {
                                filter_period: c.filter_period,
                                decay_period: c.decay_period,
                                reduction_factor: c.reduction_factor,
                                adaptive_fee_control_factor: c.adaptive_fee_control_factor,
                                max_volatility_accumulator: c.max_volatility_accumulator,
                                tick_group_size: c.tick_group_size,
                                major_swap_threshold_ticks: c.major_swap_threshold_ticks,
                            },
                        ),
                        "set_preset_adaptive_fee_constants",
                    );
                }
                2 => push(
                    ix::mk(wa::SetDelegatedFeeAuthority { whirlpools_config: config, adaptive_fee_tier: *tk, fee_authority: me, new_delegated_fee_authority: if rng.chance(1, 3) { Pubkey::default() } else { me } }, wi::SetDelegatedFeeAuthority {}),
                    "set_delegated_fee_authority",
                ),
                _ => push(
                    ix::mk(
                        wa::SetInitializePoolAuthority { whirlpools_config: config, adaptive_fee_tier: *tk, fee_authority: me, new_initialize_pool_authority: if rng.chance(1, 2) { w.payer } else { Pubkey::default() } },
                        wi::SetInitializePoolAuthority {},
                    ),
                    "set_initialize_pool_authority",
                ),
            }
        }
        8 | 9 => {
            // adaptive pool: constants and delegated fee rate
            let mut oracle = ix::pda_oracle(wk);
            if l.exists(&oracle) {
                if rng.chance(1, 2) {
                    let (_, c) = arbitrary_constants(rng, pool.tick_spacing);
                    // packaging fault: the oracle of another adaptive pool (other tick spacing) next to this pool
                    let other: Vec<Pubkey> = pools.iter().filter(|(k, p)| k != wk && p.tick_spacing != pool.tick_spacing).map(|(k, _)| ix::pda_oracle(k)).filter(|o| l.exists(o)).collect();
                    if !other.is_empty() && rng.chance(1, 3) {
                        oracle = other[rng.idx(other.len())];
                    }
                    let opt16 = |rng: &mut Rng, v: u16| if rng.chance(1, 2) { Some(v) } else { None };
                    let opt32 = |rng: &mut Rng, v: u32| if rng.chance(1, 2) { Some(v) } else { None };
                    push(
                        ix::mk(
                            wa::SetAdaptiveFeeConstants { whirlpool: *wk, whirlpools_config: config, oracle, fee_authority: me },
                            wi::SetAdaptiveFeeConstants {
                                filter_period: opt16(rng, c.filter_period),
                                decay_period: opt16(rng, c.decay_period),
                                reduction_factor: opt16(rng, c.reduction_factor),
                                adaptive_fee_control_factor: opt32(rng, c.adaptive_fee_control_factor),
                                max_volatility_accumulator: opt32(rng, c.max_volatility_accumulator),
                                tick_group_size: opt16(rng, c.tick_group_size),
                                major_swap_threshold_ticks: opt16(rng, c.major_swap_threshold_ticks),
                            },
                        ),
                        "set_adaptive_fee_constants",
                    );
                } else {
                    let idx = u16::from_le_bytes(pool.fee_tier_index_seed);
                    push(
                        ix::mk(
                            wa::SetFeeRateByDelegatedFeeAuthority { whirlpool: *wk, adaptive_fee_tier: ix::pda_fee_tier(&config, idx), delegated_fee_authority: me },
                            wi::SetFeeRateByDelegatedFeeAuthority { fee_rate: edge_u16(rng) },
                        ),
                        "set_fee_rate_by_delegated_fee_authority",
                    );
                }
            }
        }
        10 => push(
            ix::mk(wa::InitializeConfigExtension { config, config_extension: ix::pda_config_extension(&config), funder: if rng.chance(1, 2) { w.payer } else { me }, fee_authority: me, system_program: ix::sys() }, wi::InitializeConfigExtension {}),
            "initialize_config_extension",
        ),
        11 => push(
            ix::mk(wa::SetFeeAuthority { whirlpools_config: config, fee_authority: me, new_fee_authority: me }, wi::SetFeeAuthority {}),
            "set_fee_authority",
        ),
        12 => {
            let ce = ix::pda_config_extension(&config);
            let i = if rng.chance(1, 2) {
                ix::mk(wa::SetConfigExtensionAuthority { whirlpools_config: config, whirlpools_config_extension: ce, config_extension_authority: me, new_config_extension_authority: me }, wi::SetConfigExtensionAuthority {})
            } else {
                ix::mk(wa::SetTokenBadgeAuthority { whirlpools_config: config, whirlpools_config_extension: ce, config_extension_authority: me, new_token_badge_authority: me }, wi::SetTokenBadgeAuthority {})
            };
            push(i, "set_extension_authorities");
        }
        13 | 14 => {
            // token badges: attribute and deletion
            let badges: Vec<(Pubkey, Pubkey)> = l
                .accts
                .iter()
                .filter(|(_, a)| a.owner == ix::wp() && decode::is_kind(&a.data, "TokenBadge") && a.data.len() >= 72)
                .map(|(k, a)| (*k, Pubkey::new_from_array(a.data[40..72].try_into().unwrap())))
                .collect();
            if !badges.is_empty() {
                let (bk, mint) = badges[rng.idx(badges.len())];
                let ce = ix::pda_config_extension(&config);
                if rng.chance(2, 3) {
                    push(
                        ix::mk(
                            wa::SetTokenBadgeAttribute { whirlpools_config: config, whirlpools_config_extension: ce, token_badge_authority: me, token_mint: mint, token_badge: bk },
                            wi::SetTokenBadgeAttribute { attribute: whirlpool::state::TokenBadgeAttribute::RequireNonTransferablePosition(rng.chance(1, 2)) },
                        ),
                        "set_token_badge_attribute",
                    );
                } else {
                    push(
                        ix::mk(
                            wa::DeleteTokenBadge { whirlpools_config: config, whirlpools_config_extension: ce, token_badge_authority: me, token_mint: mint, token_badge: bk, receiver: me },
                            wi::DeleteTokenBadge {},
                        ),
                        "delete_token_badge",
                    );
                }
            }
        }
        _ => {}
    }
    actor.rng = rng.clone();
    flow
}

/// arbitrary adaptive-fee constants: mostly near the validity boundary
pub fn arbitrary_constants(rng: &mut Rng, spacing: u16) -> (u16, decode::AfConstants) {
    let salt = 200 + rng.below(60) as u16;
    let (idx, mut c) = crate::gen2::pick_adaptive_constants(rng, spacing.max(1), salt);
    match rng.below(14) {
        12 | 13 => {
            // accumulator x group size exactly at the 32-bit limit: 2^32 (one too many) or 2^32 - 1 (the largest legal product)
            let divisors: Vec<u16> = (0..16).map(|k| 1u16 << k).filter(|d| *d <= spacing.max(1) && spacing.max(1) % d == 0).collect();
            let g = *rng.pick(&divisors);
            c.tick_group_size = g;
            let exact = ((1u64 << 32) / g as u64).min(u32::MAX as u64) as u32;
            c.max_volatility_accumulator = if rng.chance(1, 2) { exact } else { (((1u64 << 32) - 1) / g as u64) as u32 };
        }
        0 => c.filter_period = 0,
        1 => c.decay_period = c.filter_period,
        2 => c.decay_period = 0,
        3 => c.adaptive_fee_control_factor = 100_000,
        4 => c.reduction_factor = 10_000,
        5 => c.tick_group_size = 0,
        6 => c.tick_group_size = spacing.saturating_add(1),
        7 => {
            // a group size below the spacing that does not divide it: the neighbour of the spacing, a random one, or one that
            // divides a related quantity instead (the ticks of a whole tick array, twice the spacing, the spacing plus one)
            let sp = spacing.max(1) as u32;
            let non_divisors: Vec<u16> = (2..sp.min(4096)).filter(|g| sp % g != 0).map(|g| g as u16).collect();
            let related: Vec<u16> = non_divisors.iter().copied().filter(|g| (88 * sp) % (*g as u32) == 0 || (2 * sp) % (*g as u32) == 0 || (sp + 1) % (*g as u32) == 0).collect();
            c.tick_group_size = if non_divisors.is_empty() {
                3
            } else {
                match rng.below(3) {
                    0 => if spacing > 2 { spacing - 1 } else { 3 },
                    1 if !related.is_empty() => *rng.pick(&related),
                    _ => *rng.pick(&non_divisors),
                }
            };
        }
        8 => c.major_swap_threshold_ticks = 0,
        9 => c.major_swap_threshold_ticks = ((88u32 * spacing as u32) + 1).min(65535) as u16,
        10 => {
            c.max_volatility_accumulator = u32::MAX;
            c.tick_group_size = spacing.max(2);
        }
        _ => {}
    }
    let idx = if rng.chance(1, 10) { spacing } else { idx };
    (idx, c)
}

// ---------------------------------------------------------------------------------------------
// mint fabrication
// ---------------------------------------------------------------------------------------------

/// (extension type number, value length) pairs known to Token-2022 plus unknown numbers
const EXT: &[(u16, usize)] = &[
    (1, 108),  // TransferFeeConfig
    (3, 32),   // MintCloseAuthority
    (4, 65),   // ConfidentialTransferMint
    (6, 1),    // DefaultAccountState
    (9, 0),    // NonTransferable
    (10, 52),  // InterestBearingConfig
    (12, 32),  // PermanentDelegate
    (14, 64),  // TransferHook
    (16, 129), // ConfidentialTransferFeeConfig
    (18, 64),  // MetadataPointer
    (19, 90),  // TokenMetadata (opaque here)
    (20, 64),  // GroupPointer
    (21, 80),  // TokenGroup
    (22, 64),  // GroupMemberPointer
    (23, 72),  // TokenGroupMember
    (24, 97),  // ConfidentialMintBurn
    (25, 56),  // ScaledUiAmount
    (26, 33),  // Pausable
    (2, 8),    // TransferFeeAmount (an account extension on a mint)
    (7, 0),    // ImmutableOwner (account extension)
    (27, 0),   // PausableAccount (account extension)
    (28, 4),   // unknown
    (40, 16),  // unknown
    (1000, 0), // unknown
    (65535, 8),
];

pub struct FabMint {
    pub data: Vec<u8>,
    pub exts: Vec<u16>,
    pub freeze: bool,
    pub truncated: bool,
    pub default_state: Option<u8>,
}

pub fn fabricate_mint(rng: &mut Rng, authority: &Pubkey) -> FabMint {
    let mut d = vec![0u8; 166];
    d[0..4].copy_from_slice(&1u32.to_le_bytes());
    d[4..36].copy_from_slice(authority.as_ref());
    d[44] = 6; // decimals
    d[45] = 1; // initialized
    let freeze = rng.chance(1, 4);
    if freeze {
        d[46..50].copy_from_slice(&1u32.to_le_bytes());
        // (one freeze authority in four is the all-zero key: an authority is set - nobody can sign for it, but it is not "none")
        if !rng.chance(1, 4) {
            d[50..82].copy_from_slice(authority.as_ref());
        }
    }
    d[165] = 1; // AccountType::Mint
    let n = match rng.below(6) {
        0 => 0,
        1 | 2 | 3 => 1,
        4 => 2,
        _ => 3,
    };
    let mut exts = Vec::new();
    let mut default_state = None;
    for _ in 0..n {
        let (t, len) = *rng.pick(EXT);
        if exts.contains(&t) {
            continue;
        }
        exts.push(t);
        d.extend_from_slice(&t.to_le_bytes());
        d.extend_from_slice(&(len as u16).to_le_bytes());
        let mut v = vec![0u8; len];
        if t == 6 {
            v[0] = *rng.pick(&[1u8, 2]);
            default_state = Some(v[0]);
        }
        d.extend_from_slice(&v);
    }
    let truncated = !exts.is_empty() && rng.chance(1, 8);
    if truncated {
        // cut into the last record's value, or leave a dangling length field
        let cut = 1 + rng.below(3) as usize;
        let nl = d.len() - cut.min(d.len() - 167);
        d.truncate(nl);
        // make sure the last record now claims more bytes than there are
        let last_len = EXT.iter().find(|(t, _)| *t == *exts.last().unwrap()).map(|(_, l)| *l).unwrap_or(0);
        if last_len == 0 {
            // zero-length value: truncate inside the 4-byte header instead
            d.truncate(d.len().saturating_sub(1).max(167));
        }
    }
    // a dangling tail after well-formed records: the two type bytes of one more extension without a length (or with
    // half a length), or a single stray byte
    let mut truncated = truncated;
    if !truncated && rng.chance(1, 10) {
        let ty: u16 = *rng.pick(&[9u16, 0xffff, 12, 14, 28]);
        match rng.below(3) {
            0 => d.extend_from_slice(&ty.to_le_bytes()),
            1 => {
                d.extend_from_slice(&ty.to_le_bytes());
                d.push(0);
            }
            _ => d.push(ty as u8),
        }
        truncated = true;
    }
    FabMint { data: d, exts, freeze, truncated, default_state }
}

/// pool creator: fabricates mints, (maybe) badges, then tries to create pools / rewards over them
pub fn plan_creator(w: &World, _k: &Knobs, actor: &mut Actor, l: &Ledger, now: i64) -> Vec<(Tx, String)> {
    let rng = &mut actor.rng.clone();
    let mut flow: Vec<(Tx, String)> = Vec::new();
    let config = w.config;
    let me = actor.wallet;
    let ce = ix::pda_config_extension(&config);
    // enable the badge feature and the config extension once
    if rng.chance(1, 3) {
        flow.push((
            tx1(ix::mk(wa::SetConfigFeatureFlag { whirlpools_config: config, authority: me }, wi::SetConfigFeatureFlag { feature_flag: whirlpool::state::ConfigFeatureFlag::TokenBadge(rng.chance(9, 10)) })),
            "set_config_feature_flag".into(),
        ));
    }
    if rng.chance(1, 12) {
        // a further config (only admin keys may create one)
        let cfg2 = new_key(rng);
        flow.push((tx1(ix::initialize_config(&cfg2, &me, &w.fee_authority, &w.collector, &w.reward_super, *rng.pick(&[0u16, 300, 2500, 2501]))), "initialize_config".into()));
    }
    // a fabricated mint
    // mostly a fresh address; now and then one of the two well-known native mint addresses (wrapped SOL of the classic
    // token program is an ordinary mint; the native mint of Token-2022 is never supported)
    let special = rng.below(14);
    let mint = match special {
        0 => spl_token_2022::native_mint::ID,
        1 => spl_token::native_mint::ID,
        _ => new_key(rng),
    };
    let fab = fabricate_mint(rng, &me);
    let lamports = crate::world::rent_min(fab.data.len().max(82));
    let plain = if special == 0 { false } else if special == 1 { true } else { rng.chance(1, 6) };
    let (owner, data) = if plain {
        let mut d = fab.data[..82].to_vec();
        d.truncate(82);
        (ix::tok(), d)
    } else if fab.exts.is_empty() && rng.chance(1, 2) {
        // a Token-2022 mint without any extension is a bare 82-byte account (no account-type byte, no TLV area)
        (ix::tok22(), fab.data[..82].to_vec())
    } else {
        (ix::tok22(), fab.data.clone())
    };
    RAW_EVENTS.with(|r| r.borrow_mut().push(HEvent::Put { key: mint, lamports, owner, data, tag: format!("fabricated mint exts={:?} freeze={} truncated={}", fab.exts, fab.freeze, fab.truncated) }));
    // badge variants: none / real badge / lamports at the badge address
    let badge = ix::pda_token_badge(&config, &mint);
    // a look-alike badge nobody issued: TokenBadge bytes naming this config and mint, at some other address, owned by a
    // stranger program (or by a look-alike of the whirlpool program id); used in the badge slots below
    let mut forged_badge: Option<Pubkey> = None;
    if rng.chance(1, 6) {
        let fk = new_key(rng);
        let mut d = vec![0u8; 200];
        d[..8].copy_from_slice(&decode::disc("TokenBadge"));
        d[8..40].copy_from_slice(config.as_ref());
        d[40..72].copy_from_slice(mint.as_ref());
        let forger = if rng.chance(1, 2) {
            new_key(rng)
        } else {
            let mut b = ix::wp().to_bytes();
            b[15] ^= 0x5a;
            Pubkey::new_from_array(b)
        };
        RAW_EVENTS.with(|r| r.borrow_mut().push(HEvent::Put { key: fk, lamports: 2_282_880, owner: forger, data: d, tag: "forged token badge (not issued by the badge authority)".into() }));
        forged_badge = Some(fk);
    }
    match if forged_badge.is_some() { 3 } else { rng.below(4) } {
        0 | 1 => {
            flow.push((
                tx1(ix::mk(
                    wa::InitializeTokenBadge { whirlpools_config: config, whirlpools_config_extension: ce, token_badge_authority: w.fee_authority, token_mint: mint, token_badge: badge, funder: me, system_program: ix::sys() },
                    wi::InitializeTokenBadge {},
                )),
                "initialize_token_badge".into(),
            ));
        }
        2 => {
            RAW_EVENTS.with(|r| r.borrow_mut().push(HEvent::Put { key: badge, lamports: 1_000_000, owner: ix::sys(), data: vec![], tag: "lamports sent to the badge address".into() }));
        }
        _ => {}
    }
    // pair it with an existing mint of the world
    let other = &w.mints[rng.idx(w.mints.len())];
    let (ma, pa, mb, pb) = if mint < other.key { (mint, owner, other.key, other.program) } else { (other.key, other.program, mint, owner) };
    let (ma, pa, mb, pb) = match rng.below(20) {
        0 => (mb, pb, ma, pa), // reversed order
        1 => (ma, pa, ma, pa), // the same mint on both sides
        2 => (mb, pb, mb, pb),
        _ => (ma, pa, mb, pb),
    };
    let have: Vec<u16> = l.accts.iter().filter(|(_, a)| a.owner == ix::wp()).filter_map(|(_, a)| decode::fee_tier(&a.data)).filter(|t| t.config == config).map(|t| t.tick_spacing).collect();
    let spacing = if !have.is_empty() && rng.chance(9, 10) { *rng.pick(&have) } else { *rng.pick(&[1u16, 8, 64, 128, 32768]) };
    let price = match rng.below(8) {
        0 => decode::MIN_SQRT_PRICE - 1,
        1 => decode::MAX_SQRT_PRICE + 1,
        2 => 0,
        3 => u128::MAX,
        _ => pick_start_price(rng, spacing),
    };
    let tiers: Vec<(Pubkey, decode::AdaptiveFeeTier)> = l.accts.iter().filter(|(_, a)| a.owner == ix::wp()).filter_map(|(k, a)| decode::adaptive_fee_tier(&a.data).map(|t| (*k, t))).collect();
    match rng.below(6) {
        0 | 1 | 2 => {
            let whirlpool = ix::pda_whirlpool(&config, &ma, &mb, spacing);
            let keys = PoolKeys { config, whirlpool, mint_a: ma, mint_b: mb, vault_a: new_key(rng), vault_b: new_key(rng), prog_a: pa, prog_b: pb, tick_spacing: spacing, fee_tier_index: spacing, oracle: ix::pda_oracle(&whirlpool) };
            flow.push((tx1(ix::initialize_pool_v2(&keys, &me, price)), "initialize_pool_v2".into()));
        }
        3 if !tiers.is_empty() => {
            let (tk, t) = &tiers[rng.idx(tiers.len())];
            let whirlpool = ix::pda_whirlpool(&config, &ma, &mb, t.fee_tier_index);
            let enable = match rng.below(5) {
                0 => Some((now.max(0) as u64) + rng.below(400_000)),
                1 => Some((now.max(0) as u64).saturating_sub(rng.below(100))),
                _ => None,
            };
            flow.push((
                tx1(ix::mk(
                    wa::InitializePoolWithAdaptiveFee {
                        whirlpools_config: config,
                        token_mint_a: ma,
                        token_mint_b: mb,
                        token_badge_a: ix::pda_token_badge(&config, &ma),
                        token_badge_b: ix::pda_token_badge(&config, &mb),
                        funder: me,
                        initialize_pool_authority: me,
                        whirlpool,
                        oracle: ix::pda_oracle(&whirlpool),
                        token_vault_a: new_key(rng),
                        token_vault_b: new_key(rng),
                        adaptive_fee_tier: *tk,
                        token_program_a: pa,
                        token_program_b: pb,
                        system_program: ix::sys(),
                        rent: ix::rent_sysvar(),
                    },
                    wi::InitializePoolWithAdaptiveFee { initial_sqrt_price: price, trade_enable_timestamp: enable },
                )),
                "initialize_pool_with_adaptive_fee".into(),
            ));
        }
        4 => {
            // v1 pool initialisation accepts only SPL Token mints
            let whirlpool = ix::pda_whirlpool(&config, &ma, &mb, spacing);
            let keys = PoolKeys { config, whirlpool, mint_a: ma, mint_b: mb, vault_a: new_key(rng), vault_b: new_key(rng), prog_a: pa, prog_b: pb, tick_spacing: spacing, fee_tier_index: spacing, oracle: ix::pda_oracle(&whirlpool) };
            flow.push((tx1(ix::initialize_pool(&keys, &me, price)), "initialize_pool".into()));
        }
        _ => {
            // reward over the fabricated mint on an existing pool (the creator is the reward authority only if it holds
            // the super authority key; otherwise this also exercises the authority check)
            let pools = decode::pools(l);
            if !pools.is_empty() {
                let (wk, p) = &pools[rng.idx(pools.len())];
                let n_init = p.rewards.iter().filter(|r| r.initialized()).count() as u8;
                // one time in three the reward is paid in one of the pool's OWN tokens (admitted when the pool was created,
                // perhaps with a badge that has been deleted since): it is admitted again, or not, on its present merits
                let (mint, owner) = if rng.chance(1, 3) {
                    let m = if rng.chance(1, 2) { p.mint_a } else { p.mint_b };
                    (m, l.get(&m).map(|a| a.owner).unwrap_or(owner))
                } else {
                    (mint, owner)
                };
                flow.push((
                    tx1(ix::mk(
                        wa::InitializeRewardV2 {
                            reward_authority: w.reward_super,
                            funder: me,
                            whirlpool: *wk,
                            reward_mint: mint,
                            reward_token_badge: ix::pda_token_badge(&p.config, &mint),
                            reward_vault: new_key(rng),
                            reward_token_program: owner,
                            system_program: ix::sys(),
                            rent: ix::rent_sysvar(),
                        },
                        wi::InitializeRewardV2 { reward_index: n_init.min(2) },
                    )),
                    "initialize_reward_v2".into(),
                ));
            }
        }
    }
    // one creation in eight is sent in ONE transaction with the deletion of the mint's badge in front of it: what the
    // deletion leaves behind inside the transaction must not count as a badge any more
    if forged_badge.is_none() && rng.chance(1, 8) {
        if let Some((tx, tag)) = flow.last_mut() {
            if tag.starts_with("initialize_pool") || tag.starts_with("initialize_reward") {
                let del = ix::mk(
                    wa::DeleteTokenBadge { whirlpools_config: config, whirlpools_config_extension: ce, token_badge_authority: w.fee_authority, token_mint: mint, token_badge: badge, receiver: me },
                    wi::DeleteTokenBadge {},
                );
                tx.ixs.insert(0, del);
                tag.push_str(" [badge deleted in the same transaction]");
            }
        }
    }
    if let Some(fk) = forged_badge {
        for (tx, tag) in flow.iter_mut() {
            for i in tx.ixs.iter_mut() {
                for m in i.accounts.iter_mut() {
                    if m.pubkey == badge {
                        m.pubkey = fk;
                    }
                }
            }
            tag.push_str(" [forged badge]");
        }
    }
    actor.rng = rng.clone();
    flow
}
