//! Transaction builders. Account order comes from the program's own generated
//! `whirlpool::accounts::*` (ToAccountMetas) and data from `whirlpool::instruction::*`.

use crate::rt::{metaplex_program_id, Ix, Meta};
use anchor_lang::{InstructionData, ToAccountMetas};
use solana_program::pubkey::Pubkey;
use std::cell::RefCell;
use std::collections::BTreeMap;
use whirlpool::accounts as wa;
use whirlpool::instruction as wi;

pub use whirlpool::util::remaining_accounts_utils::{
    AccountsType, RemainingAccountsInfo, RemainingAccountsSlice,
};

pub fn wp() -> Pubkey {
    whirlpool::ID
}
pub fn sys() -> Pubkey {
    solana_program::system_program::ID
}
pub fn tok() -> Pubkey {
    spl_token::ID
}
pub fn tok22() -> Pubkey {
    spl_token_2022::ID
}
pub fn ata_prog() -> Pubkey {
    spl_associated_token_account::ID
}
pub fn memo() -> Pubkey {
    spl_memo::ID
}
pub fn rent_sysvar() -> Pubkey {
    solana_program::sysvar::rent::ID
}
pub fn mpl() -> Pubkey {
    metaplex_program_id()
}

thread_local! {
    static PDA_CACHE: RefCell<BTreeMap<(Vec<u8>, Pubkey), (Pubkey, u8)>> = RefCell::new(BTreeMap::new());
}

pub fn find_pda(seeds: &[&[u8]], program: &Pubkey) -> (Pubkey, u8) {
    let mut flat = Vec::new();
    for s in seeds {
        flat.push(s.len() as u8);
        flat.extend_from_slice(s);
    }
    let key = (flat, *program);
    if let Some(v) = PDA_CACHE.with(|c| c.borrow().get(&key).cloned()) {
        return v;
    }
    let v = Pubkey::find_program_address(seeds, program);
    PDA_CACHE.with(|c| {
        let mut c = c.borrow_mut();
        if c.len() > 200_000 {
            c.clear();
        }
        c.insert(key, v);
    });
    v
}

pub fn pda_whirlpool(config: &Pubkey, mint_a: &Pubkey, mint_b: &Pubkey, fee_tier_index: u16) -> Pubkey {
    find_pda(
        &[
            b"whirlpool",
            config.as_ref(),
            mint_a.as_ref(),
            mint_b.as_ref(),
            &fee_tier_index.to_le_bytes(),
        ],
        &wp(),
    )
    .0
}
pub fn pda_fee_tier(config: &Pubkey, index: u16) -> Pubkey {
    find_pda(&[b"fee_tier", config.as_ref(), &index.to_le_bytes()], &wp()).0
}
pub fn pda_tick_array(whirlpool: &Pubkey, start: i32) -> Pubkey {
    find_pda(
        &[b"tick_array", whirlpool.as_ref(), start.to_string().as_bytes()],
        &wp(),
    )
    .0
}
pub fn pda_position(mint: &Pubkey) -> Pubkey {
    find_pda(&[b"position", mint.as_ref()], &wp()).0
}
pub fn pda_oracle(whirlpool: &Pubkey) -> Pubkey {
    find_pda(&[b"oracle", whirlpool.as_ref()], &wp()).0
}
pub fn pda_position_bundle(mint: &Pubkey) -> Pubkey {
    find_pda(&[b"position_bundle", mint.as_ref()], &wp()).0
}
pub fn pda_bundled_position(bundle_mint: &Pubkey, index: u16) -> Pubkey {
    find_pda(
        &[b"bundled_position", bundle_mint.as_ref(), index.to_string().as_bytes()],
        &wp(),
    )
    .0
}
pub fn pda_token_badge(config: &Pubkey, mint: &Pubkey) -> Pubkey {
    find_pda(&[b"token_badge", config.as_ref(), mint.as_ref()], &wp()).0
}
pub fn pda_config_extension(config: &Pubkey) -> Pubkey {
    find_pda(&[b"config_extension", config.as_ref()], &wp()).0
}
pub fn pda_lock_config(position: &Pubkey) -> Pubkey {
    find_pda(&[b"lock_config", position.as_ref()], &wp()).0
}
pub fn pda_metadata(mint: &Pubkey) -> Pubkey {
    find_pda(&[b"metadata", mpl().as_ref(), mint.as_ref()], &mpl()).0
}
pub fn ata(owner: &Pubkey, mint: &Pubkey, token_program: &Pubkey) -> Pubkey {
    find_pda(
        &[owner.as_ref(), token_program.as_ref(), mint.as_ref()],
        &ata_prog(),
    )
    .0
}

thread_local! {
    /// mints with a transfer hook in the current world: mint -> accounts the hook needs (validation account, hook program)
    pub static HOOK_MINTS: RefCell<BTreeMap<Pubkey, Vec<Pubkey>>> = RefCell::new(BTreeMap::new());
}

/// remaining-accounts slices for the transfer hooks of the given (type, mint) pairs
pub fn hook_remaining(pairs: &[(AccountsType, Pubkey)]) -> (Vec<RemainingAccountsSlice>, Vec<(Pubkey, bool)>) {
    let mut slices = Vec::new();
    let mut rem = Vec::new();
    HOOK_MINTS.with(|h| {
        let h = h.borrow();
        for (t, m) in pairs {
            if let Some(accts) = h.get(m) {
                slices.push(RemainingAccountsSlice { accounts_type: t.clone(), length: accts.len() as u8 });
                for a in accts {
                    rem.push((*a, false));
                }
            }
        }
    });
    (slices, rem)
}

thread_local! {
    /// packaging fault armed by a planning actor: the next description of remaining accounts that is built also carries a
    /// zero-length slice of this type number (a type the instruction may or may not accept, possibly one listed already)
    pub static RAI_FAULT: std::cell::Cell<Option<u8>> = const { std::cell::Cell::new(None) };
}

fn accounts_type_of(n: u8) -> AccountsType {
    match n % 13 {
        0 => AccountsType::TransferHookA,
        1 => AccountsType::TransferHookB,
        2 => AccountsType::TransferHookReward,
        3 => AccountsType::TransferHookInput,
        4 => AccountsType::TransferHookIntermediate,
        5 => AccountsType::TransferHookOutput,
        6 => AccountsType::SupplementalTickArrays,
        7 => AccountsType::SupplementalTickArraysOne,
        8 => AccountsType::SupplementalTickArraysTwo,
        9 => AccountsType::TransferHookDepositA,
        10 => AccountsType::TransferHookDepositB,
        11 => AccountsType::TransferHookWithdrawalA,
        _ => AccountsType::TransferHookWithdrawalB,
    }
}

fn rai(mut slices: Vec<RemainingAccountsSlice>) -> Option<RemainingAccountsInfo> {
    if let Some(t) = RAI_FAULT.with(|c| c.take()) {
        let extra = RemainingAccountsSlice { accounts_type: accounts_type_of(t), length: 0 };
        if t & 0x80 != 0 {
            slices.insert(0, extra);
        } else {
            slices.push(extra);
        }
    }
    if slices.is_empty() {
        None
    } else {
        Some(RemainingAccountsInfo { slices })
    }
}

pub fn mk(accounts: impl ToAccountMetas, data: impl InstructionData) -> Ix {
    Ix {
        program_id: wp(),
        accounts: accounts
            .to_account_metas(None)
            .into_iter()
            .map(|m| Meta {
                pubkey: m.pubkey,
                is_signer: m.is_signer,
                is_writable: m.is_writable,
            })
            .collect(),
        data: data.data(),
    }
}

pub fn push_remaining(ix: &mut Ix, keys: &[(Pubkey, bool)]) {
    for (k, w) in keys {
        ix.accounts.push(Meta {
            pubkey: *k,
            is_signer: false,
            is_writable: *w,
        });
    }
}

// ------------------------------------------------------------------------------------------
// token / system helpers (top-level instructions executed by the real token programs)
// ------------------------------------------------------------------------------------------

pub fn sys_create_account(from: &Pubkey, to: &Pubkey, lamports: u64, space: u64, owner: &Pubkey) -> Ix {
    let mut data = Vec::with_capacity(52);
    data.extend_from_slice(&0u32.to_le_bytes());
    data.extend_from_slice(&lamports.to_le_bytes());
    data.extend_from_slice(&space.to_le_bytes());
    data.extend_from_slice(owner.as_ref());
    Ix {
        program_id: sys(),
        accounts: vec![
            Meta { pubkey: *from, is_signer: true, is_writable: true },
            Meta { pubkey: *to, is_signer: true, is_writable: true },
        ],
        data,
    }
}

pub fn sys_transfer(from: &Pubkey, to: &Pubkey, lamports: u64) -> Ix {
    let mut data = Vec::with_capacity(12);
    data.extend_from_slice(&2u32.to_le_bytes());
    data.extend_from_slice(&lamports.to_le_bytes());
    Ix {
        program_id: sys(),
        accounts: vec![
            Meta { pubkey: *from, is_signer: true, is_writable: true },
            Meta { pubkey: *to, is_signer: false, is_writable: true },
        ],
        data,
    }
}

pub fn from_sol(ix: solana_program::instruction::Instruction) -> Ix {
    Ix::from_sol(ix)
}

// ------------------------------------------------------------------------------------------
// whirlpool instructions
// ------------------------------------------------------------------------------------------

pub fn initialize_config(
    config: &Pubkey,
    funder: &Pubkey,
    fee_authority: &Pubkey,
    collect_protocol_fees_authority: &Pubkey,
    reward_emissions_super_authority: &Pubkey,
    default_protocol_fee_rate: u16,
) -> Ix {
    let mut ix = mk(
        wa::InitializeConfig {
            config: *config,
            funder: *funder,
            system_program: sys(),
        },
        wi::InitializeConfig {
            fee_authority: *fee_authority,
            collect_protocol_fees_authority: *collect_protocol_fees_authority,
            reward_emissions_super_authority: *reward_emissions_super_authority,
            default_protocol_fee_rate,
        },
    );
    // `init` on a non-PDA account needs the new account's signature
    ix.accounts[0].is_signer = true;
    ix
}

pub fn initialize_fee_tier(
    config: &Pubkey,
    funder: &Pubkey,
    fee_authority: &Pubkey,
    tick_spacing: u16,
    default_fee_rate: u16,
) -> Ix {
    mk(
        wa::InitializeFeeTier {
            config: *config,
            fee_tier: pda_fee_tier(config, tick_spacing),
            funder: *funder,
            fee_authority: *fee_authority,
            system_program: sys(),
        },
        wi::InitializeFeeTier {
            tick_spacing,
            default_fee_rate,
        },
    )
}

#[derive(Clone, Debug, PartialEq, Eq)]
pub struct PoolKeys {
    pub config: Pubkey,
    pub whirlpool: Pubkey,
    pub mint_a: Pubkey,
    pub mint_b: Pubkey,
    pub vault_a: Pubkey,
    pub vault_b: Pubkey,
    pub prog_a: Pubkey,
    pub prog_b: Pubkey,
    pub tick_spacing: u16,
    pub fee_tier_index: u16,
    pub oracle: Pubkey,
}

pub fn initialize_pool(pk: &PoolKeys, funder: &Pubkey, sqrt_price: u128) -> Ix {
    let mut ix = mk(
        wa::InitializePool {
            whirlpools_config: pk.config,
            token_mint_a: pk.mint_a,
            token_mint_b: pk.mint_b,
            funder: *funder,
            whirlpool: pk.whirlpool,
            token_vault_a: pk.vault_a,
            token_vault_b: pk.vault_b,
            fee_tier: pda_fee_tier(&pk.config, pk.fee_tier_index),
            token_program: tok(),
            system_program: sys(),
            rent: rent_sysvar(),
        },
        wi::InitializePool {
            bumps: whirlpool::state::WhirlpoolBumps { whirlpool_bump: 0 },
            tick_spacing: pk.tick_spacing,
            initial_sqrt_price: sqrt_price,
        },
    );
    for m in ix.accounts.iter_mut() {
        if m.pubkey == pk.vault_a || m.pubkey == pk.vault_b {
            m.is_signer = true;
        }
    }
    ix
}

pub fn initialize_pool_v2(
    pk: &PoolKeys,
    funder: &Pubkey,
    sqrt_price: u128,
) -> Ix {
    mk(
        wa::InitializePoolV2 {
            whirlpools_config: pk.config,
            token_mint_a: pk.mint_a,
            token_mint_b: pk.mint_b,
            token_badge_a: pda_token_badge(&pk.config, &pk.mint_a),
            token_badge_b: pda_token_badge(&pk.config, &pk.mint_b),
            funder: *funder,
            whirlpool: pk.whirlpool,
            token_vault_a: pk.vault_a,
            token_vault_b: pk.vault_b,
            fee_tier: pda_fee_tier(&pk.config, pk.fee_tier_index),
            token_program_a: pk.prog_a,
            token_program_b: pk.prog_b,
            system_program: sys(),
            rent: rent_sysvar(),
        },
        wi::InitializePoolV2 {
            tick_spacing: pk.tick_spacing,
            initial_sqrt_price: sqrt_price,
        },
    )
}

pub fn initialize_tick_array(whirlpool: &Pubkey, funder: &Pubkey, start: i32) -> Ix {
    mk(
        wa::InitializeTickArray {
            whirlpool: *whirlpool,
            funder: *funder,
            tick_array: pda_tick_array(whirlpool, start),
            system_program: sys(),
        },
        wi::InitializeTickArray {
            start_tick_index: start,
        },
    )
}

pub fn initialize_dynamic_tick_array(whirlpool: &Pubkey, funder: &Pubkey, start: i32, idempotent: bool) -> Ix {
    mk(
        wa::InitializeDynamicTickArray {
            whirlpool: *whirlpool,
            funder: *funder,
            tick_array: pda_tick_array(whirlpool, start),
            system_program: sys(),
        },
        wi::InitializeDynamicTickArray {
            start_tick_index: start,
            idempotent,
        },
    )
}

#[derive(Clone, Debug, PartialEq, Eq)]
pub struct PositionKeys {
    pub position: Pubkey,
    pub mint: Pubkey,
    pub token_account: Pubkey,
    pub owner: Pubkey,
    /// token program of the position NFT
    pub nft_program: Pubkey,
}

pub fn open_position(whirlpool: &Pubkey, funder: &Pubkey, owner: &Pubkey, mint: &Pubkey, lower: i32, upper: i32) -> (Ix, PositionKeys) {
    let position = pda_position(mint);
    let ta = ata(owner, mint, &tok());
    let mut ix = mk(
        wa::OpenPosition {
            funder: *funder,
            owner: *owner,
            position,
            position_mint: *mint,
            position_token_account: ta,
            whirlpool: *whirlpool,
            token_program: tok(),
            system_program: sys(),
            rent: rent_sysvar(),
            associated_token_program: ata_prog(),
        },
        wi::OpenPosition {
            bumps: whirlpool::state::OpenPositionBumps { position_bump: 0 },
            tick_lower_index: lower,
            tick_upper_index: upper,
        },
    );
    for m in ix.accounts.iter_mut() {
        if m.pubkey == *mint {
            m.is_signer = true;
        }
    }
    (
        ix,
        PositionKeys {
            position,
            mint: *mint,
            token_account: ta,
            owner: *owner,
            nft_program: tok(),
        },
    )
}

pub fn open_position_with_metadata(whirlpool: &Pubkey, funder: &Pubkey, owner: &Pubkey, mint: &Pubkey, lower: i32, upper: i32) -> (Ix, PositionKeys) {
    let position = pda_position(mint);
    let ta = ata(owner, mint, &tok());
    let mut ix = mk(
        wa::OpenPositionWithMetadata {
            funder: *funder,
            owner: *owner,
            position,
            position_mint: *mint,
            position_metadata_account: pda_metadata(mint),
            position_token_account: ta,
            whirlpool: *whirlpool,
            token_program: tok(),
            system_program: sys(),
            rent: rent_sysvar(),
            associated_token_program: ata_prog(),
            metadata_program: mpl(),
            metadata_update_auth: whirlpool::constants::nft::whirlpool_nft_update_auth::ID,
        },
        wi::OpenPositionWithMetadata {
            bumps: whirlpool::state::OpenPositionWithMetadataBumps {
                position_bump: 0,
                metadata_bump: 0,
            },
            tick_lower_index: lower,
            tick_upper_index: upper,
        },
    );
    for m in ix.accounts.iter_mut() {
        if m.pubkey == *mint {
            m.is_signer = true;
        }
    }
    (
        ix,
        PositionKeys {
            position,
            mint: *mint,
            token_account: ta,
            owner: *owner,
            nft_program: tok(),
        },
    )
}

pub fn open_position_with_token_extensions(
    whirlpool: &Pubkey,
    funder: &Pubkey,
    owner: &Pubkey,
    mint: &Pubkey,
    lower: i32,
    upper: i32,
    with_metadata: bool,
) -> (Ix, PositionKeys) {
    let position = pda_position(mint);
    let ta = ata(owner, mint, &tok22());
    let ix = mk(
        wa::OpenPositionWithTokenExtensions {
            funder: *funder,
            owner: *owner,
            position,
            position_mint: *mint,
            position_token_account: ta,
            whirlpool: *whirlpool,
            token_2022_program: tok22(),
            system_program: sys(),
            associated_token_program: ata_prog(),
            metadata_update_auth: whirlpool::constants::nft::whirlpool_nft_update_auth::ID,
        },
        wi::OpenPositionWithTokenExtensions {
            tick_lower_index: lower,
            tick_upper_index: upper,
            with_token_metadata_extension: with_metadata,
        },
    );
    (
        ix,
        PositionKeys {
            position,
            mint: *mint,
            token_account: ta,
            owner: *owner,
            nft_program: tok22(),
        },
    )
}

#[derive(Clone, Debug, PartialEq, Eq)]
pub struct LiqAccounts {
    pub pool: PoolKeys,
    pub authority: Pubkey,
    pub position: Pubkey,
    pub position_token_account: Pubkey,
    pub owner_a: Pubkey,
    pub owner_b: Pubkey,
    pub ta_lower: Pubkey,
    pub ta_upper: Pubkey,
}

fn modify_liquidity_accounts(a: &LiqAccounts) -> wa::ModifyLiquidity {
    wa::ModifyLiquidity {
        whirlpool: a.pool.whirlpool,
        token_program: tok(),
        position_authority: a.authority,
        position: a.position,
        position_token_account: a.position_token_account,
        token_owner_account_a: a.owner_a,
        token_owner_account_b: a.owner_b,
        token_vault_a: a.pool.vault_a,
        token_vault_b: a.pool.vault_b,
        tick_array_lower: a.ta_lower,
        tick_array_upper: a.ta_upper,
    }
}

fn modify_liquidity_v2_accounts(a: &LiqAccounts) -> wa::ModifyLiquidityV2 {
    wa::ModifyLiquidityV2 {
        whirlpool: a.pool.whirlpool,
        token_program_a: a.pool.prog_a,
        token_program_b: a.pool.prog_b,
        memo_program: memo(),
        position_authority: a.authority,
        position: a.position,
        position_token_account: a.position_token_account,
        token_mint_a: a.pool.mint_a,
        token_mint_b: a.pool.mint_b,
        token_owner_account_a: a.owner_a,
        token_owner_account_b: a.owner_b,
        token_vault_a: a.pool.vault_a,
        token_vault_b: a.pool.vault_b,
        tick_array_lower: a.ta_lower,
        tick_array_upper: a.ta_upper,
    }
}

pub fn increase_liquidity(a: &LiqAccounts, liquidity: u128, max_a: u64, max_b: u64) -> Ix {
    mk(
        modify_liquidity_accounts(a),
        wi::IncreaseLiquidity {
            liquidity_amount: liquidity,
            token_max_a: max_a,
            token_max_b: max_b,
        },
    )
}

pub fn decrease_liquidity(a: &LiqAccounts, liquidity: u128, min_a: u64, min_b: u64) -> Ix {
    mk(
        modify_liquidity_accounts(a),
        wi::DecreaseLiquidity {
            liquidity_amount: liquidity,
            token_min_a: min_a,
            token_min_b: min_b,
        },
    )
}

pub fn increase_liquidity_v2(a: &LiqAccounts, liquidity: u128, max_a: u64, max_b: u64) -> Ix {
    let (hs, hrem) = hook_remaining(&[(AccountsType::TransferHookA, a.pool.mint_a), (AccountsType::TransferHookB, a.pool.mint_b)]);
    let mut ix = mk(
        modify_liquidity_v2_accounts(a),
        wi::IncreaseLiquidityV2 {
            liquidity_amount: liquidity,
            token_max_a: max_a,
            token_max_b: max_b,
            remaining_accounts_info: rai(hs),
        },
    );
    push_remaining(&mut ix, &hrem);
    ix
}

pub fn decrease_liquidity_v2(a: &LiqAccounts, liquidity: u128, min_a: u64, min_b: u64) -> Ix {
    let (hs, hrem) = hook_remaining(&[(AccountsType::TransferHookA, a.pool.mint_a), (AccountsType::TransferHookB, a.pool.mint_b)]);
    let mut ix = mk(
        modify_liquidity_v2_accounts(a),
        wi::DecreaseLiquidityV2 {
            liquidity_amount: liquidity,
            token_min_a: min_a,
            token_min_b: min_b,
            remaining_accounts_info: rai(hs),
        },
    );
    push_remaining(&mut ix, &hrem);
    ix
}

pub fn increase_liquidity_by_token_amounts_v2(
    a: &LiqAccounts,
    max_a: u64,
    max_b: u64,
    min_sqrt_price: u128,
    max_sqrt_price: u128,
) -> Ix {
    let (hs, hrem) = hook_remaining(&[(AccountsType::TransferHookA, a.pool.mint_a), (AccountsType::TransferHookB, a.pool.mint_b)]);
    let mut ix = mk(
        modify_liquidity_v2_accounts(a),
        wi::IncreaseLiquidityByTokenAmountsV2 {
            method: whirlpool::instructions::IncreaseLiquidityMethod::ByTokenAmounts {
                token_max_a: max_a,
                token_max_b: max_b,
                min_sqrt_price,
                max_sqrt_price,
            },
            remaining_accounts_info: rai(hs),
        },
    );
    push_remaining(&mut ix, &hrem);
    ix
}

#[derive(Clone, Debug, PartialEq, Eq)]
pub struct RepositionAccounts {
    pub liq: LiqAccounts,
    pub funder: Pubkey,
    pub new_ta_lower: Pubkey,
    pub new_ta_upper: Pubkey,
}

#[allow(clippy::too_many_arguments)]
pub fn reposition_liquidity_v2(
    r: &RepositionAccounts,
    new_lower: i32,
    new_upper: i32,
    new_liquidity: u128,
    existing_min_a: u64,
    existing_min_b: u64,
    new_max_a: u64,
    new_max_b: u64,
) -> Ix {
    let a = &r.liq;
    let (hs, hrem) = hook_remaining(&[(AccountsType::TransferHookDepositA, a.pool.mint_a), (AccountsType::TransferHookDepositB, a.pool.mint_b), (AccountsType::TransferHookWithdrawalA, a.pool.mint_a), (AccountsType::TransferHookWithdrawalB, a.pool.mint_b)]);
    let mut ix = mk(
        wa::RepositionLiquidityV2 {
            whirlpool: a.pool.whirlpool,
            token_program_a: a.pool.prog_a,
            token_program_b: a.pool.prog_b,
            memo_program: memo(),
            position_authority: a.authority,
            funder: r.funder,
            position: a.position,
            position_token_account: a.position_token_account,
            token_mint_a: a.pool.mint_a,
            token_mint_b: a.pool.mint_b,
            token_owner_account_a: a.owner_a,
            token_owner_account_b: a.owner_b,
            token_vault_a: a.pool.vault_a,
            token_vault_b: a.pool.vault_b,
            existing_tick_array_lower: a.ta_lower,
            existing_tick_array_upper: a.ta_upper,
            new_tick_array_lower: r.new_ta_lower,
            new_tick_array_upper: r.new_ta_upper,
            system_program: sys(),
        },
        wi::RepositionLiquidityV2 {
            new_tick_lower_index: new_lower,
            new_tick_upper_index: new_upper,
            method: whirlpool::instructions::RepositionLiquidityMethod::ByLiquidity {
                new_liquidity_amount: new_liquidity,
                existing_range_token_min_a: existing_min_a,
                existing_range_token_min_b: existing_min_b,
                new_range_token_max_a: new_max_a,
                new_range_token_max_b: new_max_b,
            },
            remaining_accounts_info: rai(hs),
        },
    );
    push_remaining(&mut ix, &hrem);
    ix
}

#[derive(Clone, Debug, PartialEq, Eq)]
pub struct SwapAccounts {
    pub pool: PoolKeys,
    pub authority: Pubkey,
    pub owner_a: Pubkey,
    pub owner_b: Pubkey,
    pub tick_arrays: [Pubkey; 3],
}

#[derive(Clone, Copy, Debug, PartialEq, Eq)]
pub struct SwapArgs {
    pub amount: u64,
    pub other_amount_threshold: u64,
    pub sqrt_price_limit: u128,
    pub amount_specified_is_input: bool,
    pub a_to_b: bool,
}

fn oracle_writable(mut ix: Ix, oracles: &[Pubkey]) -> Ix {
    // pools with adaptive fees need the oracle writable; harmless otherwise
    for m in ix.accounts.iter_mut() {
        if oracles.contains(&m.pubkey) {
            m.is_writable = true;
        }
    }
    ix
}

pub fn swap(s: &SwapAccounts, a: &SwapArgs) -> Ix {
    let ix = swap_inner(s, a);
    oracle_writable(ix, &[s.pool.oracle])
}

fn swap_inner(s: &SwapAccounts, a: &SwapArgs) -> Ix {
    mk(
        wa::Swap {
            token_program: tok(),
            token_authority: s.authority,
            whirlpool: s.pool.whirlpool,
            token_owner_account_a: s.owner_a,
            token_vault_a: s.pool.vault_a,
            token_owner_account_b: s.owner_b,
            token_vault_b: s.pool.vault_b,
            tick_array_0: s.tick_arrays[0],
            tick_array_1: s.tick_arrays[1],
            tick_array_2: s.tick_arrays[2],
            oracle: s.pool.oracle,
        },
        wi::Swap {
            amount: a.amount,
            other_amount_threshold: a.other_amount_threshold,
            sqrt_price_limit: a.sqrt_price_limit,
            amount_specified_is_input: a.amount_specified_is_input,
            a_to_b: a.a_to_b,
        },
    )
}

pub fn swap_v2(s: &SwapAccounts, a: &SwapArgs, supplemental: &[Pubkey]) -> Ix {
    let (mut hs, hrem) = hook_remaining(&[(AccountsType::TransferHookA, s.pool.mint_a), (AccountsType::TransferHookB, s.pool.mint_b)]);
    if !supplemental.is_empty() {
        hs.push(RemainingAccountsSlice {
            accounts_type: AccountsType::SupplementalTickArrays,
            length: supplemental.len() as u8,
        });
    }
    let rai = rai(hs);
    let mut ix = mk(
        wa::SwapV2 {
            token_program_a: s.pool.prog_a,
            token_program_b: s.pool.prog_b,
            memo_program: memo(),
            token_authority: s.authority,
            whirlpool: s.pool.whirlpool,
            token_mint_a: s.pool.mint_a,
            token_mint_b: s.pool.mint_b,
            token_owner_account_a: s.owner_a,
            token_vault_a: s.pool.vault_a,
            token_owner_account_b: s.owner_b,
            token_vault_b: s.pool.vault_b,
            tick_array_0: s.tick_arrays[0],
            tick_array_1: s.tick_arrays[1],
            tick_array_2: s.tick_arrays[2],
            oracle: s.pool.oracle,
        },
        wi::SwapV2 {
            amount: a.amount,
            other_amount_threshold: a.other_amount_threshold,
            sqrt_price_limit: a.sqrt_price_limit,
            amount_specified_is_input: a.amount_specified_is_input,
            a_to_b: a.a_to_b,
            remaining_accounts_info: rai,
        },
    );
    push_remaining(&mut ix, &hrem);
    let rem: Vec<(Pubkey, bool)> = supplemental.iter().map(|k| (*k, true)).collect();
    push_remaining(&mut ix, &rem);
    ix
}

#[derive(Clone, Debug, PartialEq, Eq)]
pub struct TwoHopAccounts {
    pub one: PoolKeys,
    pub two: PoolKeys,
    pub authority: Pubkey,
    /// trader's token accounts for pool one (a, b) and pool two (a, b)
    pub owner_one_a: Pubkey,
    pub owner_one_b: Pubkey,
    pub owner_two_a: Pubkey,
    pub owner_two_b: Pubkey,
    pub tick_arrays_one: [Pubkey; 3],
    pub tick_arrays_two: [Pubkey; 3],
}

#[derive(Clone, Copy, Debug, PartialEq, Eq)]
pub struct TwoHopArgs {
    pub amount: u64,
    pub other_amount_threshold: u64,
    pub amount_specified_is_input: bool,
    pub a_to_b_one: bool,
    pub a_to_b_two: bool,
    pub sqrt_price_limit_one: u128,
    pub sqrt_price_limit_two: u128,
}

pub fn two_hop_swap(t: &TwoHopAccounts, a: &TwoHopArgs) -> Ix {
    let ix = two_hop_swap_inner(t, a);
    oracle_writable(ix, &[t.one.oracle, t.two.oracle])
}

fn two_hop_swap_inner(t: &TwoHopAccounts, a: &TwoHopArgs) -> Ix {
    mk(
        wa::TwoHopSwap {
            token_program: tok(),
            token_authority: t.authority,
            whirlpool_one: t.one.whirlpool,
            whirlpool_two: t.two.whirlpool,
            token_owner_account_one_a: t.owner_one_a,
            token_vault_one_a: t.one.vault_a,
            token_owner_account_one_b: t.owner_one_b,
            token_vault_one_b: t.one.vault_b,
            token_owner_account_two_a: t.owner_two_a,
            token_vault_two_a: t.two.vault_a,
            token_owner_account_two_b: t.owner_two_b,
            token_vault_two_b: t.two.vault_b,
            tick_array_one_0: t.tick_arrays_one[0],
            tick_array_one_1: t.tick_arrays_one[1],
            tick_array_one_2: t.tick_arrays_one[2],
            tick_array_two_0: t.tick_arrays_two[0],
            tick_array_two_1: t.tick_arrays_two[1],
            tick_array_two_2: t.tick_arrays_two[2],
            oracle_one: t.one.oracle,
            oracle_two: t.two.oracle,
        },
        wi::TwoHopSwap {
            amount: a.amount,
            other_amount_threshold: a.other_amount_threshold,
            amount_specified_is_input: a.amount_specified_is_input,
            a_to_b_one: a.a_to_b_one,
            a_to_b_two: a.a_to_b_two,
            sqrt_price_limit_one: a.sqrt_price_limit_one,
            sqrt_price_limit_two: a.sqrt_price_limit_two,
        },
    )
}

pub fn two_hop_swap_v2(t: &TwoHopAccounts, a: &TwoHopArgs) -> Ix {
    // input / intermediate / output mints by direction
    let (mint_in, prog_in, vault_one_in, mint_mid, prog_mid, vault_one_mid, owner_in) = if a.a_to_b_one {
        (t.one.mint_a, t.one.prog_a, t.one.vault_a, t.one.mint_b, t.one.prog_b, t.one.vault_b, t.owner_one_a)
    } else {
        (t.one.mint_b, t.one.prog_b, t.one.vault_b, t.one.mint_a, t.one.prog_a, t.one.vault_a, t.owner_one_b)
    };
    let (vault_two_mid, mint_out, prog_out, vault_two_out, owner_out) = if a.a_to_b_two {
        (t.two.vault_a, t.two.mint_b, t.two.prog_b, t.two.vault_b, t.owner_two_b)
    } else {
        (t.two.vault_b, t.two.mint_a, t.two.prog_a, t.two.vault_a, t.owner_two_a)
    };
    let (hs, hrem) = hook_remaining(&[
        (AccountsType::TransferHookInput, mint_in),
        (AccountsType::TransferHookIntermediate, mint_mid),
        (AccountsType::TransferHookOutput, mint_out),
    ]);
    let mut ix = mk(
        wa::TwoHopSwapV2 {
            whirlpool_one: t.one.whirlpool,
            whirlpool_two: t.two.whirlpool,
            token_mint_input: mint_in,
            token_mint_intermediate: mint_mid,
            token_mint_output: mint_out,
            token_program_input: prog_in,
            token_program_intermediate: prog_mid,
            token_program_output: prog_out,
            token_owner_account_input: owner_in,
            token_vault_one_input: vault_one_in,
            token_vault_one_intermediate: vault_one_mid,
            token_vault_two_intermediate: vault_two_mid,
            token_vault_two_output: vault_two_out,
            token_owner_account_output: owner_out,
            token_authority: t.authority,
            tick_array_one_0: t.tick_arrays_one[0],
            tick_array_one_1: t.tick_arrays_one[1],
            tick_array_one_2: t.tick_arrays_one[2],
            tick_array_two_0: t.tick_arrays_two[0],
            tick_array_two_1: t.tick_arrays_two[1],
            tick_array_two_2: t.tick_arrays_two[2],
            oracle_one: t.one.oracle,
            oracle_two: t.two.oracle,
            memo_program: memo(),
        },
        wi::TwoHopSwapV2 {
            amount: a.amount,
            other_amount_threshold: a.other_amount_threshold,
            amount_specified_is_input: a.amount_specified_is_input,
            a_to_b_one: a.a_to_b_one,
            a_to_b_two: a.a_to_b_two,
            sqrt_price_limit_one: a.sqrt_price_limit_one,
            sqrt_price_limit_two: a.sqrt_price_limit_two,
            remaining_accounts_info: rai(hs),
        },
    );
    push_remaining(&mut ix, &hrem);
    ix
}

pub fn update_fees_and_rewards(whirlpool: &Pubkey, position: &Pubkey, ta_lower: &Pubkey, ta_upper: &Pubkey) -> Ix {
    mk(
        wa::UpdateFeesAndRewards {
            whirlpool: *whirlpool,
            position: *position,
            tick_array_lower: *ta_lower,
            tick_array_upper: *ta_upper,
        },
        wi::UpdateFeesAndRewards {},
    )
}

pub fn collect_fees(a: &LiqAccounts) -> Ix {
    mk(
        wa::CollectFees {
            whirlpool: a.pool.whirlpool,
            position_authority: a.authority,
            position: a.position,
            position_token_account: a.position_token_account,
            token_owner_account_a: a.owner_a,
            token_vault_a: a.pool.vault_a,
            token_owner_account_b: a.owner_b,
            token_vault_b: a.pool.vault_b,
            token_program: tok(),
        },
        wi::CollectFees {},
    )
}

pub fn collect_fees_v2(a: &LiqAccounts) -> Ix {
    let (hs, hrem) = hook_remaining(&[(AccountsType::TransferHookA, a.pool.mint_a), (AccountsType::TransferHookB, a.pool.mint_b)]);
    let mut ix = mk(
        wa::CollectFeesV2 {
            whirlpool: a.pool.whirlpool,
            position_authority: a.authority,
            position: a.position,
            position_token_account: a.position_token_account,
            token_mint_a: a.pool.mint_a,
            token_mint_b: a.pool.mint_b,
            token_owner_account_a: a.owner_a,
            token_vault_a: a.pool.vault_a,
            token_owner_account_b: a.owner_b,
            token_vault_b: a.pool.vault_b,
            token_program_a: a.pool.prog_a,
            token_program_b: a.pool.prog_b,
            memo_program: memo(),
        },
        wi::CollectFeesV2 {
            remaining_accounts_info: rai(hs),
        },
    );
    push_remaining(&mut ix, &hrem);
    ix
}

pub fn collect_protocol_fees(pool: &PoolKeys, authority: &Pubkey, dest_a: &Pubkey, dest_b: &Pubkey) -> Ix {
    mk(
        wa::CollectProtocolFees {
            whirlpools_config: pool.config,
            whirlpool: pool.whirlpool,
            collect_protocol_fees_authority: *authority,
            token_vault_a: pool.vault_a,
            token_vault_b: pool.vault_b,
            token_destination_a: *dest_a,
            token_destination_b: *dest_b,
            token_program: tok(),
        },
        wi::CollectProtocolFees {},
    )
}

pub fn collect_protocol_fees_v2(pool: &PoolKeys, authority: &Pubkey, dest_a: &Pubkey, dest_b: &Pubkey) -> Ix {
    let (hs, hrem) = hook_remaining(&[(AccountsType::TransferHookA, pool.mint_a), (AccountsType::TransferHookB, pool.mint_b)]);
    let mut ix = mk(
        wa::CollectProtocolFeesV2 {
            whirlpools_config: pool.config,
            whirlpool: pool.whirlpool,
            collect_protocol_fees_authority: *authority,
            token_mint_a: pool.mint_a,
            token_mint_b: pool.mint_b,
            token_vault_a: pool.vault_a,
            token_vault_b: pool.vault_b,
            token_destination_a: *dest_a,
            token_destination_b: *dest_b,
            token_program_a: pool.prog_a,
            token_program_b: pool.prog_b,
            memo_program: memo(),
        },
        wi::CollectProtocolFeesV2 {
            remaining_accounts_info: rai(hs),
        },
    );
    push_remaining(&mut ix, &hrem);
    ix
}

pub fn close_position(authority: &Pubkey, receiver: &Pubkey, p: &PositionKeys) -> Ix {
    mk(
        wa::ClosePosition {
            position_authority: *authority,
            receiver: *receiver,
            position: p.position,
            position_mint: p.mint,
            position_token_account: p.token_account,
            token_program: tok(),
        },
        wi::ClosePosition {},
    )
}

pub fn close_position_with_token_extensions(authority: &Pubkey, receiver: &Pubkey, p: &PositionKeys) -> Ix {
    mk(
        wa::ClosePositionWithTokenExtensions {
            position_authority: *authority,
            receiver: *receiver,
            position: p.position,
            position_mint: p.mint,
            position_token_account: p.token_account,
            token_2022_program: tok22(),
        },
        wi::ClosePositionWithTokenExtensions {},
    )
}

pub fn set_fee_rate(config: &Pubkey, whirlpool: &Pubkey, fee_authority: &Pubkey, fee_rate: u16) -> Ix {
    mk(
        wa::SetFeeRate {
            whirlpools_config: *config,
            whirlpool: *whirlpool,
            fee_authority: *fee_authority,
        },
        wi::SetFeeRate { fee_rate },
    )
}

pub fn set_protocol_fee_rate(config: &Pubkey, whirlpool: &Pubkey, fee_authority: &Pubkey, rate: u16) -> Ix {
    mk(
        wa::SetProtocolFeeRate {
            whirlpools_config: *config,
            whirlpool: *whirlpool,
            fee_authority: *fee_authority,
        },
        wi::SetProtocolFeeRate {
            protocol_fee_rate: rate,
        },
    )
}
