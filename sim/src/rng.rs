//! One integer decides everything: xoshiro256** seeded through splitmix64.

#[derive(Clone, Debug)]
pub struct Rng {
    s: [u64; 4],
}

fn splitmix(x: &mut u64) -> u64 {
    *x = x.wrapping_add(0x9E3779B97F4A7C15);
    let mut z = *x;
    z = (z ^ (z >> 30)).wrapping_mul(0xBF58476D1CE4E5B9);
    z = (z ^ (z >> 27)).wrapping_mul(0x94D049BB133111EB);
    z ^ (z >> 31)
}

impl Rng {
    pub fn new(seed: u64) -> Rng {
        let mut x = seed;
        let s = [splitmix(&mut x), splitmix(&mut x), splitmix(&mut x), splitmix(&mut x)];
        Rng { s }
    }
    /// independent child stream
    pub fn fork(&mut self, tag: u64) -> Rng {
        let a = self.next_u64();
        Rng::new(a ^ tag.wrapping_mul(0xD1342543DE82EF95))
    }
    pub fn next_u64(&mut self) -> u64 {
        let r = self.s[1].wrapping_mul(5).rotate_left(7).wrapping_mul(9);
        let t = self.s[1] << 17;
        self.s[2] ^= self.s[0];
        self.s[3] ^= self.s[1];
        self.s[1] ^= self.s[2];
        self.s[0] ^= self.s[3];
        self.s[2] ^= t;
        self.s[3] = self.s[3].rotate_left(45);
        r
    }
    pub fn next_u128(&mut self) -> u128 {
        ((self.next_u64() as u128) << 64) | self.next_u64() as u128
    }
    /// uniform in [0, n)
    pub fn below(&mut self, n: u64) -> u64 {
        if n == 0 {
            return 0;
        }
        ((self.next_u64() as u128 * n as u128) >> 64) as u64
    }
    pub fn range(&mut self, lo: i64, hi: i64) -> i64 {
        // inclusive
        if hi <= lo {
            return lo;
        }
        lo + self.below((hi - lo + 1) as u64) as i64
    }
    pub fn chance(&mut self, num: u64, den: u64) -> bool {
        self.below(den) < num
    }
    pub fn pick<'a, T>(&mut self, xs: &'a [T]) -> &'a T {
        &xs[self.below(xs.len() as u64) as usize]
    }
    pub fn idx(&mut self, n: usize) -> usize {
        self.below(n as u64) as usize
    }
    pub fn bytes32(&mut self) -> [u8; 32] {
        let mut b = [0u8; 32];
        for i in 0..4 {
            b[i * 8..i * 8 + 8].copy_from_slice(&self.next_u64().to_le_bytes());
        }
        b
    }
    /// magnitude-uniform: pick a bit length then a value; good for "1 .. 2^100"
    pub fn log_u128(&mut self, max_bits: u32) -> u128 {
        let bits = 1 + self.below(max_bits as u64) as u32;
        let v = self.next_u128();
        let v = if bits >= 128 { v } else { v & ((1u128 << bits) - 1) };
        v | (1u128 << (bits - 1))
    }
    pub fn log_u64(&mut self, max_bits: u32) -> u64 {
        self.log_u128(max_bits.min(64)) as u64
    }
    pub fn shuffle<T>(&mut self, xs: &mut [T]) {
        for i in (1..xs.len()).rev() {
            let j = self.below(i as u64 + 1) as usize;
            xs.swap(i, j);
        }
    }
}
