//! Exact reference arithmetic (big integers / rationals), written from the property
//! statements, not from the program's code. Tick -> sqrt-price conversion is the one thing
//! taken from the program (trusted base, see DESIGN.md 2.5).

use num_bigint::{BigInt, BigUint};
use num_integer::Integer;
use num_traits::{One, ToPrimitive, Zero};

pub fn bu(x: u128) -> BigUint {
    BigUint::from(x)
}
pub fn bi(x: i128) -> BigInt {
    BigInt::from(x)
}
pub fn two64() -> BigUint {
    BigUint::one() << 64
}
pub fn two128() -> BigUint {
    BigUint::one() << 128
}

pub fn div_floor(n: &BigUint, d: &BigUint) -> BigUint {
    n / d
}
pub fn div_ceil(n: &BigUint, d: &BigUint) -> BigUint {
    let (q, r) = n.div_rem(d);
    if r.is_zero() {
        q
    } else {
        q + BigUint::one()
    }
}

pub fn sqrt_price_of_tick(t: i32) -> u128 {
    // (ticks beyond the protocol range - only a defective program stores them - are clamped: the program's own function
    // panics on them, and a panic here would be a harness error instead of a verdict)
    whirlpool::math::sqrt_price_from_tick_index(t.clamp(crate::decode::MIN_TICK, crate::decode::MAX_TICK))
}
pub fn tick_of_sqrt_price(p: u128) -> i32 {
    whirlpool::math::tick_index_from_sqrt_price(&p)
}

/// exact token A amount for liquidity L between sqrt prices lo < hi: L * 2^64 * (hi-lo) / (hi*lo)
pub fn amount_a(l: u128, lo: u128, hi: u128, round_up: bool) -> BigUint {
    let (lo, hi) = if lo <= hi { (lo, hi) } else { (hi, lo) };
    if lo == 0 {
        return BigUint::zero();
    }
    let n = bu(l) * two64() * bu(hi - lo);
    let d = bu(hi) * bu(lo);
    if round_up {
        div_ceil(&n, &d)
    } else {
        div_floor(&n, &d)
    }
}

/// exact token B amount: L * (hi-lo) / 2^64
pub fn amount_b(l: u128, lo: u128, hi: u128, round_up: bool) -> BigUint {
    let (lo, hi) = if lo <= hi { (lo, hi) } else { (hi, lo) };
    let n = bu(l) * bu(hi - lo);
    if round_up {
        div_ceil(&n, &two64())
    } else {
        div_floor(&n, &two64())
    }
}

/// Token amounts for changing liquidity `l` of a position [lower, upper) given the pool's
/// current tick and sqrt price: only A below the range, only B above, both inside.
pub fn liquidity_amounts(
    l: u128,
    tick_current: i32,
    sqrt_price: u128,
    lower: i32,
    upper: i32,
    round_up: bool,
) -> (BigUint, BigUint) {
    let pl = sqrt_price_of_tick(lower);
    let pu = sqrt_price_of_tick(upper);
    if tick_current < lower {
        (amount_a(l, pl, pu, round_up), BigUint::zero())
    } else if tick_current < upper {
        (
            amount_a(l, sqrt_price, pu, round_up),
            amount_b(l, pl, sqrt_price, round_up),
        )
    } else {
        (BigUint::zero(), amount_b(l, pl, pu, round_up))
    }
}

pub fn to_u64(x: &BigUint) -> Option<u64> {
    x.to_u64()
}
pub fn to_u128(x: &BigUint) -> Option<u128> {
    x.to_u128()
}

/// fee on a step that reached its target: ceil(in * r / (1e6 - r))
pub fn fee_for_amount_in(amount_in: u64, rate: u32) -> BigUint {
    let n = bu(amount_in as u128) * bu(rate as u128);
    let d = bu(1_000_000 - rate as u128);
    div_ceil(&n, &d)
}

pub fn protocol_share(fee: u64, protocol_fee_rate: u16) -> u64 {
    ((fee as u128) * (protocol_fee_rate as u128) / 10_000) as u64
}

/// growth increment floor(x * 2^64 / L)
pub fn growth_increment(lp_fee: u64, liquidity: u128) -> u128 {
    if liquidity == 0 {
        return 0;
    }
    let q: BigUint = (bu(lp_fee as u128) << 64usize) / bu(liquidity);
    // fits in u128 because lp_fee < 2^64
    let r: BigUint = q % two128();
    r.to_u128().unwrap()
}

/// exact rational as (numerator, denominator) BigUint pair, normalised lazily
#[derive(Clone, Debug)]
pub struct Ratio {
    pub n: BigUint,
    pub d: BigUint,
}

impl Ratio {
    pub fn zero() -> Ratio {
        Ratio {
            n: BigUint::zero(),
            d: BigUint::one(),
        }
    }
    pub fn new(n: BigUint, d: BigUint) -> Ratio {
        Ratio { n, d }
    }
    pub fn add(&mut self, n: &BigUint, d: &BigUint) {
        if n.is_zero() {
            return;
        }
        if self.d == *d {
            self.n += n;
        } else {
            self.n = &self.n * d + n * &self.d;
            self.d = &self.d * d;
            if self.d.bits() > 512 {
                let g = self.n.gcd(&self.d);
                if !g.is_one() {
                    self.n /= &g;
                    self.d /= &g;
                }
            }
        }
    }
    pub fn floor(&self) -> BigUint {
        &self.n / &self.d
    }
    pub fn ceil(&self) -> BigUint {
        div_ceil(&self.n, &self.d)
    }
    pub fn is_zero(&self) -> bool {
        self.n.is_zero()
    }
    /// self <= x ?
    pub fn le_int(&self, x: &BigUint) -> bool {
        self.n <= x * &self.d
    }
    /// self >= x ?
    pub fn ge_int(&self, x: &BigUint) -> bool {
        self.n >= x * &self.d
    }
}

/// Liquidity amounts whose exact token cost on [lower, upper) at the given price sits just above 2^64 or 2^128 (for
/// either token): a correct implementation refuses them; one that keeps only the low bits of a wide result sells a
/// huge liquidity for next to nothing.
pub fn limit_liquidities(tick_current: i32, sqrt_price: u128, lower: i32, upper: i32) -> Vec<u128> {
    let (pl, pu) = (sqrt_price_of_tick(lower), sqrt_price_of_tick(upper));
    if pl >= pu {
        return Vec::new(); // an inverted or empty range (only a defective program creates one) has no such liquidity
    }
    let pr = sqrt_price.clamp(pl, pu);
    let mut sides: Vec<(BigUint, BigUint)> = Vec::new();
    if tick_current < upper {
        let bot = if tick_current < lower { pl } else { pr };
        if pu > bot {
            sides.push((two64() * bu(pu - bot), bu(pu) * bu(bot)));
        }
    }
    if tick_current >= lower {
        let top = if tick_current < upper { pr } else { pu };
        if top > pl {
            sides.push((bu(top - pl), two64()));
        }
    }
    let mut out = Vec::new();
    for (n, d) in sides {
        for k in [bu(u64::MAX as u128), bu(u128::MAX)] {
            let base = (k * &d) / &n + BigUint::from(1u8);
            for extra in [BigUint::from(0u8), (&d / &n) * BigUint::from(1000u32) + BigUint::from(7u8)] {
                if let Some(v) = to_u128(&(&base + extra)) {
                    if v > 0 && v < (1u128 << 127) {
                        out.push(v);
                    }
                }
            }
        }
    }
    out
}
