//! Runner: one simulated run, batches over seeds on all cores, replay, minimisation,
//! evidence and replay files.

use crate::gen::{Gen, Profile};
use crate::rt::Ledger;
use crate::sim::{self, apply_event, Coverage, HEvent, Monitor, Violation};
use serde_json::{json, Value};
use std::collections::BTreeMap;
use std::sync::atomic::{AtomicBool, AtomicU64, Ordering};
use std::sync::{Arc, Mutex};
use std::time::Instant;

pub type MkMonitors = fn() -> Vec<Box<dyn Monitor>>;

pub struct CheckSpec {
    pub id: &'static str,
    pub profile: Profile,
    /// further world profiles; run i uses the (i mod n)-th of [profile] + more_profiles
    pub more_profiles: &'static [Profile],
    pub mk: MkMonitors,
    pub level: &'static str,
    pub rule: &'static str,
    pub quick_runs: u64,
    pub thorough_secs: u64,
    pub assumptions: &'static [&'static str],
    /// additional whole-run check (e.g. twin runs); its violations replay by seed, not by event list
    pub extra: Option<ExtraCheck>,
}

pub type ExtraCheck = fn(u64, Profile, bool, Option<usize>, &mut Coverage) -> Option<Violation>;

#[derive(Default)]
pub struct RunResult {
    pub violations: Vec<Violation>,
    pub history: Vec<HEvent>,
    pub cov: Coverage,
    pub faults: BTreeMap<&'static str, u64>,
    pub landed_ok: u64,
    pub landed_fail: u64,
    pub injected_cpi_fired: u64,
    pub sim_seconds: u64,
    pub log_hash: u64,
    /// violations listed in /verif/known_findings.json (they do not stop the run)
    pub known_hits: Vec<(KnownFinding, Violation)>,
}

fn fnv(h: &mut u64, bytes: &[u8]) {
    for b in bytes {
        *h ^= *b as u64;
        *h = h.wrapping_mul(0x100000001b3);
    }
}

pub fn ledger_digest(l: &Ledger) -> u64 {
    let mut h = 0xcbf29ce484222325u64;
    for (k, a) in l.accts.iter() {
        fnv(&mut h, k.as_ref());
        fnv(&mut h, &a.lamports.to_le_bytes());
        fnv(&mut h, a.owner.as_ref());
        fnv(&mut h, &a.data);
    }
    h
}

/// One simulated run: generate and apply events until the generator stops or a violation shows.
pub fn run_one(seed: u64, profile: Profile, thorough: bool, mk: MkMonitors, stop_on_violation: bool) -> RunResult {
    let (mut g, mut ledger) = Gen::new(seed, profile, thorough);
    let mut monitors = mk();
    let mut res = RunResult::default();
    let known = load_known_findings();
    res.log_hash = 0xcbf29ce484222325;
    for m in monitors.iter_mut() {
        m.on_genesis(&ledger, &mut res.cov);
    }
    for n in crate::world::GENESIS_NOTES.with(|g| std::mem::take(&mut *g.borrow_mut())) {
        res.cov.note(&n);
    }
    let mut idx = 0usize;
    while let Some(ev) = g.next_event(&ledger) {
        let (out, v) = apply_event(&mut ledger, idx, &ev, &mut monitors, &mut res.cov);
        fnv(&mut res.log_hash, sim::event_json(&ev).to_string().as_bytes());
        if let Some(o) = &out {
            if o.ok {
                res.landed_ok += 1;
            } else {
                res.landed_fail += 1;
            }
            if !o.ok {
                if let (sim::HEvent::Tx { tag, .. }, Some(io)) = (&ev, o.ix_outcomes.last()) {
                    let kind = tag.split(':').nth(1).unwrap_or("").split(' ').next().unwrap_or("");
                    res.cov.note(&format!("fail:{}:{:#x}{}", kind, io.code, io.detail.as_deref().map(|d| format!(" {}", d.chars().take(60).collect::<String>())).unwrap_or_default()));
                }
            }
            if o.ok {
                if let sim::HEvent::Tx { tx, .. } = &ev {
                    for i in &tx.ixs {
                        if let Some(c) = crate::wpix::decode(i) {
                            res.cov.probe(&format!("landed_ok: {}", c.name()));
                        }
                    }
                }
                if let sim::HEvent::Tx { tx, tag, .. } = &ev {
                    if tag.contains("saturate_tick_array") {
                        res.cov.probe("saturating_lp_transactions_landed");
                        for m in tx.ixs.iter().flat_map(|i| i.accounts.iter()) {
                            if let Some(Ok(t)) = ledger.data(&m.pubkey).map(crate::decode::tick_array) {
                                if t.ticks.iter().all(|x| x.initialized) {
                                    res.cov.probe(if t.dynamic { "tick_array_completely_full_dynamic" } else { "tick_array_completely_full_fixed" });
                                    break;
                                }
                            }
                        }
                    }
                }
            }
            for io in &o.ix_outcomes {
                fnv(&mut res.log_hash, &io.code.to_le_bytes());
                if o.ok {
                    let h = io.cpis.iter().filter(|c| c.program_id == crate::rt::hook_program_id()).count();
                    if h > 0 {
                        res.cov.probe_n("transfer_hook_invocations_in_landed_tx", h as u64);
                    }
                }
                if io.injected_fired {
                    res.injected_cpi_fired += 1;
                }
            }
        }
        res.history.push(ev);
        idx += 1;
        if !v.is_empty() {
            for x in v {
                match is_known(&known, &x) {
                    Some(k) => res.known_hits.push((k, x)),
                    None => res.violations.push(x),
                }
            }
            if stop_on_violation && !res.violations.is_empty() {
                break;
            }
        }
    }
    if res.violations.is_empty() {
        for m in monitors.iter_mut() {
            res.violations.extend(m.end_of_run(&ledger, &mut res.cov));
        }
    }
    fnv(&mut res.log_hash, &ledger_digest(&ledger).to_le_bytes());
    res.faults = g.stats.counts.clone();
    if res.injected_cpi_fired > 0 {
        res.faults.insert("cpi_failure_fired", res.injected_cpi_fired);
    }
    res.sim_seconds = g.sim_seconds;
    res
}

/// Replay an explicit event list on the genesis of (seed, profile, thorough).
pub fn replay_events(seed: u64, profile: Profile, thorough: bool, events: &[HEvent], mk: MkMonitors) -> Vec<Violation> {
    let known = load_known_findings();
    let (_g, mut ledger) = Gen::new(seed, profile, thorough);
    let mut monitors = mk();
    let mut cov = Coverage::default();
    for m in monitors.iter_mut() {
        m.on_genesis(&ledger, &mut cov);
    }
    let mut all = Vec::new();
    for (idx, ev) in events.iter().enumerate() {
        let (_o, v) = apply_event(&mut ledger, idx, ev, &mut monitors, &mut cov);
        // listed known findings neither stop a replay nor count as the violation being replayed / minimised
        let v: Vec<Violation> = v.into_iter().filter(|x| is_known(&known, x).is_none()).collect();
        if !v.is_empty() {
            all.extend(v);
            return all;
        }
    }
    for m in monitors.iter_mut() {
        all.extend(m.end_of_run(&ledger, &mut cov));
    }
    all
}

fn same_class(v: &[Violation], prop: &str, class: &str) -> bool {
    v.iter().any(|x| x.property == prop && x.class == class)
}

/// Delta-debugging over the event list; keeps a candidate only if the same violation class fires.
pub fn minimise(seed: u64, profile: Profile, thorough: bool, events: Vec<HEvent>, mk: MkMonitors, prop: &str, class: &str) -> Vec<HEvent> {
    let mut cur = events;
    let start = Instant::now();
    let mut attempts = 0;
    let mut chunk = (cur.len() / 2).max(1);
    let budget_ok = |attempts: u32| attempts < 800 && start.elapsed().as_secs() < 90;
    loop {
        let mut i = 0;
        let mut removed_any = false;
        while i < cur.len() && budget_ok(attempts) {
            let end = (i + chunk).min(cur.len());
            if end - i < cur.len() {
                let mut cand = cur.clone();
                cand.drain(i..end);
                attempts += 1;
                let v = replay_events(seed, profile, thorough, &cand, mk);
                if same_class(&v, prop, class) {
                    cur = cand;
                    removed_any = true;
                    continue;
                }
            }
            i = end;
        }
        if !budget_ok(attempts) {
            break;
        }
        if chunk == 1 {
            if !removed_any {
                break;
            }
        } else {
            chunk /= 2;
        }
    }
    // multi-instruction transactions: try dropping leading instructions
    cur
}

pub fn write_replay(path: &str, id: &str, seed: u64, profile: Profile, thorough: bool, events: &[HEvent], v: &Violation, original_len: usize) {
    let doc = json!({
        "property": id,
        "seed": seed,
        "profile": profile.name(),
        "thorough": thorough,
        "violation": {"property": v.property, "class": v.class, "detail": v.detail, "event_idx": v.event_idx},
        "original_events": original_len,
        "events": events.iter().map(sim::event_json).collect::<Vec<_>>(),
    });
    let _ = std::fs::create_dir_all(std::path::Path::new(path).parent().unwrap());
    std::fs::write(path, serde_json::to_string_pretty(&doc).unwrap()).expect("write replay");
}

pub struct ReplayDoc {
    pub mode_extra: bool,
    pub max_events: Option<usize>,
    pub property: String,
    pub seed: u64,
    pub profile: Profile,
    pub thorough: bool,
    pub class: String,
    pub events: Vec<HEvent>,
}

pub fn read_replay(path: &str) -> Option<ReplayDoc> {
    let s = std::fs::read_to_string(path).ok()?;
    let v: Value = serde_json::from_str(&s).ok()?;
    Some(ReplayDoc {
        mode_extra: v["mode"].as_str() == Some("extra"),
        max_events: v["max_events"].as_u64().map(|x| x as usize),
        property: v["property"].as_str()?.to_string(),
        seed: v["seed"].as_u64()?,
        profile: Profile::parse(v["profile"].as_str()?)?,
        thorough: v["thorough"].as_bool().unwrap_or(false),
        class: v["violation"]["class"].as_str().unwrap_or("").to_string(),
        events: v["events"].as_array()?.iter().filter_map(sim::json_event).collect(),
    })
}

// ---------------------------------------------------------------------------------------------
// known findings
// ---------------------------------------------------------------------------------------------

#[derive(Clone, Debug)]
pub struct KnownFinding {
    pub property: String,
    pub class: String,
    /// every one of these must occur in the violation's detail
    pub contains: Vec<String>,
    pub what: String,
}

/// output root for evidence/ and replays/ (default /verif; background soak runs set WPSIM_OUT)
pub fn out_root() -> String {
    std::env::var("WPSIM_OUT").unwrap_or_else(|_| "/verif".to_string())
}

pub fn load_known_findings() -> Vec<KnownFinding> {
    let Ok(s) = std::fs::read_to_string("/verif/known_findings.json") else {
        return Vec::new();
    };
    let Ok(v) = serde_json::from_str::<Value>(&s) else {
        return Vec::new();
    };
    v["findings"]
        .as_array()
        .map(|a| {
            a.iter()
                .filter(|f| f["status"].as_str() == Some("known"))
                .map(|f| KnownFinding {
                    property: f["property"].as_str().unwrap_or("").into(),
                    class: f["class"].as_str().unwrap_or("").into(),
                    contains: f["detail_contains"].as_array().map(|a| a.iter().filter_map(|x| x.as_str().map(|s| s.to_string())).collect()).unwrap_or_default(),
                    what: f["what"].as_str().unwrap_or("").into(),
                })
                .collect()
        })
        .unwrap_or_default()
}

pub fn is_known(k: &[KnownFinding], v: &Violation) -> Option<KnownFinding> {
    k.iter()
        .find(|f| f.property == v.property && f.class == v.class && !f.contains.is_empty() && f.contains.iter().all(|c| v.detail.contains(c.as_str())))
        .cloned()
}

// ---------------------------------------------------------------------------------------------
// batch
// ---------------------------------------------------------------------------------------------

/// run bound of the thorough tier per check (measured: CPU seconds per thorough run x 16 threads, sized for ~400 s)
pub fn thorough_runs(id: &str) -> u64 {
    match id {
        "C01" => 14_000,
        "C13" => 8_000,
        "C14" => 25_000,
        "C20" => 32_000,
        "C03" | "C16" | "C17" | "C10" | "C05" => 40_000,
        _ => 50_000,
    }
}

pub struct BatchOutcome {
    pub violations: Vec<(u64, Violation, String)>,
    pub known: Vec<(KnownFinding, u64)>,
}

pub fn run_batch(spec: &CheckSpec, thorough: bool, base_seed: u64, runs_override: Option<u64>, secs_override: Option<u64>) -> i32 {
    let t0 = Instant::now();
    let threads = std::thread::available_parallelism().map(|n| n.get()).unwrap_or(8).min(16);
    // The thorough tier is bounded by a fixed number of runs (about 6-7 minutes on 16 cores), so that it explores the
    // same seeds on every machine and at every load; the wall-clock cap is only a safety net. `--secs N` alone (soak
    // runs) lifts the run bound.
    let max_runs: u64 = runs_override.unwrap_or(if thorough {
        if secs_override.is_some() {
            u64::MAX
        } else {
            thorough_runs(spec.id)
        }
    } else {
        spec.quick_runs
    });
    let deadline_secs: u64 = secs_override.unwrap_or(if thorough { spec.thorough_secs } else { 600 });
    let next = Arc::new(AtomicU64::new(0));
    let stop = Arc::new(AtomicBool::new(false));
    #[allow(clippy::type_complexity)]
    let agg: Arc<Mutex<(Coverage, BTreeMap<&'static str, u64>, u64, u64, u64, u64, Vec<(u64, RunResult)>, BTreeMap<String, (KnownFinding, u64)>)>> =
        Arc::new(Mutex::new((Coverage::default(), BTreeMap::new(), 0, 0, 0, 0, Vec::new(), BTreeMap::new())));
    let mut profiles: Vec<Profile> = vec![spec.profile];
    profiles.extend_from_slice(spec.more_profiles);
    let mk = spec.mk;
    let extra = spec.extra;
    let panicked: Arc<Mutex<Vec<u64>>> = Arc::new(Mutex::new(Vec::new()));
    let mut handles = Vec::new();
    for _ in 0..threads {
        let panicked = panicked.clone();
        let next = next.clone();
        let stop = stop.clone();
        let agg = agg.clone();
        let profiles = profiles.clone();
        handles.push(
            std::thread::Builder::new()
                .stack_size(64 << 20)
                .spawn(move || {
                    let mut local_cov = Coverage::default();
                    let mut local_faults: BTreeMap<&'static str, u64> = BTreeMap::new();
                    let (mut ok, mut fail, mut runs, mut simsec) = (0u64, 0u64, 0u64, 0u64);
                    let mut bad: Vec<(u64, RunResult)> = Vec::new();
                    let mut local_known: BTreeMap<String, (KnownFinding, u64)> = BTreeMap::new();
                    loop {
                        if stop.load(Ordering::Relaxed) {
                            break;
                        }
                        let i = next.fetch_add(1, Ordering::Relaxed);
                        if i >= max_runs || t0.elapsed().as_secs() >= deadline_secs {
                            break;
                        }
                        let seed = base_seed.wrapping_add(i);
                        let profile = profiles[(i % profiles.len() as u64) as usize];
                        // a panic inside the simulator itself (not inside the program under test, which is caught at the
                        // instruction boundary) is a harness error of this run: remember the seed and go on, so that a
                        // violation found by another run is still reported
                        let mut r = match std::panic::catch_unwind(|| run_one(seed, profile, thorough, mk, true)) {
                            Ok(r) => r,
                            Err(_) => {
                                panicked.lock().unwrap().push(seed);
                                continue;
                            }
                        };
                        runs += 1;
                        ok += r.landed_ok;
                        fail += r.landed_fail;
                        simsec += r.sim_seconds;
                        for (k, v) in &r.faults {
                            *local_faults.entry(k).or_insert(0) += v;
                        }
                        if r.violations.is_empty() {
                            if let Some(x) = extra {
                                if let Some(v) = x(seed, profile, thorough, None, &mut r.cov) {
                                    r.violations.push(v);
                                }
                            }
                        }
                        local_cov.merge(std::mem::take(&mut r.cov));
                        for (k, _) in &r.known_hits {
                            local_known.entry(k.what.clone()).or_insert((k.clone(), 0)).1 += 1;
                        }
                        if !r.violations.is_empty() {
                            bad.push((seed, r));
                            if bad.len() >= 2 {
                                stop.store(true, Ordering::Relaxed);
                            }
                        }
                    }
                    let mut a = agg.lock().unwrap();
                    a.0.merge(local_cov);
                    for (k, v) in local_faults {
                        *a.1.entry(k).or_insert(0) += v;
                    }
                    a.2 += ok;
                    a.3 += fail;
                    a.4 += runs;
                    a.5 += simsec;
                    a.6.extend(bad);
                    for (w, (k, n)) in local_known {
                        a.7.entry(w).or_insert((k, 0)).1 += n;
                    }
                })
                .unwrap(),
        );
    }
    for h in handles {
        if h.join().is_err() {
            eprintln!("HARNESS ERROR: worker thread panicked");
            return 2;
        }
    }
    let mut a = agg.lock().unwrap();
    let (cov, faults, ok, fail, runs, simsec) = (a.0.clone(), a.1.clone(), a.2, a.3, a.4, a.5);
    let mut bad = std::mem::take(&mut a.6);
    let mut known_hits: BTreeMap<String, (KnownFinding, u64)> = std::mem::take(&mut a.7);
    drop(a);
    bad.sort_by_key(|(s, _)| *s);
    let known = load_known_findings();
    let mut exit = 0;
    let mut n_viol = 0;
    let mut reported: Vec<Value> = Vec::new();
    for (seed, r) in bad.iter().take(4) {
        let v = &r.violations[0];
        let profile = profiles[((seed.wrapping_sub(base_seed)) % profiles.len() as u64) as usize];
        if let Some(k) = is_known(&known, v) {
            known_hits.entry(k.what.clone()).or_insert((k, 0)).1 += 1;
            continue;
        }
        n_viol += 1;
        if v.class.starts_with("twin_") {
            // whole-run check: the replay file names the seed and the event bound; replay re-derives the runs
            let bound = v.event_idx + 1;
            let path = format!("{}/replays/{}-{}.json", out_root(), spec.id, seed);
            let doc = json!({"property": spec.id, "seed": seed, "profile": profile.name(), "thorough": thorough, "mode": "extra", "max_events": bound,
                "violation": {"property": v.property, "class": v.class, "detail": v.detail, "event_idx": v.event_idx}, "events": []});
            let _ = std::fs::create_dir_all(format!("{}/replays", out_root()));
            let _ = std::fs::write(&path, serde_json::to_string_pretty(&doc).unwrap());
            println!("VIOLATION property={} replay={}", spec.id, path);
            println!("  seed={} class={} (run truncated to {} events): {}", seed, v.class, bound, v.detail);
            reported.push(json!({"seed": seed, "class": v.class, "detail": v.detail, "replay": path}));
            exit = 1;
            continue;
        }
        // minimise + replay file
        let min = minimise(*seed, profile, thorough, r.history.clone(), mk, v.property, &v.class);
        let vv = replay_events(*seed, profile, thorough, &min, mk);
        let (events, viol) = match vv.iter().find(|x| x.property == v.property && x.class == v.class) {
            Some(x) => (min, x.clone()),
            None => (r.history.clone(), v.clone()),
        };
        let path = format!("{}/replays/{}-{}.json", out_root(), spec.id, seed);
        write_replay(&path, spec.id, *seed, profile, thorough, &events, &viol, r.history.len());
        println!("VIOLATION property={} replay={}", spec.id, path);
        println!("  seed={} class={} events={} (from {}): {}", seed, viol.class, events.len(), r.history.len(), viol.detail);
        reported.push(json!({"seed": seed, "class": viol.class, "detail": viol.detail, "replay": path}));
        exit = 1;
    }
    for (_, (k, n)) in &known_hits {
        println!("KNOWN-FINDING: property={} {} (seen in {} runs)", k.property, k.what, n);
    }
    let wall = t0.elapsed().as_secs_f64();
    let distinct = cov.distinct.len() as u64;
    let mut samples = cov.samples.clone();
    if samples.is_empty() {
        samples.push(json!({"note": "no non-vacuous obligation was evaluated in this run"}));
    }
    let zero_probes: Vec<&String> = cov.probes.iter().filter(|(_, v)| **v == 0).map(|(k, _)| k).collect();
    let evidence = json!({
        "property_id": spec.id,
        "tier": if thorough { "thorough" } else { "quick" },
        "seed": base_seed,
        "level": spec.level,
        "coverage": {
            "evaluations": cov.evaluations.max(0),
            "distinct_nontrivial": distinct,
            "rule": format!("{}{}", spec.rule.replace("HIST ", crate::HIST), rule_addenda(spec.id)),
            "samples": samples,
            "simulated_runs": runs,
            "seeds": format!("{}..{}", base_seed, base_seed.wrapping_add(runs)),
            "runs_per_hour": if wall > 0.0 { (runs as f64 / wall * 3600.0) as u64 } else { 0 },
            "landed_transactions_ok": ok,
            "landed_transactions_failed": fail,
            "simulated_seconds_covered": simsec,
            "faults_fired": faults.iter().map(|(k, v)| (k.to_string(), json!(v))).collect::<serde_json::Map<_, _>>(),
            "probes": cov.probes,
            "probes_stuck_at_zero": zero_probes,
            "observations": cov.notes,
            "components_real": ["whirlpool program (/repo working tree, real entrypoint + public handlers)", "spl-token 8.0.0", "spl-token-2022 8.0.1", "spl-associated-token-account 7.0.0", "spl-memo 6.0.0", "anchor-lang 0.32.1 / pinocchio 0.9.2 (host seams patched)"],
            "components_stub": ["runtime (loader buffer, CPI privilege rules, rent/lamport post-conditions)", "system program", "metaplex token-metadata", "transfer-hook program", "SBF VM / compute and heap limits (not simulated)"],
            "threads": threads,
            "profile": profiles.iter().map(|p| p.name()).collect::<Vec<_>>(),
            "violations_reported": reported,
            "known_findings_seen": known_hits.iter().map(|(w, (_, n))| json!({"what": w, "runs_or_hits": n})).collect::<Vec<_>>(),
        },
        "assumptions": spec.assumptions,
        "wall_s": wall,
        "violations": n_viol,
    });
    let _ = std::fs::create_dir_all(format!("{}/evidence", out_root()));
    let path = format!("{}/evidence/{}.json", out_root(), spec.id);
    if std::fs::write(&path, serde_json::to_string_pretty(&evidence).unwrap()).is_err() {
        eprintln!("HARNESS ERROR: cannot write {}", path);
        return 2;
    }
    println!(
        "{} {}: runs={} landed_ok={} landed_fail={} evaluations={} distinct={} wall={:.1}s violations={}",
        spec.id,
        if thorough { "thorough" } else { "quick" },
        runs,
        ok,
        fail,
        cov.evaluations,
        distinct,
        wall,
        n_viol
    );
    if runs == 0 {
        eprintln!("HARNESS ERROR: no run executed");
        return 2;
    }
    let mut p = panicked.lock().unwrap().clone();
    p.sort();
    if !p.is_empty() {
        eprintln!("HARNESS ERROR: the simulator panicked in {} run(s), seeds {:?}", p.len(), &p[..p.len().min(8)]);
        if exit == 0 {
            return 2;
        }
    }
    exit
}


/// what later rounds of seeded changes added to each check's rule (kept apart from the original rule texts in main.rs)
fn rule_addenda(id: &str) -> &'static str {
    match id {
        "C01" => " Added later: a drain step refused for any reason but a clock fault is a violation; integer-limit liquidity amounts; dust-lot round trips; Byzantine providers naming foreign / neighbouring tick arrays.",
        "C03" => " Added later: the rules also run in transfer-fee worlds; the current tick moves with the trade and stays the tick of the price; a v1 route never spends the trader's own intermediate tokens.",
        "C04" => " Added later: frame-condition monitor (settings / authorities / position claims change only under the recorded authority's signature; identity fields never); third-party delegates, parked tokens, rival config + pool pairs, cross-account neighbouring roles, near-miss keys; accounts are born with the authorities their creator named.",
        "C05" => " Added later: the tick arrays of a pool tile the tick axis; the keeper creates arrays at any start; the life-cycle LP funds whatever range it managed to open or reset to.",
        "C06" => " Added later: a step is never accepted as split-as-configured above the documented protocol-fee cap.",
        "C07" => " Added later: shares are measured against the in-range total of the position accounts (the statement's denominator).",
        "C08" => " Added later: by-token-amounts deposits at the price edges of the range and at the maxima where the one-sided liquidity reaches 2^64 / 2^128; deposits with the pool on a protocol price bound; chosen fractional parts of the token-B cost; liquidity x price distance at 2^128 / 2^192; the Anchor implementation compared on Token-2022 pools; reposition forks with a zero net transfer.",
        "C10" => " Added later: read-only arrays, the other encoding of the same content, the neighbouring array of the same pool, duplicated slice types.",
        "C11" => " Added later: an initialised reward index keeps its mint and vault; clocks that read a negative time; the legacy-pool migration may change nothing but the repurposed fields.",
        "C12" => " Added later: reposition compared with its Anchor decomposition; zero-length slices in the remaining-accounts description.",
        "C13" => " Added later: accessor-level sequences on raw buffers through hook H3 (four array kinds side by side).",
        "C14" => " Added later: the fee taken on a step follows its rate; constants satisfy the validity rules, change only through a call naming their pool and restart the variables; read-only oracle forks; high-frequency chain runs; an oracle is born without a past; lamports at an oracle address must not block trading.",
        "C15" => " Added later: frame-condition monitor (no tick array / position / oracle / lock record of another pool changes); one more account appended to fully named calls; routes that do not chain; duplicated slice types; v1 forms on Token-2022 pools; all tick-array slots of a swap filled with foreign empty accounts.",
        "C16" => " Added later: mints that also carry badge-gated extensions (close authority, permanent delegate, default account state) in either order.",
        "C17" => " Added later: cyclic routes; a trader one unit short; fee-aware decomposition of refused routes in transfer-fee / hook worlds; any refusal of the program's own needs a reason the single swaps would have met too; duplicated slice types.",
        "C18" => " Added later: bundle invariants after every transaction; wrapping addition amounts, a small deposit through the frozen account and a second empty unfrozen account in the locked-position probe; mismatched bundle indexes; bundle deletion with full bitmaps on copies; no use of a position closed earlier in the same transaction.",
        "C19" => " Added later: setters echo their arguments; accumulator x group size at 2^32; group sizes dividing related quantities; bare 82-byte Token-2022 mints, dangling TLV tails, native mints; rewards over the pool's own mints.",
        "C20" => " Added later: tick math sampled over the whole range; liquidity quotes at the u64 edge; amount-delta functions compared at extreme magnitudes on reached prices; SDK calls under a deadline; quotes over the SDK helper's five arrays; every fourth executed adaptive-fee swap repeated (program and SDK) on a copy whose adaptive-fee reference lies at the far end of the tick range or either side of the distance where reference + distance x 10 000 passes 2^32.",
        _ => "",
    }
}
