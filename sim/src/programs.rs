//! Program dispatch for everything that is not the Whirlpool program itself.
//! Real code: SPL Token, Token-2022, Associated Token Account, Memo.
//! Stubs (written here): System program, Metaplex token-metadata, transfer-hook program.

use crate::rt::{hook_program_id, metaplex_program_id, system_program_id, with_ctx};
use solana_program::account_info::AccountInfo;
use solana_program::entrypoint::ProgramResult;
use solana_program::program_error::ProgramError;
use solana_program::pubkey::Pubkey;

pub fn process(program_id: &Pubkey, accounts: &[AccountInfo], data: &[u8]) -> Option<ProgramResult> {
    if *program_id == spl_token::ID {
        Some(spl_token::processor::Processor::process(program_id, accounts, data))
    } else if *program_id == spl_token_2022::ID {
        Some(spl_token_2022::processor::Processor::process(program_id, accounts, data))
    } else if *program_id == spl_associated_token_account::ID {
        Some(spl_associated_token_account::processor::process_instruction(
            program_id, accounts, data,
        ))
    } else if *program_id == spl_memo::ID {
        Some(spl_memo::processor::process_instruction(program_id, accounts, data))
    } else if *program_id == system_program_id() {
        Some(system_program(accounts, data))
    } else if *program_id == metaplex_program_id() {
        Some(metaplex_stub(accounts, data))
    } else if *program_id == hook_program_id() {
        Some(hook_stub(accounts, data))
    } else {
        None
    }
}

const MAX_PERMITTED_DATA_LENGTH: u64 = 10 * 1024 * 1024;

fn rd_u64(d: &[u8], off: usize) -> Result<u64, ProgramError> {
    d.get(off..off + 8)
        .map(|s| u64::from_le_bytes(s.try_into().unwrap()))
        .ok_or(ProgramError::InvalidInstructionData)
}
fn rd_key(d: &[u8], off: usize) -> Result<Pubkey, ProgramError> {
    d.get(off..off + 32)
        .map(|s| Pubkey::new_from_array(s.try_into().unwrap()))
        .ok_or(ProgramError::InvalidInstructionData)
}

fn sys_allocate(acct: &AccountInfo, space: u64) -> ProgramResult {
    if !acct.is_signer {
        return Err(ProgramError::MissingRequiredSignature);
    }
    if !acct.data_is_empty() || *acct.owner != system_program_id() {
        return Err(ProgramError::Custom(0)); // AccountAlreadyInUse
    }
    if space > MAX_PERMITTED_DATA_LENGTH {
        return Err(ProgramError::Custom(3)); // InvalidAccountDataLength
    }
    #[allow(deprecated)]
    acct.realloc(space as usize, true)
}

fn sys_assign(acct: &AccountInfo, owner: &Pubkey) -> ProgramResult {
    if *acct.owner == *owner {
        return Ok(());
    }
    if !acct.is_signer {
        return Err(ProgramError::MissingRequiredSignature);
    }
    if *acct.owner != system_program_id() {
        return Err(ProgramError::InvalidAccountOwner);
    }
    acct.assign(owner);
    Ok(())
}

fn sys_transfer(from: &AccountInfo, to: &AccountInfo, lamports: u64) -> ProgramResult {
    if !from.is_signer {
        return Err(ProgramError::MissingRequiredSignature);
    }
    if !from.data_is_empty() {
        return Err(ProgramError::InvalidArgument);
    }
    if *from.owner != system_program_id() {
        return Err(ProgramError::Custom(0xdead_0010));
    }
    if from.lamports() < lamports {
        return Err(ProgramError::Custom(1)); // ResultWithNegativeLamports
    }
    if !from.is_writable || !to.is_writable {
        return Err(ProgramError::Custom(0xdead_0011));
    }
    if from.key == to.key {
        return Ok(());
    }
    **from.try_borrow_mut_lamports()? -= lamports;
    let mut tl = to.try_borrow_mut_lamports()?;
    **tl = tl.checked_add(lamports).ok_or(ProgramError::ArithmeticOverflow)?;
    Ok(())
}

/// System program stub: CreateAccount, Assign, Transfer, Allocate (bincode encoding).
fn system_program(accounts: &[AccountInfo], data: &[u8]) -> ProgramResult {
    if data.len() < 4 {
        return Err(ProgramError::InvalidInstructionData);
    }
    let tag = u32::from_le_bytes(data[0..4].try_into().unwrap());
    let r = system_program_inner(tag, accounts, data);
    if r.is_err() && std::env::var("WPSIM_DEBUG_FAILS").is_ok() {
        eprintln!("DEBUG system program tag={} data={:?} accounts={:?} -> {:?}", tag, &data[4..], accounts.iter().map(|a| (a.key.to_string(), a.lamports(), a.data_len(), a.is_signer, a.is_writable)).collect::<Vec<_>>(), r);
    }
    r
}

fn system_program_inner(tag: u32, accounts: &[AccountInfo], data: &[u8]) -> ProgramResult {
    match tag {
        0 => {
            let lamports = rd_u64(data, 4)?;
            let space = rd_u64(data, 12)?;
            let owner = rd_key(data, 20)?;
            let from = accounts.first().ok_or(ProgramError::NotEnoughAccountKeys)?;
            let to = accounts.get(1).ok_or(ProgramError::NotEnoughAccountKeys)?;
            if to.lamports() > 0 {
                return Err(ProgramError::Custom(0)); // AccountAlreadyInUse
            }
            sys_allocate(to, space)?;
            sys_assign(to, &owner)?;
            sys_transfer(from, to, lamports)
        }
        1 => {
            let owner = rd_key(data, 4)?;
            let a = accounts.first().ok_or(ProgramError::NotEnoughAccountKeys)?;
            sys_assign(a, &owner)
        }
        2 => {
            let lamports = rd_u64(data, 4)?;
            let from = accounts.first().ok_or(ProgramError::NotEnoughAccountKeys)?;
            let to = accounts.get(1).ok_or(ProgramError::NotEnoughAccountKeys)?;
            sys_transfer(from, to, lamports)
        }
        8 => {
            let space = rd_u64(data, 4)?;
            let a = accounts.first().ok_or(ProgramError::NotEnoughAccountKeys)?;
            sys_allocate(a, space)
        }
        _ => Err(ProgramError::InvalidInstructionData),
    }
}

pub const METADATA_LEN: usize = 607;

/// Metaplex token-metadata stub: the program is not available offline. CreateMetadataAccountV3
/// (33) creates an opaque program-owned account at the canonical PDA, paid by the payer;
/// UpdateMetadataAccountV2 (15) requires the update authority's signature and is otherwise a no-op.
fn metaplex_stub(accounts: &[AccountInfo], data: &[u8]) -> ProgramResult {
    let tag = *data.first().ok_or(ProgramError::InvalidInstructionData)?;
    let mpl = metaplex_program_id();
    match tag {
        33 => {
            // metadata, mint, mint_authority(s), payer(s,w), update_authority, system_program, [rent]
            if accounts.len() < 6 {
                return Err(ProgramError::NotEnoughAccountKeys);
            }
            let (metadata, mint, mint_auth, payer, upd) =
                (&accounts[0], &accounts[1], &accounts[2], &accounts[3], &accounts[4]);
            let (pda, _) = Pubkey::find_program_address(
                &[b"metadata", mpl.as_ref(), mint.key.as_ref()],
                &mpl,
            );
            if pda != *metadata.key {
                return Err(ProgramError::InvalidSeeds);
            }
            if !mint_auth.is_signer || !payer.is_signer {
                return Err(ProgramError::MissingRequiredSignature);
            }
            if metadata.lamports() != 0 || !metadata.data_is_empty() {
                return Err(ProgramError::AccountAlreadyInitialized);
            }
            let rent = with_ctx(|c| c.rent).minimum_balance(METADATA_LEN);
            if payer.lamports() < rent {
                return Err(ProgramError::InsufficientFunds);
            }
            **payer.try_borrow_mut_lamports()? -= rent;
            **metadata.try_borrow_mut_lamports()? += rent;
            #[allow(deprecated)]
            metadata.realloc(METADATA_LEN, true)?;
            metadata.assign(&mpl);
            let mut d = metadata.try_borrow_mut_data()?;
            d[0] = 4; // Key::MetadataV1
            d[1..33].copy_from_slice(upd.key.as_ref());
            d[33..65].copy_from_slice(mint.key.as_ref());
            Ok(())
        }
        15 => {
            if accounts.len() < 2 {
                return Err(ProgramError::NotEnoughAccountKeys);
            }
            if !accounts[1].is_signer {
                return Err(ProgramError::MissingRequiredSignature);
            }
            Ok(())
        }
        _ => Err(ProgramError::InvalidInstructionData),
    }
}

/// Transfer-hook stub: records the call; fails when the simulator says so.
fn hook_stub(_accounts: &[AccountInfo], _data: &[u8]) -> ProgramResult {
    let fail = with_ctx(|c| {
        c.hook_calls += 1;
        c.hook_fail
    });
    if fail {
        Err(ProgramError::Custom(0x4007))
    } else {
        Ok(())
    }
}
