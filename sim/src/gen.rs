//! Workload generator: world bootstrap (genesis), actors, discrete-event scheduler with
//! fault injection. Produces history events one at a time; every choice derives from one seed.

use crate::decode::{self, MAX_SQRT_PRICE, MAX_TICK, MIN_SQRT_PRICE, MIN_TICK};
use crate::ix::{self, LiqAccounts, PoolKeys, PositionKeys, SwapAccounts, SwapArgs};
use crate::model;
use crate::rng::Rng;
use crate::rt::{self, ClockState, Ix, Ledger, RentParams, Tx};
use crate::sim::HEvent;
use crate::world::{self, new_key};
use solana_program::pubkey::Pubkey;
use std::cmp::Reverse;
use std::collections::{BTreeMap, BinaryHeap};

#[derive(Clone, Copy, Debug, PartialEq, Eq)]
pub enum Profile {
    Core,
    Rewards,
    Adaptive,
    T22,
    TwoHop,
    Lifecycle,
    Admin,
    Byz,
}

impl Profile {
    pub fn parse(s: &str) -> Option<Profile> {
        Some(match s {
            "core" => Profile::Core,
            "rewards" => Profile::Rewards,
            "adaptive" => Profile::Adaptive,
            "t22" => Profile::T22,
            "twohop" => Profile::TwoHop,
            "lifecycle" => Profile::Lifecycle,
            "admin" => Profile::Admin,
            "byz" => Profile::Byz,
            _ => return None,
        })
    }
    pub fn name(&self) -> &'static str {
        match self {
            Profile::Core => "core",
            Profile::Rewards => "rewards",
            Profile::Adaptive => "adaptive",
            Profile::T22 => "t22",
            Profile::TwoHop => "twohop",
            Profile::Lifecycle => "lifecycle",
            Profile::Admin => "admin",
            Profile::Byz => "byz",
        }
    }
}

/// 0 = fixed, 1 = dynamic, 2 = mixed (per-array coin)
#[derive(Clone, Debug)]
pub struct Knobs {
    pub profile: Profile,
    pub array_kind: u8,
    pub n_pools: usize,
    pub n_lps: usize,
    pub n_traders: usize,
    pub max_events: usize,
    pub liq_bits: u32,
    pub swap_bits: u32,
    // fault rates in percent (0 = kind disabled for this run)
    pub drop_pct: u64,
    pub dup_pct: u64,
    pub burst_pct: u64,
    pub cpi_fail_pct: u64,
    pub crash_pct: u64,
    pub stall_pct: u64,
    pub clock_stall_pct: u64,
    pub clock_jump_pct: u64,
    pub clock_back_pct: u64,
    pub fast_forward: bool,
    pub non_default_rent: bool,
    pub slots_per_epoch: u64,
    pub spacing_choices: Vec<u16>,
    /// percentage of pools created from an adaptive fee tier
    pub adaptive_pct: u64,
    /// Rewards profile: tiny liquidity + huge emissions + year-long clock jumps, so that reward
    /// growth accumulators reach the top bits / wrap by legitimate accrual
    pub extreme_rewards: bool,
    /// one LP keeps filling every slot of one tick array (container-full boundary)
    pub saturate_array: bool,
    /// a Byzantine liquidity provider takes part in the history
    pub attacker: bool,
    /// only the v2 instructions (needed for Token-2022 mints)
    pub v2_only: bool,
    /// percentage of Token-2022 mints that carry a transfer hook
    pub hook_pct: u64,
    pub has_rewards: bool,
    pub has_admin: bool,
    /// share of LP wake-ups that follow the life-cycle plan (legal and illegal transitions)
    pub lifecycle_pct: u64,
}

#[derive(Clone, Debug, Default)]
pub struct FaultStats {
    pub counts: BTreeMap<&'static str, u64>,
}
impl FaultStats {
    pub fn hit(&mut self, k: &'static str) {
        *self.counts.entry(k).or_insert(0) += 1;
    }
}

#[derive(Clone, Copy, Debug, PartialEq, Eq)]
pub enum Role {
    Lp,
    Trader,
    Keeper,
    FeeAuth,
    Collector,
    Router,
    RewardAuth,
    MintAuth,
    Admin,
    Creator,
    /// Byzantine liquidity provider (crafted account lists)
    Attacker,
}

#[derive(Clone, Debug)]
pub struct Actor {
    pub id: usize,
    pub role: Role,
    pub wallet: Pubkey,
    /// mint -> token account
    pub tokens: BTreeMap<Pubkey, Pubkey>,
    pub rng: Rng,
}

#[derive(Clone, Debug)]
pub struct PoolInfo {
    pub keys: PoolKeys,
    pub adaptive: bool,
}

#[derive(Clone, Debug)]
pub struct MintInfo {
    pub key: Pubkey,
    pub program: Pubkey,
    pub authority: Pubkey,
}

pub struct World {
    /// reward mints (authority = reward_super wallet)
    pub reward_mints: Vec<MintInfo>,
    pub payer: Pubkey,
    pub config: Pubkey,
    pub fee_authority: Pubkey,
    pub collector: Pubkey,
    pub reward_super: Pubkey,
    pub mints: Vec<MintInfo>,
    pub pools: Vec<PoolInfo>,
    pub actors: Vec<Actor>,
}

enum Ev {
    Wake(usize),
    Land {
        tx: Tx,
        tag: String,
        fail_cpi: Option<(usize, usize)>,
        dup_left: u8,
    },
}

struct QItem {
    at: u64,
    seq: u64,
    ev: Ev,
}
impl PartialEq for QItem {
    fn eq(&self, o: &Self) -> bool {
        self.at == o.at && self.seq == o.seq
    }
}
impl Eq for QItem {}
impl PartialOrd for QItem {
    fn partial_cmp(&self, o: &Self) -> Option<std::cmp::Ordering> {
        Some(self.cmp(o))
    }
}
impl Ord for QItem {
    fn cmp(&self, o: &Self) -> std::cmp::Ordering {
        (self.at, self.seq).cmp(&(o.at, o.seq))
    }
}

pub struct Gen {
    pub seed: u64,
    pub knobs: Knobs,
    pub w: World,
    pub rent: RentParams,
    pub rng: Rng,
    queue: BinaryHeap<Reverse<QItem>>,
    seq: u64,
    pub now_ms: u64,
    pub clock_base: ClockState,
    /// offset applied to unix_timestamp by clock faults (seconds)
    pub ts_offset: i64,
    stall_until_ms: u64,
    stall_ts: i64,
    back_until_ms: u64,
    back_by: i64,
    pub emitted: usize,
    pub stats: FaultStats,
    pub sim_seconds: u64,
    salt_ctr: u64,
    pending_patches: Vec<HEvent>,
}

thread_local! {
    /// raw events (e.g. fabricated accounts) an actor wants applied before its next transaction
    pub static RAW_EVENTS: std::cell::RefCell<Vec<HEvent>> = const { std::cell::RefCell::new(Vec::new()) };
}

/// one adaptive-world run in three is a "high-frequency chain" run (decided by a hash of the seed, so that it does not
/// line up with the round-robin of world profiles)
pub fn hf_seed(seed: u64) -> bool {
    (seed.wrapping_mul(0x9E37_79B9_7F4A_7C15) >> 40) % 3 == 0
}

pub fn floor_div(a: i32, b: i32) -> i32 {
    a.div_euclid(b)
}
pub fn ta_start(tick: i32, spacing: u16) -> i32 {
    let n = 88 * spacing as i32;
    floor_div(tick, n) * n
}
pub fn min_usable(spacing: u16) -> i32 {
    MIN_TICK / spacing as i32 * spacing as i32
}
pub fn max_usable(spacing: u16) -> i32 {
    MAX_TICK / spacing as i32 * spacing as i32
}
pub fn full_range_only(spacing: u16) -> bool {
    spacing >= 32768
}

thread_local! {
    /// set per run from the knobs: only v2 instructions are generated (Token-2022 worlds)
    pub static V2_ONLY: std::cell::Cell<bool> = const { std::cell::Cell::new(false) };
}

thread_local! {
    /// adaptive-fee worlds, one run in three: "high-frequency chain" run (see maybe_boundary_clock)
    pub static HF_RUN: std::cell::Cell<bool> = const { std::cell::Cell::new(false) };
}

thread_local! {
    /// twin runs (C13): force the tick-array encoding without disturbing the PRNG stream
    pub static FORCE_ARRAY_KIND: std::cell::Cell<Option<u8>> = const { std::cell::Cell::new(None) };
}

pub fn make_knobs(profile: Profile, rng: &mut Rng, thorough: bool) -> Knobs {
    let pct = |rng: &mut Rng, enabled_num: u64, lo: u64, hi: u64| -> u64 {
        if rng.chance(enabled_num, 10) {
            rng.range(lo as i64, hi as i64) as u64
        } else {
            0
        }
    };
    let mut k = Knobs {
        profile,
        array_kind: rng.below(3) as u8,
        n_pools: 1 + rng.below(2) as usize,
        n_lps: 2 + rng.below(3) as usize,
        n_traders: 2 + rng.below(2) as usize,
        max_events: if thorough {
            60 + rng.below(240) as usize
        } else {
            40 + rng.below(120) as usize
        },
        liq_bits: *rng.pick(&[24u32, 40, 40, 64, 64, 90, 100]),
        swap_bits: *rng.pick(&[20u32, 32, 40, 50, 62]),
        drop_pct: pct(rng, 5, 1, 10),
        dup_pct: pct(rng, 5, 2, 15),
        burst_pct: pct(rng, 5, 5, 40),
        cpi_fail_pct: pct(rng, 4, 1, 6),
        crash_pct: pct(rng, 5, 5, 30),
        stall_pct: pct(rng, 3, 2, 10),
        clock_stall_pct: 0,
        clock_jump_pct: 0,
        clock_back_pct: 0,
        fast_forward: rng.chance(1, 4),
        non_default_rent: rng.chance(1, 5),
        slots_per_epoch: 432_000,
        spacing_choices: vec![1, 2, 4, 8, 64, 128, 32768],
        adaptive_pct: 0,
        extreme_rewards: false,
        v2_only: false,
        hook_pct: 0,
        saturate_array: false,
        attacker: false,
        has_rewards: profile == Profile::Rewards || profile == Profile::Byz || profile == Profile::Lifecycle,
        has_admin: profile == Profile::Admin || profile == Profile::Byz,
        lifecycle_pct: match profile {
            Profile::Lifecycle => 75,
            Profile::Byz => 40,
            _ => 0,
        },
    };
    if let Some(kd) = FORCE_ARRAY_KIND.with(|c| c.get()) {
        k.array_kind = kd;
    }
    if matches!(profile, Profile::Core | Profile::Rewards | Profile::Lifecycle | Profile::TwoHop) {
        k.saturate_array = rng.chance(1, 8);
    }
    if !matches!(profile, Profile::Admin) {
        k.attacker = rng.chance(1, 2);
    }
    match profile {
        Profile::Rewards => {
            k.extreme_rewards = rng.chance(1, 3);
            if k.extreme_rewards {
                k.liq_bits = *rng.pick(&[1u32, 2, 3, 5, 8]);
                k.swap_bits = 12;
            }
            k.clock_stall_pct = pct(rng, 5, 2, 10);
            k.clock_jump_pct = pct(rng, 6, 2, 10);
            k.clock_back_pct = pct(rng, 4, 1, 6);
            if k.extreme_rewards && k.clock_jump_pct > 0 {
                k.clock_jump_pct = 25;
            }
        }
        Profile::T22 => {
            k.v2_only = true;
            k.n_pools = *rng.pick(&[1usize, 2, 2, 3]);
            k.hook_pct = *rng.pick(&[0u64, 0, 30, 60]);
            k.spacing_choices = vec![1, 8, 64, 128];
            k.slots_per_epoch = *rng.pick(&[8u64, 20, 50, 432_000]);
            k.clock_jump_pct = pct(rng, 4, 2, 8);
        }
        Profile::Adaptive => {
            k.adaptive_pct = 100;
            k.clock_stall_pct = pct(rng, 5, 2, 10);
            k.clock_jump_pct = pct(rng, 6, 2, 10);
            k.clock_back_pct = pct(rng, 4, 1, 6);
        }
        Profile::Byz => {
            k.n_pools = 2 + rng.below(2) as usize;
            k.n_lps = 3;
            k.n_traders = 2;
            k.adaptive_pct = 50;
            k.cpi_fail_pct = 0;
            k.drop_pct = 0;
        }
        Profile::Admin => {
            k.n_lps = 2;
            k.n_traders = 2;
            k.adaptive_pct = 50;
        }
        Profile::Lifecycle => {
            k.n_lps = 3;
            k.n_traders = 1;
            // both full-range-only spacings: exactly the threshold and above it
            k.spacing_choices = vec![1, 8, 64, 128, 32768, 32896];
            // some life-cycle worlds on adaptive-fee pools (their fee tier index differs from the tick spacing)
            k.adaptive_pct = *rng.pick(&[0u64, 0, 50, 100]);
        }
        Profile::TwoHop => {
            k.adaptive_pct = *rng.pick(&[0u64, 0, 40, 100]);
            k.has_rewards = rng.chance(1, 2);
            k.n_pools = *rng.pick(&[3usize, 4]);
            k.n_lps = 3;
            k.spacing_choices = vec![1, 8, 64, 64, 128, 32768];
        }
        _ => {}
    }
    k
}

impl Gen {
    fn push(&mut self, at: u64, ev: Ev) {
        self.seq += 1;
        self.queue.push(Reverse(QItem {
            at,
            seq: self.seq,
            ev,
        }));
    }

    pub fn clock_now(&self) -> ClockState {
        let mut c = self.clock_base;
        let slots = self.now_ms / 400;
        c.slot += slots;
        let ep_adv = (self.clock_base.slot % self.knobs.slots_per_epoch + slots) / self.knobs.slots_per_epoch;
        c.epoch += ep_adv;
        c.leader_schedule_epoch = c.epoch + 1;
        let mut ts = self.clock_base.unix_timestamp + (self.now_ms / 1000) as i64 + self.ts_offset;
        if self.now_ms < self.stall_until_ms {
            ts = self.stall_ts;
        }
        if self.now_ms < self.back_until_ms {
            ts -= self.back_by;
        }
        c.unix_timestamp = ts;
        c
    }

    /// Build the world and genesis ledger for (seed, profile). Deterministic.
    pub fn new(seed: u64, profile: Profile, thorough: bool) -> (Gen, Ledger) {
        rt::install_stubs();
        let mut rng = Rng::new(seed ^ 0x5157_5053_494d_0001);
        let knobs = make_knobs(profile, &mut rng, thorough);
        HF_RUN.with(|c| c.set(profile == Profile::Adaptive && hf_seed(seed)));
        V2_ONLY.with(|c| c.set(knobs.v2_only));
        ix::HOOK_MINTS.with(|h| h.borrow_mut().clear());
        let rent = if knobs.non_default_rent {
            RentParams {
                lamports_per_byte_year: *rng.pick(&[1000u64, 3480, 5000]),
                exemption_threshold: *rng.pick(&[1.0f64, 2.0, 3.0]),
                burn_percent: 50,
            }
        } else {
            RentParams::default()
        };
        let clock_base = ClockState {
            slot: 200_000_000 + rng.below(1_000_000),
            epoch_start_timestamp: 1_700_000_000,
            epoch: 500 + rng.below(100),
            leader_schedule_epoch: 0,
            unix_timestamp: 1_700_000_000 + rng.below(100_000_000) as i64,
        };
        rt::with_ctx(|c| {
            c.rent = rent;
            c.clock = clock_base;
        });
        let mut l = world::base_ledger(&rent);
        let payer = world::ADMIN0;
        world::fund(&mut l, &payer, 1u64 << 60);
        let config = new_key(&mut rng);
        let fee_authority = new_key(&mut rng);
        let collector = new_key(&mut rng);
        let reward_super = new_key(&mut rng);
        for k in [&fee_authority, &collector, &reward_super] {
            world::fund(&mut l, k, 1u64 << 40);
        }
        let default_protocol_fee_rate = *rng.pick(&[0u16, 300, 1000, 2500]);
        world::must(
            &mut l,
            vec![ix::initialize_config(
                &config,
                &payer,
                &fee_authority,
                &collector,
                &reward_super,
                default_protocol_fee_rate,
            )],
            "initialize_config",
        );
        // mints (plain SPL), sorted so that pools can use consecutive pairs
        let n_mints = if knobs.n_pools >= 2 { 3 } else { 2 };
        let mut mint_keys: Vec<Pubkey> = (0..n_mints).map(|_| new_key(&mut rng)).collect();
        mint_keys.sort();
        let mut mints = Vec::new();
        let mint_authority = new_key(&mut rng);
        world::fund(&mut l, &mint_authority, 1u64 << 40);
        for (mi, mk) in mint_keys.iter().enumerate() {
            if knobs.profile == Profile::T22 && (mi == 0 || rng.chance(2, 3)) {
                let fee = if mi == 0 || rng.chance(3, 4) {
                    Some((
                        *rng.pick(&[0u16, 1, 30, 100, 500, 5000, 9999, 10000]),
                        *rng.pick(&[0u64, 10, 1_000_000, 1_000_000_000_000, u64::MAX]),
                    ))
                } else {
                    None
                };
                // transfer hook (simulator's hook program, needs a token badge) on some mints
                let hook = rng.chance(knobs.hook_pct, 100);
                // extension list order is initialisation order, not type order: sometimes a high-numbered extension comes first
                let meta_ptr = *rng.pick(&[0u8, 0, 1, 2, 3, 4, 5, 6]);
                // one Token-2022 mint in four also carries some of the extensions that need a token badge (close authority,
                // permanent delegate, default account state), before or after the others
                let extras: u8 = if rng.chance(1, 4) { 1 + rng.below(7) as u8 + 8 * rng.below(2) as u8 } else { 0 };
                // a hook mint in four has given up one of the extension's two keys: the authority (the hook stays), or the
                // program (the extension stays, nothing is called)
                let extras = if hook && rng.chance(1, 4) { extras | if rng.chance(1, 2) { 16 } else { 32 } } else { extras };
                let hook_called = hook && extras & 32 == 0;
                world::create_mint_2022_badged(&mut l, &payer, mk, &mint_authority, 6, fee, None, hook, meta_ptr, extras);
                if hook || extras != 0 {
                    let ce = ix::pda_config_extension(&config);
                    if !l.exists(&ce) {
                        world::must(
                            &mut l,
                            vec![
                                ix::mk(
                                    whirlpool::accounts::InitializeConfigExtension { config, config_extension: ce, funder: payer, fee_authority, system_program: ix::sys() },
                                    whirlpool::instruction::InitializeConfigExtension {},
                                ),
                                ix::mk(
                                    whirlpool::accounts::SetConfigFeatureFlag { whirlpools_config: config, authority: payer },
                                    whirlpool::instruction::SetConfigFeatureFlag { feature_flag: whirlpool::state::ConfigFeatureFlag::TokenBadge(true) },
                                ),
                            ],
                            "config extension",
                        );
                    }
                    world::must(
                        &mut l,
                        vec![ix::mk(
                            whirlpool::accounts::InitializeTokenBadge {
                                whirlpools_config: config,
                                whirlpools_config_extension: ce,
                                token_badge_authority: fee_authority,
                                token_mint: *mk,
                                token_badge: ix::pda_token_badge(&config, mk),
                                funder: payer,
                                system_program: ix::sys(),
                            },
                            whirlpool::instruction::InitializeTokenBadge {},
                        )],
                        "initialize_token_badge",
                    );
                    if hook_called {
                        ix::HOOK_MINTS.with(|h| {
                            h.borrow_mut().insert(*mk, vec![world::hook_validation_address(mk), rt::hook_program_id()]);
                        });
                    }
                }
                mints.push(MintInfo { key: *mk, program: ix::tok22(), authority: mint_authority });
            } else {
                world::create_mint(&mut l, &payer, mk, &mint_authority, 6, None);
                mints.push(MintInfo { key: *mk, program: ix::tok(), authority: mint_authority });
            }
        }
        // pools
        let mut pools = Vec::new();
        let mut used_tiers: Vec<u16> = Vec::new();
        'pools: for p in 0..knobs.n_pools {
            let spacing = *rng.pick(&knobs.spacing_choices);
            let (ma, mb) = if p == 0 || p == 3 {
                // (a fourth pool is a second pool of the first pair - another fee tier: cyclic two-hop routes)
                (mint_keys[0], mint_keys[1])
            } else if p == 1 {
                (mint_keys[1], mint_keys[2])
            } else {
                (mint_keys[0], mint_keys[2])
            };
            if !used_tiers.contains(&spacing) {
                let fee = *rng.pick(&[0u16, 1, 100, 3000, 10000, 30000, 60000]);
                world::must(
                    &mut l,
                    vec![ix::initialize_fee_tier(&config, &payer, &fee_authority, spacing, fee)],
                    "initialize_fee_tier",
                );
                used_tiers.push(spacing);
            }
            let whirlpool = ix::pda_whirlpool(&config, &ma, &mb, spacing);
            if l.exists(&whirlpool) {
                continue;
            }
            let keys = PoolKeys {
                config,
                whirlpool,
                mint_a: ma,
                mint_b: mb,
                vault_a: new_key(&mut rng),
                vault_b: new_key(&mut rng),
                prog_a: mints.iter().find(|m| m.key == ma).map(|m| m.program).unwrap_or(ix::tok()),
                prog_b: mints.iter().find(|m| m.key == mb).map(|m| m.program).unwrap_or(ix::tok()),
                tick_spacing: spacing,
                fee_tier_index: spacing,
                oracle: ix::pda_oracle(&whirlpool),
            };
            let price = pick_start_price(&mut rng, spacing);
            let adaptive = knobs.adaptive_pct > 0 && rng.chance(knobs.adaptive_pct, 100);
            if adaptive {
                'ad: {
                let (tier_index, c) = crate::gen2::pick_adaptive_constants(&mut rng, spacing, p as u16);
                let permissioned = rng.chance(1, 3);
                let pool_auth = if permissioned { payer } else { Pubkey::default() };
                let base_fee = *rng.pick(&[0u16, 100, 3000, 10000, 60000]);
                let tier = ix::pda_fee_tier(&config, tier_index);
                if !world::attempt(
                    &mut l,
                    vec![ix::mk(
                        whirlpool::accounts::InitializeAdaptiveFeeTier {
                            whirlpools_config: config,
                            adaptive_fee_tier: tier,
                            funder: payer,
                            fee_authority,
                            system_program: ix::sys(),
                        },
                        whirlpool::instruction::InitializeAdaptiveFeeTier {
                            fee_tier_index: tier_index,
                            tick_spacing: spacing,
                            initialize_pool_authority: pool_auth,
                            // (one tier in three has no delegated fee authority: the two "nobody" markers vary independently)
                            delegated_fee_authority: if rng.chance(1, 3) { Pubkey::default() } else { fee_authority },
                            default_base_fee_rate: base_fee,
                            filter_period: c.filter_period,
                            decay_period: c.decay_period,
                            reduction_factor: c.reduction_factor,
                            adaptive_fee_control_factor: c.adaptive_fee_control_factor,
                            max_volatility_accumulator: c.max_volatility_accumulator,
                            tick_group_size: c.tick_group_size,
                            major_swap_threshold_ticks: c.major_swap_threshold_ticks,
                        },
                    )],
                    "initialize_adaptive_fee_tier",
                ) {
                    // the program refuses this tier: the pool becomes an ordinary one (recorded as an observation)
                    break 'ad;
                }
                let whirlpool = ix::pda_whirlpool(&config, &ma, &mb, tier_index);
                let keys = PoolKeys {
                    whirlpool,
                    fee_tier_index: tier_index,
                    oracle: ix::pda_oracle(&whirlpool),
                    ..keys
                };
                let enable = if permissioned && rng.chance(1, 2) {
                    Some((clock_base.unix_timestamp as u64) + rng.below(240))
                } else {
                    None
                };
                world::must(
                    &mut l,
                    vec![ix::mk(
                        whirlpool::accounts::InitializePoolWithAdaptiveFee {
                            whirlpools_config: config,
                            token_mint_a: ma,
                            token_mint_b: mb,
                            token_badge_a: ix::pda_token_badge(&config, &ma),
                            token_badge_b: ix::pda_token_badge(&config, &mb),
                            funder: payer,
                            initialize_pool_authority: payer,
                            whirlpool,
                            oracle: keys.oracle,
                            token_vault_a: keys.vault_a,
                            token_vault_b: keys.vault_b,
                            adaptive_fee_tier: tier,
                            token_program_a: keys.prog_a,
                            token_program_b: keys.prog_b,
                            system_program: ix::sys(),
                            rent: ix::rent_sysvar(),
                        },
                        whirlpool::instruction::InitializePoolWithAdaptiveFee {
                            initial_sqrt_price: price,
                            trade_enable_timestamp: enable,
                        },
                    )],
                    "initialize_pool_with_adaptive_fee",
                );
                pools.push(PoolInfo { keys, adaptive: true });
                continue 'pools;
                }
            }
            let use_v2 = rng.chance(1, 2) || knobs.v2_only;
            let ixn = if use_v2 {
                ix::initialize_pool_v2(&keys, &payer, price)
            } else {
                ix::initialize_pool(&keys, &payer, price)
            };
            world::must(&mut l, vec![ixn], "initialize_pool");
            pools.push(PoolInfo {
                keys,
                adaptive: false,
            });
        }
        // actors
        let mut actors = Vec::new();
        let mut roles: Vec<Role> = Vec::new();
        for _ in 0..knobs.n_lps {
            roles.push(Role::Lp);
        }
        for _ in 0..knobs.n_traders {
            roles.push(Role::Trader);
        }
        roles.push(Role::Keeper);
        if pools.len() >= 2 {
            roles.push(Role::Router);
        }
        if knobs.attacker {
            roles.push(Role::Attacker);
        }
        // reward mints (Rewards profile): authority is the reward super authority's wallet
        let mut reward_mints: Vec<MintInfo> = Vec::new();
        if knobs.has_rewards {
            for _ in 0..3 {
                let mk = new_key(&mut rng);
                world::create_mint(&mut l, &payer, &mk, &reward_super, 6, None);
                reward_mints.push(MintInfo { key: mk, program: ix::tok(), authority: reward_super });
            }
        }
        for (id, role) in roles.iter().enumerate() {
            let wallet = new_key(&mut rng);
            world::fund(&mut l, &wallet, 1u64 << 44);
            let mut tokens = BTreeMap::new();
            for m in &mints {
                let ta = new_key(&mut rng);
                world::create_token_account_any(&mut l, &payer, &ta, &m.key, &wallet);
                world::mint_to(&mut l, &m.program, &m.key, &ta, &m.authority, 1u64 << 58);
                tokens.insert(m.key, ta);
            }
            if *role == Role::Lp || *role == Role::Attacker {
                for m in &reward_mints {
                    let ta = new_key(&mut rng);
                    world::create_token_account(&mut l, &payer, &ta, &m.key, &wallet);
                    tokens.insert(m.key, ta);
                }
            }
            let arng = rng.fork(id as u64 + 1);
            actors.push(Actor {
                id,
                role: *role,
                wallet,
                tokens,
                rng: arng,
            });
        }
        if knobs.has_admin && rng.chance(3, 4) {
            world::must(
                &mut l,
                vec![
                    ix::mk(
                        whirlpool::accounts::InitializeConfigExtension { config, config_extension: ix::pda_config_extension(&config), funder: payer, fee_authority, system_program: ix::sys() },
                        whirlpool::instruction::InitializeConfigExtension {},
                    ),
                    ix::mk(
                        whirlpool::accounts::SetConfigFeatureFlag { whirlpools_config: config, authority: payer },
                        whirlpool::instruction::SetConfigFeatureFlag { feature_flag: whirlpool::state::ConfigFeatureFlag::TokenBadge(true) },
                    ),
                ],
                "config extension + badge feature",
            );
        }
        // the fee authority and the collector act through their own wallets
        let mut special = vec![(Role::FeeAuth, fee_authority), (Role::Collector, collector)];
        if knobs.has_rewards {
            special.push((Role::RewardAuth, reward_super));
        }
        if knobs.profile == Profile::T22 {
            special.push((Role::MintAuth, mint_authority));
        }
        if knobs.has_admin {
            special.push((Role::Admin, fee_authority));
            special.push((Role::Creator, payer));
        }
        for (role, wallet) in special {
            let id = actors.len();
            let mut tokens = BTreeMap::new();
            if role == Role::Collector {
                for m in &mints {
                    let ta = new_key(&mut rng);
                    world::create_token_account_any(&mut l, &payer, &ta, &m.key, &wallet);
                    tokens.insert(m.key, ta);
                }
            }
            let arng = rng.fork(id as u64 + 1);
            actors.push(Actor {
                id,
                role,
                wallet,
                tokens,
                rng: arng,
            });
        }
        let w = World {
            reward_mints,
            payer,
            config,
            fee_authority,
            collector,
            reward_super,
            mints,
            pools,
            actors,
        };
        let mut g = Gen {
            seed,
            knobs,
            w,
            rent,
            rng,
            queue: BinaryHeap::new(),
            seq: 0,
            now_ms: 0,
            clock_base,
            ts_offset: 0,
            stall_until_ms: 0,
            stall_ts: 0,
            back_until_ms: 0,
            back_by: 0,
            emitted: 0,
            stats: FaultStats::default(),
            sim_seconds: 0,
            salt_ctr: 0,
            pending_patches: Vec::new(),
        };
        // state fast-forward: global fee accumulators start just below wrap-around
        if g.knobs.fast_forward {
            for p in g.w.pools.clone() {
                for off in [decode::POOL_OFF_FEE_GROWTH_A, decode::POOL_OFF_FEE_GROWTH_B] {
                    let v: u128 = match g.rng.below(3) {
                        0 => u128::MAX - g.rng.below(1 << 40) as u128,
                        1 => u128::MAX - (g.rng.next_u64() as u128) * (1u128 << 20),
                        _ => g.rng.next_u128(),
                    };
                    g.pending_patches.push(HEvent::Patch {
                        key: p.keys.whirlpool,
                        offset: off,
                        bytes: v.to_le_bytes().to_vec(),
                        tag: "fast-forward fee growth".into(),
                    });
                    g.stats.hit("state_fast_forward");
                }
            }
        }
        for i in 0..g.w.actors.len() {
            let at = match g.w.actors[i].role {
                Role::Lp => g.rng.below(800),
                Role::RewardAuth => g.rng.below(400),
                Role::MintAuth => g.rng.below(4000),
                Role::Admin | Role::Creator => g.rng.below(1500),
                _ => 1500 + g.rng.below(4000),
            };
            g.push(at, Ev::Wake(i));
        }
        (g, l)
    }

    /// Next history event, or None when the run is over.
    pub fn next_event(&mut self, ledger: &Ledger) -> Option<HEvent> {
        if let Some(p) = self.pending_patches.pop() {
            return Some(p);
        }
        loop {
            if self.emitted >= self.knobs.max_events {
                return None;
            }
            let Reverse(item) = self.queue.pop()?;
            if item.at > self.now_ms {
                self.now_ms = item.at;
            }
            self.sim_seconds = self.now_ms / 1000;
            match item.ev {
                Ev::Wake(id) => {
                    self.wake(id, ledger);
                }
                Ev::Land {
                    tx,
                    tag,
                    fail_cpi,
                    dup_left,
                } => {
                    self.maybe_clock_fault();
                    self.maybe_boundary_clock(&tx, ledger);
                    let clock = self.clock_now();
                    if dup_left > 0 {
                        // client retry: the same transaction lands again later
                        let d = 200 + self.rng.below(20_000);
                        self.stats.hit("duplicate");
                        let tx2 = tx.clone();
                        let tag2 = format!("{} (dup)", tag);
                        self.push(
                            self.now_ms + d,
                            Ev::Land {
                                tx: tx2,
                                tag: tag2,
                                fail_cpi: None,
                                dup_left: dup_left - 1,
                            },
                        );
                    }
                    self.emitted += 1;
                    self.salt_ctr += 1;
                    return Some(HEvent::Tx {
                        tx,
                        clock,
                        fail_cpi,
                        salt: self.seed.wrapping_mul(0x9E3779B97F4A7C15) ^ self.salt_ctr,
                        tag,
                    });
                }
            }
        }
    }

    /// clock fault aimed at the adaptive-fee time windows: land a swap exactly at
    /// (last reference update | last major swap) + {filter, decay, 3600} -1 / +0 / +1 seconds
    fn maybe_boundary_clock(&mut self, tx: &Tx, ledger: &Ledger) {
        if self.knobs.profile != Profile::Adaptive || self.knobs.clock_jump_pct == 0 {
            return;
        }
        let hf_run = hf_seed(self.seed);
        if !self.rng.chance(1, 5) && !(hf_run && self.rng.chance(4, 5)) {
            return;
        }
        let Some(c) = tx.ixs.first().and_then(crate::wpix::decode) else { return };
        if !matches!(c.name(), "swap" | "swap_v2") {
            return;
        }
        let Some(o) = ledger.data(&c.a("oracle")).and_then(decode::oracle) else { return };
        let now = self.clock_now().unix_timestamp;
        // high-frequency chain (one run in three of this kind): every swap lands filter - 1 seconds after the later of the
        // last reference update and the last major swap, so that a chain of major swaps keeps the pool inside the filter
        // window while its reference grows older than an hour
        if hf_seed(self.seed) && o.c.filter_period > 1 {
            // (half a filter period after the base, once per base: the following swaps land naturally, seconds later and still
            // inside the window, until one of them is a major swap and becomes the new base)
            let base = o.v.last_reference_update_timestamp.max(o.v.last_major_swap_timestamp) as i64;
            let target = base + (o.c.filter_period as i64 / 2).max(1);
            if target > now && target - now < 100_000 {
                self.ts_offset += target - now;
                self.stats.hit("clock_jump_high_frequency_chain");
            }
            return;
        }
        // a pool whose trading opens in the future: land the swap in the very second it opens (or one second either side)
        if o.trade_enable_timestamp as i64 > now && (o.trade_enable_timestamp as i64 - now) < 1_000_000 && self.rng.chance(1, 2) {
            self.ts_offset += o.trade_enable_timestamp as i64 - now + self.rng.range(-1, 1);
            self.stats.hit("clock_jump_to_the_trade_enable_time");
            return;
        }
        let base = if self.rng.chance(1, 2) {
            o.v.last_reference_update_timestamp
        } else {
            o.v.last_reference_update_timestamp.max(o.v.last_major_swap_timestamp)
        } as i64;
        let w = *self.rng.pick(&[o.c.filter_period as i64, o.c.decay_period as i64, 3600]);
        let target = base + w + self.rng.range(-1, 1);
        if target > now && target - now < 100_000 {
            self.ts_offset += target - now;
            self.stats.hit("clock_jump_to_window_boundary");
        }
    }

    fn maybe_clock_fault(&mut self) {
        let k = &self.knobs;
        if k.clock_stall_pct > 0 && self.rng.chance(k.clock_stall_pct, 100) && self.now_ms >= self.stall_until_ms {
            self.stall_ts = self.clock_now().unix_timestamp;
            let dur = 1000 * (1 + self.rng.below(30));
            self.stall_until_ms = self.now_ms + dur;
            // after the stall the clock resumes from where it would have been
            self.stats.hit("clock_stall");
        }
        if k.clock_jump_pct > 0 && self.rng.chance(k.clock_jump_pct, 100) && !HF_RUN.with(|c| c.get()) {
            // extreme-reward worlds: years (interval products beyond 128 bits: the documented carve-out) and hours (products
            // just below 2^128 at the highest rates: the accumulator itself climbs to the top and wraps)
            let sel = if self.knobs.extreme_rewards && self.rng.chance(1, 2) { 4 + self.rng.below(3) } else { self.rng.below(8) };
            let sel = if sel == 6 && self.knobs.extreme_rewards { 8 } else { sel };
            let j: i64 = match sel {
                8 => (1i64 << (13 + self.rng.below(5))) + self.rng.below(64) as i64,
                0 => 1,
                1 => 59 + self.rng.below(3) as i64,
                2 => 3599 + self.rng.below(3) as i64,
                3 => 86_400,
                4 => 86_400 * 365,
                5 => 86_400 * 365 * 30,
                6 => self.rng.below(1000) as i64,
                _ => self.rng.below(1_000_000) as i64,
            };
            self.ts_offset += j;
            self.stats.hit("clock_jump");
        }
        if k.clock_back_pct > 0 && self.rng.chance(k.clock_back_pct, 100) && self.now_ms >= self.back_until_ms {
            self.back_by = 1 + self.rng.below(600) as i64;
            self.back_until_ms = self.now_ms + 1000 * (1 + self.rng.below(20));
            self.stats.hit("clock_back_step");
            // one back-step in ten goes to before the epoch: the clock reads a negative time for a while
            if self.rng.chance(1, 10) {
                let now = self.clock_now().unix_timestamp + self.back_by;
                self.back_by = now.saturating_add(*self.rng.pick(&[1i64, 2, 86_400, 1 << 31, 1 << 40]));
                self.stats.hit("clock_reads_a_negative_time");
            }
        }
    }

    /// schedule a flow of transactions planned now
    fn send_flow(&mut self, actor: usize, flow: Vec<(Tx, String)>) {
        let mut t = self.now_ms;
        let k = self.knobs.clone();
        let n = flow.len();
        let stalled = k.stall_pct > 0 && self.rng.chance(k.stall_pct, 100);
        if stalled {
            self.stats.hit("actor_stall");
        }
        for (i, (tx, tag)) in flow.into_iter().enumerate() {
            // crash: abandon the rest of the flow
            if i > 0 && k.crash_pct > 0 && self.rng.chance(k.crash_pct, 100) {
                self.stats.hit("actor_crash");
                break;
            }
            let burst = k.burst_pct > 0 && self.rng.chance(k.burst_pct, 100);
            let mut delay = if burst {
                self.stats.hit("burst");
                self.rng.below(50)
            } else {
                200 + self.rng.below(8_000)
            };
            if stalled {
                delay += 60_000 + self.rng.below(3_600_000);
            }
            self.stats.hit("delay_reorder");
            t += delay;
            if k.drop_pct > 0 && self.rng.chance(k.drop_pct, 100) {
                self.stats.hit("drop");
                continue;
            }
            let dup_left = if k.dup_pct > 0 && self.rng.chance(k.dup_pct, 100) {
                1
            } else {
                0
            };
            let fail_cpi = if k.cpi_fail_pct > 0 && self.rng.chance(k.cpi_fail_pct, 100) {
                self.stats.hit("cpi_failure_planned");
                let ii = self.rng.idx(tx.ixs.len().max(1));
                let kth = self.rng.below(4) as usize;
                // twin runs (fixed vs dynamic arrays): the two array initialisers make different numbers of inner calls
                // (e.g. on a pre-funded address), so "the k-th inner call fails" is not the same fault in both worlds
                let twin = FORCE_ARRAY_KIND.with(|c| c.get()).is_some();
                let is_array_init = tx.ixs.get(ii).and_then(crate::wpix::decode).map(|c| matches!(c.name(), "initialize_tick_array" | "initialize_dynamic_tick_array")).unwrap_or(false);
                if twin && is_array_init {
                    None
                } else {
                    Some((ii, kth))
                }
            } else {
                None
            };
            let _ = n;
            self.push(
                t,
                Ev::Land {
                    tx,
                    tag: format!("a{}:{}", actor, tag),
                    fail_cpi,
                    dup_left,
                },
            );
        }
    }

    fn wake(&mut self, id: usize, ledger: &Ledger) {
        let mut actor = self.w.actors[id].clone();
        let flow = match actor.role {
            Role::Lp => {
                if self.knobs.lifecycle_pct > 0 && actor.rng.chance(self.knobs.lifecycle_pct, 100) {
                    crate::gen3::plan_lifecycle_lp(&self.w, &self.knobs, &mut actor, ledger)
                } else {
                    plan_lp(&self.w, &self.knobs, &mut actor, ledger)
                }
            }
            Role::Trader => plan_trader(&self.w, &self.knobs, &mut actor, ledger),
            Role::Keeper => plan_keeper(&self.w, &mut actor, ledger),
            Role::FeeAuth => plan_fee_auth(&self.w, &mut actor, ledger),
            Role::Collector => plan_collector(&self.w, &mut actor, ledger),
            Role::Router => crate::gen2::plan_router(&self.w, &self.knobs, &mut actor, ledger),
            Role::RewardAuth => crate::gen2::plan_reward_auth(&self.w, &self.knobs, &mut actor, ledger),
            Role::MintAuth => crate::gen2::plan_mint_auth(&self.w, &self.knobs, &mut actor, ledger),
            Role::Admin => crate::gen4::plan_admin(&self.w, &self.knobs, &mut actor, ledger),
            Role::Creator => crate::gen4::plan_creator(&self.w, &self.knobs, &mut actor, ledger, self.clock_now().unix_timestamp),
            Role::Attacker => crate::gen5::plan_attacker(&self.w, &self.knobs, &mut actor, ledger),
        };
        self.w.actors[id].rng = actor.rng;
        let raw: Vec<HEvent> = RAW_EVENTS.with(|r| std::mem::take(&mut *r.borrow_mut()));
        for e in raw.into_iter().rev() {
            self.pending_patches.push(e);
        }
        // one LP / trader flow in ten of two to five transactions is sent as ONE transaction (open + arrays + deposit, withdraw
        // + collect + close, two swaps in a row ...): later instructions run on what the earlier ones left, and what an earlier
        // instruction emptied still exists with zero lamports until the transaction ends
        let flow = if matches!(actor.role, Role::Lp | Role::Trader) && (2..=5).contains(&flow.len()) && !HF_RUN.with(|c| c.get()) && FORCE_ARRAY_KIND.with(|c| c.get()).is_none() && self.rng.chance(1, 10) {
            let tags: Vec<String> = flow.iter().map(|(_, t)| t.clone()).collect();
            let mut ixs: Vec<rt::Ix> = flow.into_iter().flat_map(|(t, _)| t.ixs).collect();
            // (an account is writable / a signer for the whole transaction if any of its instructions says so: the flags are
            // made explicit in every instruction, so that an instruction replayed alone sees what it saw in the transaction)
            let writable: std::collections::BTreeSet<Pubkey> = ixs.iter().flat_map(|i| i.accounts.iter()).filter(|m| m.is_writable).map(|m| m.pubkey).collect();
            let signers: std::collections::BTreeSet<Pubkey> = ixs.iter().flat_map(|i| i.accounts.iter()).filter(|m| m.is_signer).map(|m| m.pubkey).collect();
            for i in ixs.iter_mut() {
                for m in i.accounts.iter_mut() {
                    m.is_writable |= writable.contains(&m.pubkey);
                    m.is_signer |= signers.contains(&m.pubkey);
                }
            }
            self.stats.hit("flow_sent_as_one_transaction");
            vec![(Tx { ixs }, format!("{} (one transaction)", tags.join(" + ")))]
        } else {
            flow
        };
        if !flow.is_empty() {
            self.send_flow(id, flow);
        }
        let saturating = self.knobs.saturate_array && actor.role == Role::Lp && self.w.actors.iter().find(|a| a.role == Role::Lp).map(|a| a.id == actor.id).unwrap_or(false);
        let next = match actor.role {
            Role::Lp if saturating => 300 + self.rng.below(1_500),
            Role::Lp => 1_000 + self.rng.below(20_000),
            Role::Trader => 300 + self.rng.below(6_000),
            Role::Router => 1_000 + self.rng.below(10_000),
            Role::Keeper => 2_000 + self.rng.below(20_000),
            Role::FeeAuth => 10_000 + self.rng.below(60_000),
            Role::Collector => 10_000 + self.rng.below(60_000),
            Role::RewardAuth => 1_000 + self.rng.below(12_000),
            Role::MintAuth => 2_000 + self.rng.below(15_000),
            Role::Admin => 500 + self.rng.below(5_000),
            Role::Creator => 500 + self.rng.below(5_000),
            Role::Attacker => 800 + self.rng.below(8_000),
        };
        self.push(self.now_ms + next, Ev::Wake(id));
    }
}

pub fn pick_start_price(rng: &mut Rng, spacing: u16) -> u128 {
    match rng.below(24) {
        0 => MIN_SQRT_PRICE,
        1 => MAX_SQRT_PRICE,
        2 => MIN_SQRT_PRICE + rng.below(1000) as u128,
        3 => MAX_SQRT_PRICE - rng.below(1000) as u128,
        4..=8 => {
            // exactly on a usable tick
            let sp = spacing as i32;
            let t = rng.range(-3000, 3000) as i32 * sp;
            model::sqrt_price_of_tick(t.clamp(min_usable(spacing), max_usable(spacing)))
        }
        9 | 10 => model::sqrt_price_of_tick(rng.range(MIN_TICK as i64, MAX_TICK as i64) as i32),
        _ => {
            let t = rng.range(-200_000, 200_000) as i32;
            let p = model::sqrt_price_of_tick(t);
            let q = model::sqrt_price_of_tick(t + 1);
            p + (rng.next_u128() % (q - p).max(1))
        }
    }
}

// ---------------------------------------------------------------------------------------------
// views
// ---------------------------------------------------------------------------------------------

/// positions held by a wallet (found from the ledger only)
pub fn my_positions(l: &Ledger, wallet: &Pubkey) -> Vec<(PositionKeys, decode::Position)> {
    let mut v = Vec::new();
    for (k, a) in l.accts.iter() {
        let is_tok = a.owner == ix::tok();
        let is_t22 = a.owner == ix::tok22();
        if !(is_tok || is_t22) || a.data.len() < 165 {
            continue;
        }
        if a.data[32..64] != wallet.to_bytes() {
            continue;
        }
        let Some(t) = decode::token_account(&a.data) else {
            continue;
        };
        if t.amount != 1 {
            continue;
        }
        let pos_key = ix::pda_position(&t.mint);
        if let Some(p) = l.data(&pos_key).and_then(decode::position) {
            v.push((
                PositionKeys {
                    position: pos_key,
                    mint: t.mint,
                    token_account: *k,
                    owner: *wallet,
                    nft_program: a.owner,
                },
                p,
            ));
        }
    }
    v
}

/// positions whose token account names `wallet` as delegate (any delegated amount)
pub fn delegated_positions(l: &Ledger, wallet: &Pubkey) -> Vec<(PositionKeys, decode::Position)> {
    let mut v = Vec::new();
    for (k, a) in l.accts.iter() {
        if !(a.owner == ix::tok() || a.owner == ix::tok22()) || a.data.len() < 165 {
            continue;
        }
        if a.data[72..76] != 1u32.to_le_bytes() || a.data[76..108] != wallet.to_bytes() {
            continue;
        }
        let Some(t) = decode::token_account(&a.data) else { continue };
        if t.amount != 1 {
            continue;
        }
        let pos_key = ix::pda_position(&t.mint);
        if let Some(p) = l.data(&pos_key).and_then(decode::position) {
            v.push((PositionKeys { position: pos_key, mint: t.mint, token_account: *k, owner: t.owner, nft_program: a.owner }, p));
        }
    }
    v
}

pub fn pool_of<'a>(w: &'a World, whirlpool: &Pubkey) -> Option<&'a PoolInfo> {
    w.pools.iter().find(|p| p.keys.whirlpool == *whirlpool)
}

pub fn liq_accounts(actor: &Actor, pool: &PoolKeys, pk: &PositionKeys, p: &decode::Position) -> LiqAccounts {
    LiqAccounts {
        pool: pool.clone(),
        authority: actor.wallet,
        position: pk.position,
        position_token_account: pk.token_account,
        owner_a: actor.tokens.get(&pool.mint_a).cloned().unwrap_or_default(),
        owner_b: actor.tokens.get(&pool.mint_b).cloned().unwrap_or_default(),
        ta_lower: ix::pda_tick_array(&pool.whirlpool, ta_start(p.lower, pool.tick_spacing)),
        ta_upper: ix::pda_tick_array(&pool.whirlpool, ta_start(p.upper, pool.tick_spacing)),
    }
}

pub fn init_array_ix(knobs: &Knobs, rng: &mut Rng, whirlpool: &Pubkey, funder: &Pubkey, start: i32) -> Ix {
    // always draw both coins so that runs differing only in array_kind consume the same stream
    let coin = rng.chance(1, 2);
    let idem_coin = rng.chance(1, 2);
    let twin = FORCE_ARRAY_KIND.with(|c| c.get()).is_some();
    let dynamic = match knobs.array_kind {
        0 => false,
        1 => true,
        _ => coin,
    };
    if dynamic {
        ix::initialize_dynamic_tick_array(whirlpool, funder, start, idem_coin && !twin)
    } else {
        ix::initialize_tick_array(whirlpool, funder, start)
    }
}

pub fn swap_tick_arrays(pool: &decode::Pool, whirlpool: &Pubkey, a_to_b: bool) -> [Pubkey; 3] {
    let sp = pool.tick_spacing;
    let n = 88 * sp as i32;
    let base = ta_start(pool.tick_current_index, sp);
    let offs: [i32; 3] = if a_to_b {
        [0, -1, -2]
    } else if pool.tick_current_index + sp as i32 >= base + n {
        [1, 2, 3]
    } else {
        [0, 1, 2]
    };
    let mut out = [Pubkey::default(); 3];
    for (i, o) in offs.iter().enumerate() {
        out[i] = ix::pda_tick_array(whirlpool, base + o * n);
    }
    out
}

/// choose a tick range for a new position
pub fn pick_range(rng: &mut Rng, l: &Ledger, whirlpool: &Pubkey, pool: &decode::Pool) -> (i32, i32) {
    let sp = pool.tick_spacing;
    let spi = sp as i32;
    let (lo_u, hi_u) = (min_usable(sp), max_usable(sp));
    if full_range_only(sp) {
        return (lo_u, hi_u);
    }
    let c = pool.tick_current_index;
    let ca = floor_div(c, spi) * spi;
    let clampa = |t: i32| t.clamp(lo_u, hi_u);
    let w = |rng: &mut Rng| -> i32 {
        let b = 1 + rng.below(9) as u32;
        (1 + rng.below(1 << b)) as i32
    };
    let n = 88 * spi;
    let style = if decode::positions_of_pool(l, whirlpool).len() < 2 && rng.chance(2, 3) { 0 } else { rng.below(12) };
    let (mut lo, mut hi) = match style {
        0 | 1 | 2 => (ca - w(rng) * spi, ca + w(rng) * spi),
        3 => (ca, ca + w(rng) * spi),                 // lower bound exactly at the current tick
        4 => (ca - w(rng) * spi, ca),                 // upper bound exactly at the current tick (out of range above)
        5 => (ca + spi, ca + spi + w(rng) * spi),     // just above
        6 => (ca - w(rng) * spi - spi, ca - spi),     // just below
        7 => {
            // array-edge slots
            let base = ta_start(c, sp);
            let slots = [0, 1, 63, 64, 65, 86, 87];
            let a = base + *rng.pick(&slots) * spi + (rng.range(-1, 1) as i32) * n;
            (a, a + w(rng) * spi)
        }
        8 => (lo_u, hi_u),
        9 => {
            // share a bound with an existing position
            let ps = decode::positions_of_pool(l, whirlpool);
            if ps.is_empty() {
                (ca - spi, ca + spi)
            } else {
                let p = &ps[rng.idx(ps.len())].1;
                match rng.below(4) {
                    0 => (p.lower, p.lower + w(rng) * spi),
                    1 => (p.upper - w(rng) * spi, p.upper),
                    2 => (p.upper, p.upper + w(rng) * spi),
                    _ => (p.lower, p.upper),
                }
            }
        }
        10 => {
            // near the protocol bounds
            if rng.chance(1, 2) {
                (lo_u, lo_u + w(rng) * spi)
            } else {
                (hi_u - w(rng) * spi, hi_u)
            }
        }
        _ => {
            let a = clampa(ca + rng.range(-2000, 2000) as i32 * spi);
            (a, a + w(rng) * spi)
        }
    };
    lo = clampa(lo);
    hi = clampa(hi);
    if lo >= hi {
        if hi + spi <= hi_u {
            hi = lo + spi;
        } else {
            lo = hi - spi;
        }
    }
    (lo, hi)
}

/// a liquidity amount: log-uniform, and now and then a value whose low or high 64-bit word is exactly zero / all ones
/// (exactly 2^64, a multiple of 2^64, 2^64 +- 1, 2^32)
pub fn liq_amount(rng: &mut Rng, bits: u32) -> u128 {
    let l = rng.log_u128(bits);
    if bits >= 40 && rng.chance(1, 16) {
        return *rng.pick(&[1u128 << 64, 3u128 << 64, (1u128 << 64) - 1, (1u128 << 64) + 1, 1u128 << 32, 1u128 << 65]);
    }
    l
}

fn tx1(ix: Ix) -> Tx {
    Tx { ixs: vec![ix] }
}

// ---------------------------------------------------------------------------------------------
// actors
// ---------------------------------------------------------------------------------------------

/// One step of the saturating LP: open small positions on still-uninitialized ticks of one array above the price
/// until all 88 slots of that array are initialized (several positions per transaction).
fn saturate_step(w: &World, knobs: &Knobs, actor: &Actor, rng: &mut Rng, l: &Ledger) -> Option<Vec<(Tx, String)>> {
    let pi = w.pools.iter().find(|p| !full_range_only(p.keys.tick_spacing))?;
    let pool = l.data(&pi.keys.whirlpool).and_then(decode::pool)?;
    let sp = pi.keys.tick_spacing;
    let spi = sp as i32;
    // the target array is fixed per world: one array above the one holding the genesis price is not knowable later,
    // so take the first array above the current one that already has the most initialized ticks (ties: the nearest)
    let base = ta_start(pool.tick_current_index, sp);
    let n = 88 * spi;
    let mut best: Option<(i32, usize)> = None;
    for o in 1..=3 {
        let s0 = base + o * n;
        if s0 + n > max_usable(sp) {
            break;
        }
        let cnt = l.data(&ix::pda_tick_array(&pi.keys.whirlpool, s0)).and_then(|d| decode::tick_array(d).ok()).map(|t| t.ticks.iter().filter(|x| x.initialized).count()).unwrap_or(0);
        if best.map(|(_, c)| cnt > c).unwrap_or(true) {
            best = Some((s0, cnt));
        }
    }
    let (start, cnt) = best?;
    if cnt >= 88 {
        return None;
    }
    let key = ix::pda_tick_array(&pi.keys.whirlpool, start);
    let init: Vec<bool> = l.data(&key).and_then(|d| decode::tick_array(d).ok()).map(|t| t.ticks.iter().map(|x| x.initialized).collect()).unwrap_or_else(|| vec![false; 88]);
    let free: Vec<i32> = (0..88).filter(|i| !init[*i as usize]).collect();
    let mut ixs: Vec<Ix> = Vec::new();
    if !l.exists(&key) {
        ixs.push(init_array_ix(knobs, rng, &pi.keys.whirlpool, &actor.wallet, start));
    }
    let mut pairs: Vec<(i32, i32)> = free.chunks(2).filter(|c| c.len() == 2).map(|c| (c[0], c[1])).collect();
    if free.len() % 2 == 1 {
        let last = *free.last().unwrap();
        pairs.push(if last > 0 { (last - 1, last) } else { (last, last + 1) });
    }
    // the last free slot in the middle of the array and the very last slot are the interesting ones: random order
    rng.shuffle(&mut pairs);
    for (a, b) in pairs.into_iter().take(8) {
        let (lo, hi) = (start + a * spi, start + b * spi);
        let mint = new_key(rng);
        let (open_ix, pk) = ix::open_position(&pi.keys.whirlpool, &actor.wallet, &actor.wallet, &mint, lo, hi);
        let fake = decode::Position { lower: lo, upper: hi, ..Default::default() };
        let la = liq_accounts(actor, &pi.keys, &pk, &fake);
        ixs.push(open_ix);
        let liq = 1 + rng.below(1000) as u128;
        ixs.push(if rng.chance(1, 2) && !V2_ONLY.with(|c| c.get()) { ix::increase_liquidity(&la, liq, u64::MAX, u64::MAX) } else { ix::increase_liquidity_v2(&la, liq, u64::MAX, u64::MAX) });
    }
    Some(vec![(Tx { ixs }, "saturate_tick_array".to_string())])
}

fn plan_lp(w: &World, knobs: &Knobs, actor: &mut Actor, l: &Ledger) -> Vec<(Tx, String)> {
    // one plan in twenty: the first v2 instruction built describes its remaining accounts with one more, zero-length slice
    let arm = {
        let rng = &mut actor.rng;
        if rng.chance(1, 20) { Some(rng.below(256) as u8) } else { None }
    };
    ix::RAI_FAULT.with(|c| c.set(arm));
    let flow = plan_lp_inner(w, knobs, actor, l);
    ix::RAI_FAULT.with(|c| c.set(None));
    flow
}

fn plan_lp_inner(w: &World, knobs: &Knobs, actor: &mut Actor, l: &Ledger) -> Vec<(Tx, String)> {
    let mine = my_positions(l, &actor.wallet);
    let rng = &mut actor.rng.clone();
    let mut flow: Vec<(Tx, String)> = Vec::new();
    if knobs.saturate_array && w.actors.iter().find(|a| a.role == Role::Lp).map(|a| a.id == actor.id).unwrap_or(false) && rng.chance(3, 4) {
        if let Some(f) = saturate_step(w, knobs, actor, rng, l) {
            actor.rng = rng.clone();
            return f;
        }
    }
    // someone else's position delegated to this wallet: act on it with this wallet's own token accounts
    let delegated = delegated_positions(l, &actor.wallet);
    if !delegated.is_empty() && rng.chance(1, 3) {
        let (pk, p) = &delegated[rng.idx(delegated.len())];
        if let (Some(pi), Some(pool)) = (pool_of(w, &p.whirlpool), l.data(&p.whirlpool).and_then(decode::pool)) {
            let la = liq_accounts(actor, &pi.keys, pk, p);
            let dl = rng.log_u128(knobs.liq_bits.min(40));
            let i = match rng.below(4) {
                0 => collect_ix(rng, &la),
                1 => decrease_ix(rng, &la, &pool, p.lower, p.upper, (p.liquidity / 2).max(1)),
                2 => increase_ix(rng, &la, &pool, p.lower, p.upper, dl),
                _ => ix::update_fees_and_rewards(&pi.keys.whirlpool, &pk.position, &la.ta_lower, &la.ta_upper),
            };
            actor.rng = rng.clone();
            return vec![(tx1(i), "delegate_operation".to_string())];
        }
    }
    let mut action = if mine.is_empty() { 0 } else { rng.below(12) };
    if !mine.is_empty() && rng.chance(1, 14) {
        action = 101;
    }
    if !mine.is_empty() && knobs.has_rewards && rng.chance(1, 4) {
        action = 100;
    }
    match action {
        0 | 1 | 2 if mine.len() < 4 => {
            // open (+ init arrays) + increase
            let pi = &w.pools[rng.idx(w.pools.len())];
            let Some(pool) = l.data(&pi.keys.whirlpool).and_then(decode::pool) else {
                return flow;
            };
            let (lo, hi) = pick_range(rng, l, &pi.keys.whirlpool, &pool);
            let mint = new_key(rng);
            let te = rng.chance(1, 3);
            let (open_ix, pk) = if te {
                ix::open_position_with_token_extensions(&pi.keys.whirlpool, &actor.wallet, &actor.wallet, &mint, lo, hi, rng.chance(1, 2))
            } else {
                ix::open_position(&pi.keys.whirlpool, &actor.wallet, &actor.wallet, &mint, lo, hi)
            };
            let mut ixs: Vec<(Ix, &str)> = Vec::new();
            let mut starts = vec![ta_start(lo, pi.keys.tick_spacing)];
            let su = ta_start(hi, pi.keys.tick_spacing);
            if !starts.contains(&su) {
                starts.push(su);
            }
            for s in starts {
                if !l.exists(&ix::pda_tick_array(&pi.keys.whirlpool, s)) || rng.chance(1, 20) {
                    ixs.push((init_array_ix(knobs, rng, &pi.keys.whirlpool, &actor.wallet, s), "init_tick_array"));
                }
            }
            ixs.push((open_ix, "open_position"));
            let fake = decode::Position {
                lower: lo,
                upper: hi,
                ..Default::default()
            };
            let la = liq_accounts(actor, &pi.keys, &pk, &fake);
            let mut liq = liq_amount(rng, knobs.liq_bits);
            // a ladder: the same liquidity as an abutting position (its upper bound is this lower bound, or the reverse), so
            // that the shared tick carries gross 2L and net 0
            if rng.chance(1, 4) {
                let abut: Vec<u128> = decode::positions_of_pool(l, &pi.keys.whirlpool).into_iter().filter(|(_, q)| q.liquidity > 0 && (q.upper == lo || q.lower == hi)).map(|(_, q)| q.liquidity).collect();
                if !abut.is_empty() {
                    liq = abut[rng.idx(abut.len())];
                }
            }
            ixs.push((increase_ix(rng, &la, &pool, lo, hi, liq), "increase_liquidity"));
            if rng.chance(1, 3) {
                // all in one atomic transaction
                let tx = Tx {
                    ixs: ixs.iter().map(|(i, _)| i.clone()).collect(),
                };
                flow.push((tx, "open+increase (atomic)".into()));
            } else {
                for (i, n) in ixs {
                    flow.push((tx1(i), n.to_string()));
                }
            }
        }
        3 | 4 => {
            let (pk, p) = &mine[rng.idx(mine.len())];
            if let Some(pi) = pool_of(w, &p.whirlpool) {
                if let Some(pool) = l.data(&pi.keys.whirlpool).and_then(decode::pool) {
                    let la = liq_accounts(actor, &pi.keys, pk, p);
                    let liq = liq_amount(rng, knobs.liq_bits);
                    flow.push((tx1(increase_ix(rng, &la, &pool, p.lower, p.upper, liq)), "increase_liquidity".into()));
                }
            }
        }
        5 | 6 | 7 => {
            let (pk, p) = &mine[rng.idx(mine.len())];
            if let Some(pi) = pool_of(w, &p.whirlpool) {
                if let Some(pool) = l.data(&pi.keys.whirlpool).and_then(decode::pool) {
                    let la = liq_accounts(actor, &pi.keys, pk, p);
                    let liq = match rng.below(4) {
                        0 => p.liquidity,
                        1 => p.liquidity / 2,
                        2 => liq_amount(rng, knobs.liq_bits),
                        _ => 1 + rng.next_u128() % p.liquidity.max(1),
                    };
                    flow.push((tx1(decrease_ix(rng, &la, &pool, p.lower, p.upper, liq)), "decrease_liquidity".into()));
                    if rng.chance(1, 2) {
                        flow.push((tx1(collect_ix(rng, &la)), "collect_fees".into()));
                    }
                    if liq == p.liquidity && rng.chance(1, 2) {
                        flow.push((tx1(close_ix(actor, pk)), "close_position".into()));
                    }
                }
            }
        }
        8 => {
            let (pk, p) = &mine[rng.idx(mine.len())];
            if let Some(pi) = pool_of(w, &p.whirlpool) {
                let la = liq_accounts(actor, &pi.keys, pk, p);
                if rng.chance(2, 3) {
                    let upd = ix::update_fees_and_rewards(&pi.keys.whirlpool, &pk.position, &la.ta_lower, &la.ta_upper);
                    if rng.chance(1, 2) {
                        flow.push((
                            Tx {
                                ixs: vec![upd, collect_ix(rng, &la)],
                            },
                            "update+collect (atomic)".into(),
                        ));
                    } else {
                        flow.push((tx1(upd), "update_fees_and_rewards".into()));
                        flow.push((tx1(collect_ix(rng, &la)), "collect_fees".into()));
                    }
                } else {
                    flow.push((tx1(collect_ix(rng, &la)), "collect_fees".into()));
                }
            }
        }
        9 => {
            let (pk, _p) = &mine[rng.idx(mine.len())];
            flow.push((tx1(close_ix(actor, pk)), "close_position".into()));
        }
        101 => {
            // approve another LP as delegate of the position token (amount 0, 1 or 2), or revoke
            let (pk, _p) = &mine[rng.idx(mine.len())];
            let others: Vec<&Actor> = w.actors.iter().filter(|a| a.role == Role::Lp && a.wallet != actor.wallet).collect();
            if !others.is_empty() {
                let d = others[rng.idx(others.len())].wallet;
                let i = if rng.chance(1, 4) {
                    if pk.nft_program == ix::tok() {
                        ix::from_sol(spl_token::instruction::revoke(&ix::tok(), &pk.token_account, &actor.wallet, &[]).unwrap())
                    } else {
                        ix::from_sol(spl_token_2022::instruction::revoke(&ix::tok22(), &pk.token_account, &actor.wallet, &[]).unwrap())
                    }
                } else {
                    let amt = *rng.pick(&[1u64, 1, 1, 2, 0]);
                    if pk.nft_program == ix::tok() {
                        ix::from_sol(spl_token::instruction::approve(&ix::tok(), &pk.token_account, &d, &actor.wallet, &[], amt).unwrap())
                    } else {
                        ix::from_sol(spl_token_2022::instruction::approve(&ix::tok22(), &pk.token_account, &d, &actor.wallet, &[], amt).unwrap())
                    }
                };
                flow.push((tx1(i), "approve_or_revoke_delegate".into()));
            }
        }
        100 => {
            // collect rewards (optionally after an update in the same or a separate transaction)
            let (pk, p) = &mine[rng.idx(mine.len())];
            if let (Some(pi), Some(pool)) = (pool_of(w, &p.whirlpool), l.data(&p.whirlpool).and_then(decode::pool)) {
                let la = liq_accounts(actor, &pi.keys, pk, p);
                let mut ixs = Vec::new();
                if rng.chance(2, 3) {
                    ixs.push(ix::update_fees_and_rewards(&pi.keys.whirlpool, &pk.position, &la.ta_lower, &la.ta_upper));
                }
                let inited: Vec<usize> = (0..3).filter(|i| pool.rewards[*i].initialized()).collect();
                let idx = if !inited.is_empty() && rng.chance(9, 10) { inited[rng.idx(inited.len())] } else { rng.below(3) as usize };
                let r = &pool.rewards[idx];
                let owner_acct = actor.tokens.get(&r.mint).cloned().unwrap_or_else(|| actor.tokens[&pi.keys.mint_a]);
                ixs.push(crate::gen2::collect_reward_ix(rng, &pi.keys, &actor.wallet, pk, idx as u8, r, &owner_acct));
                if rng.chance(1, 2) {
                    flow.push((Tx { ixs }, "update+collect_reward (atomic)".into()));
                } else {
                    for i in ixs {
                        flow.push((tx1(i), "collect_reward".into()));
                    }
                }
            }
        }
        10 | 11 => {
            // reposition
            let (pk, p) = &mine[rng.idx(mine.len())];
            if let Some(pi) = pool_of(w, &p.whirlpool) {
                if let Some(pool) = l.data(&pi.keys.whirlpool).and_then(decode::pool) {
                    let (lo, hi) = if rng.chance(1, 8) { crate::gen3::pick_any_range(rng, l, &pi.keys.whirlpool, &pool) } else { pick_range(rng, l, &pi.keys.whirlpool, &pool) };
                    let (lo, hi) = (lo.clamp(MIN_TICK - 70_000, MAX_TICK + 70_000), hi.clamp(MIN_TICK - 70_000, MAX_TICK + 70_000));
                    // now and then the very same range (must be refused) or a range that keeps one of the two bounds (legal)
                    let (lo, hi) = match rng.below(12) {
                        0 => (p.lower, p.upper),
                        1 | 2 if p.lower < hi => (p.lower, hi),
                        3 | 4 if lo < p.upper => (lo, p.upper),
                        _ => (lo, hi),
                    };
                    let la = liq_accounts(actor, &pi.keys, pk, p);
                    let mut starts = vec![ta_start(lo, pi.keys.tick_spacing)];
                    let su = ta_start(hi, pi.keys.tick_spacing);
                    if !starts.contains(&su) {
                        starts.push(su);
                    }
                    for s in &starts {
                        if !l.exists(&ix::pda_tick_array(&pi.keys.whirlpool, *s)) {
                            flow.push((
                                tx1(init_array_ix(knobs, rng, &pi.keys.whirlpool, &actor.wallet, *s)),
                                "init_tick_array".into(),
                            ));
                        }
                    }
                    let r = ix::RepositionAccounts {
                        liq: la,
                        funder: actor.wallet,
                        new_ta_lower: ix::pda_tick_array(&pi.keys.whirlpool, ta_start(lo, pi.keys.tick_spacing)),
                        new_ta_upper: ix::pda_tick_array(&pi.keys.whirlpool, ta_start(hi, pi.keys.tick_spacing)),
                    };
                    let new_liq = match rng.below(3) {
                        0 => p.liquidity.max(1),
                        _ => liq_amount(rng, knobs.liq_bits),
                    };
                    flow.push((
                        tx1(ix::reposition_liquidity_v2(&r, lo, hi, new_liq, 0, 0, u64::MAX, u64::MAX)),
                        "reposition_liquidity_v2".into(),
                    ));
                }
            }
        }
        _ => {}
    }
    actor.rng = rng.clone();
    flow
}

fn exact_cost(pool: &decode::Pool, lo: i32, hi: i32, liq: u128, round_up: bool) -> (Option<u64>, Option<u64>) {
    let (a, b) = model::liquidity_amounts(liq, pool.tick_current_index, pool.sqrt_price, lo, hi, round_up);
    (model::to_u64(&a), model::to_u64(&b))
}

pub fn increase_ix(rng: &mut Rng, la: &LiqAccounts, pool: &decode::Pool, lo: i32, hi: i32, liq: u128) -> Ix {
    // token maxima: unlimited, exact cost, or slightly off
    let (max_a, max_b) = match rng.below(5) {
        0 | 1 => (u64::MAX, u64::MAX),
        2 => {
            let (a, b) = exact_cost(pool, lo, hi, liq, true);
            (a.unwrap_or(u64::MAX), b.unwrap_or(u64::MAX))
        }
        3 => {
            let (a, b) = exact_cost(pool, lo, hi, liq, true);
            (
                a.unwrap_or(u64::MAX).saturating_add(rng.below(3)).saturating_sub(1),
                b.unwrap_or(u64::MAX).saturating_add(rng.below(3)).saturating_sub(1),
            )
        }
        _ => (rng.log_u64(62), rng.log_u64(62)),
    };
    match if V2_ONLY.with(|c| c.get()) { 1 + rng.below(3) } else { rng.below(4) } {
        0 => ix::increase_liquidity(la, liq, max_a, max_b),
        1 | 2 => ix::increase_liquidity_v2(la, liq, max_a, max_b),
        _ => {
            let (mut ma, mut mb) = (rng.log_u64(58), rng.log_u64(58));
            // now and then exactly 0 for the token the deposit does not involve (a one-sided deposit), or for either token
            match rng.below(10) {
                0 | 1 => {
                    if pool.tick_current_index < lo {
                        mb = 0;
                    } else if pool.tick_current_index >= hi {
                        ma = 0;
                    } else if rng.chance(1, 2) {
                        ma = 0;
                    } else {
                        mb = 0;
                    }
                }
                _ => {}
            }
            // a token B budget that the price distance divides exactly (budget x 2^64 is a multiple of the distance): the
            // estimate's division has no remainder there
            if rng.chance(1, 6) && pool.tick_current_index >= lo {
                let (pl, pu) = (model::sqrt_price_of_tick(lo), model::sqrt_price_of_tick(hi));
                let top = if pool.tick_current_index < hi { pool.sqrt_price.clamp(pl, pu) } else { pu };
                let diff = top.saturating_sub(pl);
                if diff > 0 {
                    let odd = diff >> diff.trailing_zeros();
                    let sh = rng.below(20);
                    let k = 1 + rng.below(1 << sh) as u128;
                    if let Some(b) = odd.checked_mul(k).filter(|b| *b <= u64::MAX as u128 && *b > 0) {
                        mb = b as u64;
                        if pool.tick_current_index >= hi || rng.chance(1, 2) {
                            ma = u64::MAX;
                        }
                    }
                }
            }
            let (minp, maxp) = match rng.below(3) {
                0 => (MIN_SQRT_PRICE, MAX_SQRT_PRICE),
                1 => (pool.sqrt_price, pool.sqrt_price),
                _ => (
                    pool.sqrt_price - pool.sqrt_price / 1000,
                    pool.sqrt_price + pool.sqrt_price / 1000,
                ),
            };
            ix::increase_liquidity_by_token_amounts_v2(la, ma, mb, minp, maxp)
        }
    }
}

pub fn decrease_ix(rng: &mut Rng, la: &LiqAccounts, pool: &decode::Pool, lo: i32, hi: i32, liq: u128) -> Ix {
    let (min_a, min_b) = match rng.below(4) {
        0 | 1 => (0, 0),
        2 => {
            let (a, b) = exact_cost(pool, lo, hi, liq, false);
            (a.unwrap_or(0), b.unwrap_or(0))
        }
        _ => {
            let (a, b) = exact_cost(pool, lo, hi, liq, false);
            (
                a.unwrap_or(0).saturating_add(rng.below(3)).saturating_sub(1),
                b.unwrap_or(0).saturating_add(rng.below(3)).saturating_sub(1),
            )
        }
    };
    if rng.chance(1, 2) && !V2_ONLY.with(|c| c.get()) {
        ix::decrease_liquidity(la, liq, min_a, min_b)
    } else {
        ix::decrease_liquidity_v2(la, liq, min_a, min_b)
    }
}

pub fn collect_ix(rng: &mut Rng, la: &LiqAccounts) -> Ix {
    if rng.chance(1, 2) && !V2_ONLY.with(|c| c.get()) {
        ix::collect_fees(la)
    } else {
        ix::collect_fees_v2(la)
    }
}

pub fn close_ix(actor: &Actor, pk: &PositionKeys) -> Ix {
    if pk.nft_program == ix::tok22() {
        ix::close_position_with_token_extensions(&actor.wallet, &actor.wallet, pk)
    } else {
        ix::close_position(&actor.wallet, &actor.wallet, pk)
    }
}

/// nearest initialized tick in the swap direction (from the decoded arrays), if any
pub fn next_initialized_tick(l: &Ledger, whirlpool: &Pubkey, from_tick: i32, a_to_b: bool) -> Option<i32> {
    let mut best: Option<i32> = None;
    for (_, ta) in decode::tick_arrays_of_pool(l, whirlpool) {
        let Ok(ta) = ta else { continue };
        let sp = {
            // spacing from pool
            l.data(whirlpool).and_then(decode::pool).map(|p| p.tick_spacing as i32).unwrap_or(1)
        };
        for (i, t) in ta.ticks.iter().enumerate() {
            if !t.initialized {
                continue;
            }
            let ti = ta.start + i as i32 * sp;
            if a_to_b && ti <= from_tick {
                if best.map(|b| ti > b).unwrap_or(true) {
                    best = Some(ti);
                }
            } else if !a_to_b && ti > from_tick && best.map(|b| ti < b).unwrap_or(true) {
                best = Some(ti);
            }
        }
    }
    best
}

pub fn pick_limit(rng: &mut Rng, l: &Ledger, whirlpool: &Pubkey, pool: &decode::Pool, a_to_b: bool) -> u128 {
    let p = pool.sqrt_price;
    // adaptive-fee pools: now and then a limit exactly the major-swap threshold away from a tick-aligned price (or, from
    // an unaligned price, the next aligned one first), so that chains of swaps move the price by exactly the threshold
    if let Some(o) = l.data(&ix::pda_oracle(whirlpool)).and_then(decode::oracle) {
        if rng.chance(1, 6) || (HF_RUN.with(|c| c.get()) && rng.chance(1, 2)) {
            let t0 = model::tick_of_sqrt_price(p);
            let th = o.c.major_swap_threshold_ticks as i32;
            let t = if model::sqrt_price_of_tick(t0) == p {
                if a_to_b { t0 - th } else { t0 + th }
            } else if a_to_b {
                t0
            } else {
                t0 + 1
            };
            return model::sqrt_price_of_tick(t.clamp(MIN_TICK, MAX_TICK));
        }
    }
    match rng.below(20) {
        0..=6 => 0,
        7 | 8 => {
            if a_to_b {
                MIN_SQRT_PRICE
            } else {
                MAX_SQRT_PRICE
            }
        }
        9..=11 => {
            // at the next initialized tick
            match next_initialized_tick(l, whirlpool, pool.tick_current_index, a_to_b) {
                Some(t) => model::sqrt_price_of_tick(t),
                None => 0,
            }
        }
        12 | 13 => {
            // just inside / beyond the current price
            let d = 1 + rng.below(1000) as u128;
            if a_to_b {
                p.saturating_sub(d).max(MIN_SQRT_PRICE)
            } else {
                (p + d).min(MAX_SQRT_PRICE)
            }
        }
        14 => {
            // wrong side or equal (must be rejected)
            if rng.chance(1, 2) {
                p
            } else if a_to_b {
                p + 1
            } else {
                p.saturating_sub(1)
            }
        }
        15 => {
            // out of bounds
            if a_to_b {
                MIN_SQRT_PRICE - 1
            } else {
                MAX_SQRT_PRICE + 1
            }
        }
        _ => {
            let dt = 1 + rng.below(2000) as i32;
            let t = if a_to_b {
                pool.tick_current_index - dt
            } else {
                pool.tick_current_index + dt
            };
            model::sqrt_price_of_tick(t.clamp(MIN_TICK, MAX_TICK))
        }
    }
}

fn plan_trader(w: &World, knobs: &Knobs, actor: &mut Actor, l: &Ledger) -> Vec<(Tx, String)> {
    let rng = &mut actor.rng.clone();
    let mut flow = Vec::new();
    let n = 1 + rng.below(3);
    for _ in 0..n {
        let pi = &w.pools[rng.idx(w.pools.len())];
        let Some(pool) = l.data(&pi.keys.whirlpool).and_then(decode::pool) else {
            continue;
        };
        if pool.liquidity == 0 && rng.chance(2, 3) {
            continue;
        }
        let v2 = rng.chance(1, 2) || knobs.v2_only;
        // like a real client: simulate on the current view, adapt a few times, then send
        let mut chosen: Option<(SwapAccounts, SwapArgs)> = None;
        for attempt in 0..4 {
            let a_to_b = if pool.sqrt_price <= MIN_SQRT_PRICE + 1000 {
                rng.chance(1, 10)
            } else if pool.sqrt_price >= MAX_SQRT_PRICE - 1000 {
                rng.chance(9, 10)
            } else {
                rng.chance(1, 2)
            };
            let is_input = rng.chance(1, 2);
            let amount = match rng.below(16) {
                0 => 0,
                1 => 1,
                2 => u64::MAX,
                3..=8 => {
                    // sized relative to the liquidity in range
                    let bits = (128 - pool.liquidity.leading_zeros()).saturating_sub(rng.below(12) as u32).clamp(4, 62);
                    rng.log_u64(bits)
                }
                _ => rng.log_u64(knobs.swap_bits),
            };
            let mut limit = pick_limit(rng, l, &pi.keys.whirlpool, &pool, a_to_b);
            let amount = if HF_RUN.with(|c| c.get()) && limit != 0 && rng.chance(2, 3) { u64::MAX >> rng.below(8) } else { amount };
            if attempt >= 2 && limit == 0 {
                // stay inside the first array or so
                let dt = 1 + rng.below(40 * pool.tick_spacing as u64) as i32;
                let t = if a_to_b { pool.tick_current_index - dt } else { pool.tick_current_index + dt };
                limit = model::sqrt_price_of_tick(t.clamp(MIN_TICK, MAX_TICK));
            }
            let sa = SwapAccounts {
                pool: pi.keys.clone(),
                authority: actor.wallet,
                owner_a: actor.tokens[&pi.keys.mint_a],
                owner_b: actor.tokens[&pi.keys.mint_b],
                tick_arrays: swap_tick_arrays(&pool, &pi.keys.whirlpool, a_to_b),
            };
            let mut args = SwapArgs {
                amount,
                other_amount_threshold: if is_input { 0 } else { u64::MAX },
                sqrt_price_limit: limit,
                amount_specified_is_input: is_input,
                a_to_b,
            };
            let probe = if v2 { ix::swap_v2(&sa, &args, &[]) } else { ix::swap(&sa, &args) };
            let mut fork = l.clone();
            let pre_a = world::token_amount(&fork, &sa.owner_a);
            let pre_b = world::token_amount(&fork, &sa.owner_b);
            let o = rt::exec_tx_simple(&mut fork, &tx1(probe));
            if o.ok {
                if rng.chance(1, 2) {
                    let post_a = world::token_amount(&fork, &sa.owner_a);
                    let post_b = world::token_amount(&fork, &sa.owner_b);
                    let (paid, got) = if a_to_b {
                        (pre_a - post_a, post_b - pre_b)
                    } else {
                        (pre_b - post_b, post_a - pre_a)
                    };
                    let slip = match rng.below(4) {
                        0 => 0,
                        1 => 1,
                        _ => rng.below(1 + got.max(paid) / 100),
                    };
                    args.other_amount_threshold = if is_input {
                        got.saturating_sub(slip)
                    } else {
                        paid.saturating_add(slip)
                    };
                }
                chosen = Some((sa, args));
                break;
            }
            // send a transaction that fails on the view anyway, sometimes
            if rng.chance(1, 6) {
                chosen = Some((sa, args));
                break;
            }
        }
        if let Some((sa, args)) = chosen {
            // v2: sometimes with supplemental tick arrays (any arrays of the pool, in any order, up to three)
            let mut supp: Vec<Pubkey> = Vec::new();
            if v2 && rng.chance(1, 3) {
                let mut all: Vec<Pubkey> = decode::tick_arrays_of_pool(l, &sa.pool.whirlpool).into_iter().map(|(k, _)| k).collect();
                rng.shuffle(&mut all);
                all.truncate(1 + rng.below(3) as usize);
                supp = all;
            }
            let mut sa = sa;
            let mut read_only_supp = false;
            if v2 && rng.chance(1, 10) {
                // a careless client: the arrays of the path only as supplemental accounts and those read-only, other arrays
                // of the pool in the three main slots (the program may refuse this; it must not trade past ticks)
                let others: Vec<Pubkey> = decode::tick_arrays_of_pool(l, &sa.pool.whirlpool).into_iter().map(|(k, _)| k).filter(|k| !sa.tick_arrays.contains(k)).collect();
                if !others.is_empty() {
                    supp = sa.tick_arrays.to_vec();
                    supp.dedup();
                    for k in 0..3 {
                        sa.tick_arrays[k] = others[rng.idx(others.len())];
                    }
                    read_only_supp = true;
                }
            }
            let mut sx = if v2 { ix::swap_v2(&sa, &args, &supp) } else { ix::swap(&sa, &args) };
            if read_only_supp {
                let n = sx.accounts.len();
                for m in sx.accounts[n - supp.len()..].iter_mut() {
                    m.is_writable = false;
                }
            }
            flow.push((tx1(sx), if v2 { "swap_v2".to_string() } else { "swap".to_string() }));
        }
    }
    actor.rng = rng.clone();
    flow
}

fn plan_keeper(w: &World, actor: &mut Actor, l: &Ledger) -> Vec<(Tx, String)> {
    let rng = &mut actor.rng.clone();
    let mut flow = Vec::new();
    let pi = &w.pools[rng.idx(w.pools.len())];
    let mut ps = decode::positions_of_pool(l, &pi.keys.whirlpool);
    if rng.chance(4, 5) && ps.iter().any(|(_, p)| p.liquidity > 0) {
        ps.retain(|(_, p)| p.liquidity > 0);
    }
    if rng.chance(1, 12) {
        // a stranger sends lamports to the address of a tick array nobody has created yet (near the price)
        if let Some(pool) = l.data(&pi.keys.whirlpool).and_then(decode::pool) {
            let sp = pi.keys.tick_spacing;
            let start = ta_start(pool.tick_current_index, sp) + rng.range(-2, 2) as i32 * 88 * sp as i32;
            let key = ix::pda_tick_array(&pi.keys.whirlpool, start);
            if !l.exists(&key) && start >= ta_start(decode::MIN_TICK, sp) && start <= decode::MAX_TICK {
                RAW_EVENTS.with(|r| r.borrow_mut().push(HEvent::Put { key, lamports: 890_880 + rng.below(10_000_000), owner: ix::sys(), data: vec![], tag: "lamports sent to the address of an uninitialized tick array".into() }));
            }
        }
    }
    if rng.chance(1, 14) {
        // a stranger sends lamports to the oracle address of a pool (for a static-fee pool nobody ever creates that account:
        // the address then holds lamports and nothing else)
        let key = pi.keys.oracle;
        if !l.exists(&key) {
            RAW_EVENTS.with(|r| r.borrow_mut().push(HEvent::Put { key, lamports: 1 + rng.below(10_000_000), owner: ix::sys(), data: vec![], tag: "lamports sent to the oracle address of a pool without an oracle".into() }));
        }
    }
    if rng.chance(1, 10) {
        // anyone may create tick arrays: on the grid far from the price, at both ends of the tick axis, and at starts that are
        // off the grid by a tick, a spacing or half a width, below the lowest array or beyond the highest tick (to be refused)
        let sp = pi.keys.tick_spacing;
        let width = 88 * sp as i32;
        let lowest = ta_start(decode::MIN_TICK, sp);
        let highest = ta_start(decode::MAX_TICK, sp);
        let near = l.data(&pi.keys.whirlpool).and_then(decode::pool).map(|p| ta_start(p.tick_current_index, sp)).unwrap_or(0);
        let far = near + width * rng.range(-6, 6) as i32;
        let base = *rng.pick(&[lowest, lowest, highest, near, far]);
        let start = base + *rng.pick(&[0, 0, 0, 1, -1, sp as i32, -(sp as i32), width / 2, width, -width, decode::MIN_TICK - lowest]);
        // (the coin is always drawn, so that twin runs differing only in the array kind consume the same stream)
        let coin = rng.chance(1, 2);
        let dynamic = match FORCE_ARRAY_KIND.with(|c| c.get()) {
            Some(0) => false,
            Some(1) => true,
            _ => coin,
        };
        let i = if dynamic { ix::initialize_dynamic_tick_array(&pi.keys.whirlpool, &actor.wallet, start, false) } else { ix::initialize_tick_array(&pi.keys.whirlpool, &actor.wallet, start) };
        flow.push((tx1(i), "init_tick_array (keeper, any start)".to_string()));
    }
    if rng.chance(1, 12) {
        // anyone may send the (signer-less) migration of the legacy reward-authority space; pools created by this program
        // version are born migrated, so it must be refused and change nothing - whatever control flags the pool carries
        let all = decode::pools(l);
        if !all.is_empty() {
            let flagged: Vec<&(Pubkey, decode::Pool)> = all.iter().filter(|(_, p)| p.rewards[1].extension != [0u8; 32]).collect();
            let k = if !flagged.is_empty() && rng.chance(2, 3) { flagged[rng.idx(flagged.len())].0 } else { all[rng.idx(all.len())].0 };
            flow.push((
                tx1(ix::mk(whirlpool::accounts::MigrateRepurposeRewardAuthoritySpace { whirlpool: k }, whirlpool::instruction::MigrateRepurposeRewardAuthoritySpace {})),
                "migrate_repurpose_reward_authority_space".to_string(),
            ));
        }
    }
    if !ps.is_empty() {
        let (k, p) = &ps[rng.idx(ps.len())];
        let sp = pi.keys.tick_spacing;
        flow.push((
            tx1(ix::update_fees_and_rewards(
                &pi.keys.whirlpool,
                k,
                &ix::pda_tick_array(&pi.keys.whirlpool, ta_start(p.lower, sp)),
                &ix::pda_tick_array(&pi.keys.whirlpool, ta_start(p.upper, sp)),
            )),
            "update_fees_and_rewards".to_string(),
        ));
    }
    actor.rng = rng.clone();
    flow
}

fn plan_fee_auth(w: &World, actor: &mut Actor, _l: &Ledger) -> Vec<(Tx, String)> {
    let rng = &mut actor.rng.clone();
    let pi = &w.pools[rng.idx(w.pools.len())];
    let mut flow = Vec::new();
    if pi.adaptive && rng.chance(1, 3) {
        // the fee authority changes some of the pool's adaptive-fee constants between other users' swaps
        // (often only the accumulator maximum or the control factor, leaving the group size alone)
        let (_, c) = crate::gen2::pick_adaptive_constants(rng, pi.keys.tick_spacing, 0);
        // one change in five asks for arbitrary constants, mostly just outside the validity rules (they must be refused)
        let c = if rng.chance(1, 5) { crate::gen4::arbitrary_constants(rng, pi.keys.tick_spacing).1 } else { c };
        let style = rng.below(4);
        let o16 = |rng: &mut Rng, v: u16, on: bool| if on && rng.chance(2, 3) { Some(v) } else { None };
        let small_max = *rng.pick(&[0u32, 1, 10_000, 50_000]);
        let others: Vec<Pubkey> = w.pools.iter().filter(|q| q.adaptive && q.keys.whirlpool != pi.keys.whirlpool).map(|q| q.keys.oracle).collect();
        let other_oracle = if !others.is_empty() && rng.chance(1, 8) { Some(others[rng.idx(others.len())]) } else { None };
        let i = ix::mk(
            // (one call in eight names this pool but carries the oracle of another adaptive-fee pool of the world)
            whirlpool::accounts::SetAdaptiveFeeConstants { whirlpool: pi.keys.whirlpool, whirlpools_config: w.config, oracle: other_oracle.unwrap_or(pi.keys.oracle), fee_authority: actor.wallet },
            whirlpool::instruction::SetAdaptiveFeeConstants {
                filter_period: o16(rng, c.filter_period, style == 0),
                decay_period: o16(rng, c.decay_period, style == 0),
                reduction_factor: o16(rng, c.reduction_factor, style <= 1),
                adaptive_fee_control_factor: if style != 2 && rng.chance(1, 2) { Some(c.adaptive_fee_control_factor) } else { None },
                max_volatility_accumulator: if style >= 2 || rng.chance(1, 2) { Some(if style == 3 { small_max } else { c.max_volatility_accumulator }) } else { None },
                tick_group_size: o16(rng, c.tick_group_size, style == 0),
                major_swap_threshold_ticks: o16(rng, c.major_swap_threshold_ticks, style <= 1),
            },
        );
        actor.rng = rng.clone();
        return vec![(tx1(i), "set_adaptive_fee_constants".to_string())];
    }
    if rng.chance(1, 2) {
        let r = *rng.pick(&[0u16, 1, 100, 3000, 10000, 59999, 60000, 60001, 65535]);
        flow.push((
            tx1(ix::set_fee_rate(&w.config, &pi.keys.whirlpool, &actor.wallet, r)),
            "set_fee_rate".to_string(),
        ));
    } else {
        let r = *rng.pick(&[0u16, 1, 300, 1000, 2499, 2500, 2501, 10000, 10001, 25000, 65535]);
        flow.push((
            tx1(ix::set_protocol_fee_rate(&w.config, &pi.keys.whirlpool, &actor.wallet, r)),
            "set_protocol_fee_rate".to_string(),
        ));
    }
    actor.rng = rng.clone();
    flow
}

fn plan_collector(w: &World, actor: &mut Actor, _l: &Ledger) -> Vec<(Tx, String)> {
    let rng = &mut actor.rng.clone();
    let pi = &w.pools[rng.idx(w.pools.len())];
    let da = actor.tokens[&pi.keys.mint_a];
    let db = actor.tokens[&pi.keys.mint_b];
    if rng.chance(1, 6) {
        // hand the authority over to itself (exercises the setter, keeps the world usable)
        let i = ix::mk(
            whirlpool::accounts::SetCollectProtocolFeesAuthority { whirlpools_config: w.config, collect_protocol_fees_authority: actor.wallet, new_collect_protocol_fees_authority: actor.wallet },
            whirlpool::instruction::SetCollectProtocolFeesAuthority {},
        );
        actor.rng = rng.clone();
        return vec![(tx1(i), "set_collect_protocol_fees_authority".to_string())];
    }
    let ixn = if rng.chance(1, 2) && !V2_ONLY.with(|c| c.get()) {
        ix::collect_protocol_fees(&pi.keys, &actor.wallet, &da, &db)
    } else {
        ix::collect_protocol_fees_v2(&pi.keys, &actor.wallet, &da, &db)
    };
    actor.rng = rng.clone();
    vec![(tx1(ixn), "collect_protocol_fees".to_string())]
}
