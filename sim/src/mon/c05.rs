//! C05 — tradable liquidity at any price equals the sum of positions covering it.
//! Ground truth: the accounts themselves, read with the simulator's own decoders.

use crate::decode::{self, TaError};
use crate::rt::Ledger;
use crate::sim::{Coverage, Landed, Monitor, Violation};
use serde_json::json;
use std::collections::BTreeMap;

pub struct C05 {
    pub prop: &'static str,
}

impl C05 {
    pub fn new() -> Self {
        C05 { prop: "C05" }
    }
}

pub fn check_ledger(l: &Ledger, idx: usize, cov: &mut Coverage, kind: &str) -> Vec<Violation> {
    let mut out = Vec::new();
    for (wk, pool) in decode::pools(l) {
        let positions = decode::positions_of_pool(l, &wk);
        let arrays = decode::tick_arrays_of_pool(l, &wk);
        let sp = pool.tick_spacing as i32;
        // expected pool liquidity
        let mut expect_l: u128 = 0;
        let mut net: BTreeMap<i32, i128> = BTreeMap::new();
        let mut gross: BTreeMap<i32, u128> = BTreeMap::new();
        let mut in_range = 0;
        for (_, p) in &positions {
            if p.liquidity == 0 {
                continue;
            }
            if p.lower <= pool.tick_current_index && pool.tick_current_index < p.upper {
                expect_l = expect_l.wrapping_add(p.liquidity);
                in_range += 1;
            }
            *net.entry(p.lower).or_insert(0) += p.liquidity as i128;
            *net.entry(p.upper).or_insert(0) -= p.liquidity as i128;
            *gross.entry(p.lower).or_insert(0) += p.liquidity;
            *gross.entry(p.upper).or_insert(0) += p.liquidity;
        }
        let shifted = pool.tick_current_index + 1 <= decode::MAX_TICK
            && pool.tick_current_index + 1 >= decode::MIN_TICK
            && pool.sqrt_price == crate::model::sqrt_price_of_tick(pool.tick_current_index + 1);
        let key = format!(
            "{}|pos={}|inrange={}|ticks={}|L0={}|shifted={}|sp={}|dyn={}",
            kind,
            positions.len().min(6),
            in_range.min(4),
            gross.len().min(8),
            pool.liquidity == 0,
            shifted,
            pool.tick_spacing,
            arrays.iter().filter(|(_, a)| a.as_ref().map(|a| a.dynamic).unwrap_or(false)).count().min(3),
        );
        if !positions.is_empty() {
            cov.eval(key);
        }
        if shifted {
            cov.probe("shifted_tick_state");
        }
        if pool.sqrt_price == decode::MIN_SQRT_PRICE || pool.sqrt_price == decode::MAX_SQRT_PRICE {
            cov.probe("price_at_bound");
        }
        if pool.liquidity != expect_l {
            out.push(Violation {
                property: "C05",
                class: "pool_liquidity".into(),
                detail: format!(
                    "pool {} liquidity {} != sum of covering positions {} (tick_current {}, {} positions)",
                    wk, pool.liquidity, expect_l, pool.tick_current_index, positions.len()
                ),
                event_idx: idx,
            });
        }
        let mut seen_ticks: BTreeMap<i32, bool> = BTreeMap::new();
        for (ak, ta) in &arrays {
            let ta = match ta {
                Ok(t) => t,
                Err(TaError::Malformed(m)) => {
                    // encoding well-formedness belongs to C13; here it only means we cannot read it
                    cov.note(&format!("c05_unreadable_array:{}", m.split(' ').next().unwrap_or("")));
                    let _ = ak;
                    continue;
                }
                Err(_) => continue,
            };
            // the arrays tile the tick axis: each starts on a multiple of its width between the array that holds the lowest
            // tick and the highest tick, so that no tick lives in two arrays and a swap walking from array to array meets
            // every initialised tick
            let width = 88 * sp;
            let lowest = decode::MIN_TICK.div_euclid(width) * width;
            if ta.start.rem_euclid(width) != 0 || ta.start < lowest || ta.start > decode::MAX_TICK {
                out.push(Violation {
                    property: "C05",
                    class: "tick_array_off_the_grid".into(),
                    detail: format!("pool {} (tick spacing {}) has a tick array {} starting at {}, which is not a multiple of {} between {} and {}", wk, sp, ak, ta.start, width, lowest, decode::MAX_TICK),
                    event_idx: idx,
                });
                continue;
            }
            for (i, t) in ta.ticks.iter().enumerate() {
                let ti = ta.start + i as i32 * sp;
                let en = net.get(&ti).cloned().unwrap_or(0);
                let eg = gross.get(&ti).cloned().unwrap_or(0);
                seen_ticks.insert(ti, true);
                if t.initialized != (eg > 0) {
                    out.push(Violation {
                        property: "C05",
                        class: "tick_initialized_flag".into(),
                        detail: format!(
                            "pool {} tick {} initialized={} but gross liquidity of bounding positions = {}",
                            wk, ti, t.initialized, eg
                        ),
                        event_idx: idx,
                    });
                } else if t.liquidity_net != en || t.liquidity_gross != eg {
                    out.push(Violation {
                        property: "C05",
                        class: "tick_net_gross".into(),
                        detail: format!(
                            "pool {} tick {} net {} gross {} but positions imply net {} gross {}",
                            wk, ti, t.liquidity_net, t.liquidity_gross, en, eg
                        ),
                        event_idx: idx,
                    });
                }
            }
        }
        for (ti, g) in &gross {
            if *g > 0 && !seen_ticks.contains_key(ti) {
                out.push(Violation {
                    property: "C05",
                    class: "tick_without_array".into(),
                    detail: format!("pool {} tick {} bounds positions (gross {}) but lies in no tick array", wk, ti, g),
                    event_idx: idx,
                });
            }
        }
        if out.is_empty() && !positions.is_empty() {
            cov.sample(json!({"pool": wk.to_string(), "tick_current": pool.tick_current_index, "liquidity": pool.liquidity.to_string(),
                "positions": positions.iter().take(4).map(|(_, p)| json!([p.lower, p.upper, p.liquidity.to_string()])).collect::<Vec<_>>(),
                "after": kind}));
        }
    }
    out
}

impl Monitor for C05 {
    fn name(&self) -> &'static str {
        "C05"
    }
    fn on_landed(&mut self, ev: &Landed, cov: &mut Coverage) -> Vec<Violation> {
        if !ev.out.ok {
            return Vec::new();
        }
        let kind = ev
            .tx
            .ixs
            .last()
            .and_then(crate::wpix::decode)
            .map(|c| c.name())
            .unwrap_or("other");
        check_ledger(ev.post, ev.idx, cov, kind)
    }
}
