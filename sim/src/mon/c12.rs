//! C12 — the Pinocchio fast path and the Anchor implementation agree bit for bit.
//! Whole-instruction differential on forks + entrypoint-vs-public-handler routing comparison.

use crate::decode;
use crate::rt::{self, ExecOpts, Ix, IxOutcome, Ledger, PostAccount};
use crate::sim::{Coverage, Landed, Monitor, Violation};
use crate::wpix;
use serde_json::json;

pub struct C12;

fn viol(class: &str, idx: usize, detail: String) -> Violation {
    Violation {
        property: "C12",
        class: class.to_string(),
        detail,
        event_idx: idx,
    }
}

fn is_program_code(code: u64) -> bool {
    (6000..7000).contains(&code)
}

fn describe_diff(a: &[PostAccount], b: &[PostAccount], names: &[&'static str], ix: &Ix) -> String {
    let mut s = String::new();
    for (x, y) in a.iter().zip(b.iter()) {
        if x != y {
            let pos = ix.accounts.iter().position(|m| m.pubkey == x.key).unwrap_or(0);
            let nm = names.get(pos).cloned().unwrap_or("?");
            let first = x.data.iter().zip(y.data.iter()).position(|(p, q)| p != q);
            s.push_str(&format!(
                " [{} ({}): lamports {} vs {}, len {} vs {}, first differing byte {:?}]",
                nm,
                x.key,
                x.lamports,
                y.lamports,
                x.data.len(),
                y.data.len(),
                first
            ));
        }
    }
    s
}

pub fn compare(pre: &Ledger, ix: &Ix, fail_cpi: Option<usize>, idx: usize, cov: &mut Coverage, out: &mut Vec<Violation>) {
    let Some(c) = wpix::decode(ix) else { return };
    let opts = ExecOpts { fail_cpi_at: fail_cpi, record_logs: false, hook_fail: false };
    let (lo, lpost): (IxOutcome, Vec<PostAccount>) = rt::exec_ix_live_raw(pre, ix, &opts);
    let (ao, apost) = rt::exec_ix_anchor_twin(pre, ix, &opts);
    let pos = pre.data(&c.a("position")).and_then(decode::position);
    let pool = pre.data(&c.a("whirlpool")).and_then(decode::pool);
    let dyn_arrays = [c.a("tick_array_lower"), c.a("tick_array_upper")]
        .iter()
        .filter(|k| pre.data(k).map(|d| decode::is_kind(d, "DynamicTickArray")).unwrap_or(false))
        .count();
    let region = match (&pos, &pool) {
        (Some(p), Some(w)) => {
            if w.tick_current_index < p.lower { "below" } else if w.tick_current_index < p.upper { "inside" } else { "above" }
        }
        _ => "n/a",
    };
    cov.eval(format!(
        "{}|live={}|twin={}|{}|dyn={}|sp={}",
        c.name(),
        if lo.ok() { "ok".to_string() } else { format!("{:#x}", lo.code.min(0xffff_ffff)) },
        if ao.ok() { "ok".to_string() } else { format!("{:#x}", ao.code.min(0xffff_ffff)) },
        region,
        dyn_arrays,
        pool.as_ref().map(|p| p.tick_spacing).unwrap_or(0)
    ));
    if lo.ok() != ao.ok() {
        out.push(viol(
            "success_mismatch",
            idx,
            format!("{}: Pinocchio path {} (code {:#x} {:?}) but Anchor implementation {} (code {:#x} {:?})",
                c.name(), if lo.ok() { "succeeds" } else { "fails" }, lo.code, lo.detail, if ao.ok() { "succeeds" } else { "fails" }, ao.code, ao.detail),
        ));
        return;
    }
    if !lo.ok() {
        if is_program_code(lo.code) && is_program_code(ao.code) && lo.code != ao.code {
            out.push(viol("error_code_mismatch", idx, format!("{}: Pinocchio error {} vs Anchor error {}", c.name(), lo.code, ao.code)));
        } else if lo.code != ao.code {
            cov.note("c12_framework_level_error_codes_differ");
        }
        cov.probe("both_paths_rejected");
        return;
    }
    cov.probe("both_paths_succeeded_compared");
    if dyn_arrays > 0 {
        cov.probe("compared_on_dynamic_tick_array");
    }
    // the live post list is per unique key in instruction order, same as the buffer order
    if lpost != apost {
        out.push(viol("account_bytes_differ", idx, format!("{}: resulting accounts differ:{}", c.name(), describe_diff(&lpost, &apost, c.info.accounts, ix))));
        return;
    }
    // the set of inner calls (token transfers with their amounts, memos) must agree; their order is not part of the property
    let cp = |o: &IxOutcome| -> Vec<(String, Vec<u8>, Vec<(String, bool, bool)>)> {
        let mut v: Vec<(String, Vec<u8>, Vec<(String, bool, bool)>)> =
            o.cpis.iter().map(|c| (c.program_id.to_string(), c.data.clone(), c.accounts.iter().map(|m| (m.pubkey.to_string(), m.is_signer, m.is_writable)).collect())).collect();
        v.sort();
        v
    };
    if cp(&lo) != cp(&ao) {
        out.push(viol("cpi_sequence_differs", idx, format!("{}: CPI sequences differ: Pinocchio {} calls, Anchor {} calls", c.name(), lo.cpis.len(), ao.cpis.len())));
        return;
    }
    let evs = |o: &IxOutcome| -> Vec<Vec<Vec<u8>>> { o.events.iter().filter(|(p, _)| *p == crate::ix::wp()).map(|(_, f)| f.clone()).collect() };
    if evs(&lo) != evs(&ao) {
        // events are not part of the statement; recorded only
        cov.note("c12_emitted_events_differ");
    }
    cov.sample(json!({"ix": c.name(), "region": region, "dynamic_arrays": dyn_arrays, "accounts_compared": lpost.len(), "cpis": lo.cpis.len(), "events": evs(&lo).len(), "result": "byte-identical"}));
}

/// by-token-amounts has no Anchor twin: compare it with the Anchor increase_liquidity_v2 for the liquidity it derived
fn compare_by_token_amounts(pre: &Ledger, post: &Ledger, ix: &Ix, idx: usize, cov: &mut Coverage, out: &mut Vec<Violation>) {
    let Some(c) = wpix::decode(ix) else { return };
    let (Some(p0), Some(p1)) = (pre.data(&c.a("position")).and_then(decode::position), post.data(&c.a("position")).and_then(decode::position)) else { return };
    let liq = p1.liquidity.wrapping_sub(p0.liquidity);
    let mut r = c.args();
    let _ = r.u8();
    let (max_a, max_b) = (r.u64(), r.u64());
    let mut twin_ix = ix.clone();
    let mut d = wpix::ix_disc("increase_liquidity_v2").to_vec();
    d.extend_from_slice(&liq.to_le_bytes());
    d.extend_from_slice(&max_a.to_le_bytes());
    d.extend_from_slice(&max_b.to_le_bytes());
    // the remaining-accounts description (transfer-hook slices) follows the method: tag, two u64, two u128
    let tail = 8 + 1 + 8 + 8 + 16 + 16;
    if ix.data.len() > tail {
        d.extend_from_slice(&ix.data[tail..]);
    } else {
        d.push(0);
    }
    twin_ix.data = d;
    let (ao, apost) = rt::exec_ix_anchor_twin(pre, &twin_ix, &ExecOpts::default());
    cov.eval(format!("increase_liquidity_by_token_amounts_v2|twin={}", if ao.ok() { "ok".to_string() } else { format!("{:#x}", ao.code.min(0xffff_ffff)) }));
    if !ao.ok() {
        out.push(viol("success_mismatch", idx, format!("by-token-amounts derived liquidity {} and succeeded, but the Anchor increase_liquidity_v2 for that liquidity and the same maxima fails with {:#x}", liq, ao.code)));
        return;
    }
    let mut seen: Vec<solana_program::pubkey::Pubkey> = Vec::new();
    for m in &ix.accounts {
        if seen.contains(&m.pubkey) {
            continue;
        }
        seen.push(m.pubkey);
        let live = post.get(&m.pubkey);
        let twin = apost.iter().find(|a| a.key == m.pubkey);
        if let (Some(l), Some(t)) = (live, twin) {
            if l.lamports != t.lamports || l.data[..] != t.data[..] {
                let pos = ix.accounts.iter().position(|x| x.pubkey == m.pubkey).unwrap_or(0);
                out.push(viol("account_bytes_differ", idx, format!("by-token-amounts vs Anchor increase_liquidity_v2(L={}): account `{}` differs", liq, c.info.accounts.get(pos).cloned().unwrap_or("?"))));
                return;
            }
        }
    }
    cov.probe("by_token_amounts_equals_anchor_increase");
}

/// reposition has no Anchor twin; its re-ranging step has one: the Anchor `reset_position_range` instruction. On a copy
/// where the position is emptied, Anchor's verdict on the new range must agree with what the Pinocchio instruction did.
fn compare_reposition_range(pre: &Ledger, ix: &Ix, live_ok: bool, live_code: Option<u32>, idx: usize, cov: &mut Coverage, out: &mut Vec<Violation>) {
    let Some(c) = wpix::decode(ix) else { return };
    let mut r = c.args();
    let (lo, hi) = (r.i32(), r.i32());
    let pk = c.a("position");
    let Some(pa) = pre.get(&pk).cloned() else { return };
    if pa.data.len() != 216 {
        return;
    }
    let mut d = (*pa.data).clone();
    d[72..88].fill(0); // liquidity
    d[112..120].fill(0); // fee owed A
    d[136..144].fill(0); // fee owed B
    for i in 0..3 {
        let o = 144 + i * 24 + 16;
        d[o..o + 8].fill(0); // reward owed
    }
    let mut f = pre.clone();
    f.put(pk, crate::rt::Account { lamports: pa.lamports, data: std::rc::Rc::new(d), owner: pa.owner, executable: false });
    let reset = crate::ix::mk(
        whirlpool::accounts::ResetPositionRange {
            funder: c.a("funder"),
            position_authority: c.a("position_authority"),
            whirlpool: c.a("whirlpool"),
            position: pk,
            position_token_account: c.a("position_token_account"),
            system_program: crate::ix::sys(),
        },
        whirlpool::instruction::ResetPositionRange { new_tick_lower_index: lo, new_tick_upper_index: hi },
    );
    let a = rt::exec_tx_simple(&mut f, &rt::Tx { ixs: vec![reset] });
    let a_code = a.custom();
    // verdicts about the range itself: invalid tick index, full-range-only pool, same range
    let range_code = |c: Option<u32>| matches!(c, Some(6010) | Some(6054) | Some(6060));
    cov.eval(format!("reposition_range|pinocchio_ok={}|anchor_ok={}|anchor_range_verdict={}", live_ok, a.ok, range_code(a_code)));
    cov.probe("reposition_range_vs_anchor_reset");
    if live_ok && !a.ok && range_code(a_code) {
        out.push(viol("range_verdict_differs", idx, format!("reposition_liquidity_v2 re-ranged the position to {}..{} but the Anchor reset_position_range rejects that range ({:?})", lo, hi, a_code)));
    }
    if !live_ok && range_code(live_code) && a.ok {
        out.push(viol("range_verdict_differs", idx, format!("reposition_liquidity_v2 rejects the range {}..{} ({:?}) but the Anchor reset_position_range accepts it", lo, hi, live_code)));
    }
}


/// reposition has no Anchor twin as a whole, but it has an Anchor decomposition: withdraw everything
/// (`decrease_liquidity_v2`, Anchor implementation), re-range the emptied position (`reset_position_range`, Anchor,
/// with the owed fees / rewards set aside for that one step, because reposition keeps them) and deposit the new
/// liquidity (`increase_liquidity_v2`, Anchor implementation). Pool, position and all four tick arrays must end up
/// byte-identical, and with fee-less mints the vaults and the owner's accounts must have moved by the same net amounts.
fn compare_reposition_decomposed(pre: &Ledger, post: &Ledger, ix: &Ix, idx: usize, cov: &mut Coverage, out: &mut Vec<Violation>) {
    let Some(c) = wpix::decode(ix) else { return };
    if !c.remaining().is_empty() {
        return; // transfer-hook accounts: the slices of the two instruction families are described differently
    }
    let pk = c.a("position");
    let wk = c.a("whirlpool");
    let (Some(p0), Some(w0)) = (pre.data(&pk).and_then(decode::position), pre.data(&wk).and_then(decode::pool)) else { return };
    let mut r = c.args();
    let (lo, hi) = (r.i32(), r.i32());
    let _ = r.u8();
    let new_l = r.u128();
    let mut f = pre.clone();
    let apply = |f: &mut Ledger, post: &[PostAccount]| {
        for a in post {
            let exe = f.get(&a.key).map(|x| x.executable).unwrap_or(false);
            f.put(a.key, rt::Account { lamports: a.lamports, data: std::rc::Rc::new(a.data.clone()), owner: a.owner, executable: exe });
        }
    };
    // the owner never lacks funds on the copy (the single instruction only needs the net amount)
    let plain = |m: &solana_program::pubkey::Pubkey| pre.get(m).map(|a| a.owner == crate::ix::tok()).unwrap_or(false);
    let both_plain = plain(&w0.mint_a) && plain(&w0.mint_b);
    let mut topped: Vec<(solana_program::pubkey::Pubkey, u64)> = Vec::new();
    for k in [c.a("token_owner_account_a"), c.a("token_owner_account_b")] {
        if let Some(a) = f.get(&k).cloned() {
            if a.data.len() >= 72 {
                let mut d = (*a.data).clone();
                let have = u64::from_le_bytes(d[64..72].try_into().unwrap());
                let want = have.max(1u64 << 62);
                d[64..72].copy_from_slice(&want.to_le_bytes());
                f.put(k, rt::Account { lamports: a.lamports, data: std::rc::Rc::new(d), owner: a.owner, executable: false });
                topped.push((k, want));
            }
        }
    }
    let accs = |tl: solana_program::pubkey::Pubkey, tu: solana_program::pubkey::Pubkey| whirlpool::accounts::ModifyLiquidityV2 {
        whirlpool: wk,
        token_program_a: c.a("token_program_a"),
        token_program_b: c.a("token_program_b"),
        memo_program: c.a("memo_program"),
        position_authority: c.a("position_authority"),
        position: pk,
        position_token_account: c.a("position_token_account"),
        token_mint_a: c.a("token_mint_a"),
        token_mint_b: c.a("token_mint_b"),
        token_owner_account_a: c.a("token_owner_account_a"),
        token_owner_account_b: c.a("token_owner_account_b"),
        token_vault_a: c.a("token_vault_a"),
        token_vault_b: c.a("token_vault_b"),
        tick_array_lower: tl,
        tick_array_upper: tu,
    };
    if p0.liquidity > 0 {
        let dec = crate::ix::mk(
            accs(c.a("existing_tick_array_lower"), c.a("existing_tick_array_upper")),
            whirlpool::instruction::DecreaseLiquidityV2 { liquidity_amount: p0.liquidity, token_min_a: 0, token_min_b: 0, remaining_accounts_info: None },
        );
        let (o, pa) = rt::exec_ix_anchor_twin(&f, &dec, &ExecOpts::default());
        if !o.ok() {
            cov.note(&format!("c12_reposition_decomposition_withdrawal_fails_{:#x}", o.code.min(0xffff_ffff)));
            return;
        }
        apply(&mut f, &pa);
    }
    // re-range: owed amounts set aside for this one step
    let Some(pa) = f.get(&pk).cloned() else { return };
    if pa.data.len() != 216 {
        return;
    }
    let owed_ranges: [(usize, usize); 5] = [(112, 120), (136, 144), (160, 168), (184, 192), (208, 216)];
    let saved = (*pa.data).clone();
    let mut d = saved.clone();
    for (a, b) in owed_ranges {
        d[a..b].fill(0);
    }
    f.put(pk, rt::Account { lamports: pa.lamports, data: std::rc::Rc::new(d), owner: pa.owner, executable: false });
    let reset = crate::ix::mk(
        whirlpool::accounts::ResetPositionRange {
            funder: c.a("funder"),
            position_authority: c.a("position_authority"),
            whirlpool: wk,
            position: pk,
            position_token_account: c.a("position_token_account"),
            system_program: crate::ix::sys(),
        },
        whirlpool::instruction::ResetPositionRange { new_tick_lower_index: lo, new_tick_upper_index: hi },
    );
    let a = rt::exec_tx_simple(&mut f, &rt::Tx { ixs: vec![reset] });
    if !a.ok {
        cov.note(&format!("c12_reposition_decomposition_reset_fails_{:?}", a.custom()));
        return;
    }
    let Some(pa) = f.get(&pk).cloned() else { return };
    let mut d = (*pa.data).clone();
    for (a, b) in owed_ranges {
        d[a..b].copy_from_slice(&saved[a..b]);
    }
    f.put(pk, rt::Account { lamports: pa.lamports, data: std::rc::Rc::new(d), owner: pa.owner, executable: false });
    let inc = crate::ix::mk(
        accs(c.a("new_tick_array_lower"), c.a("new_tick_array_upper")),
        whirlpool::instruction::IncreaseLiquidityV2 { liquidity_amount: new_l, token_max_a: u64::MAX, token_max_b: u64::MAX, remaining_accounts_info: None },
    );
    let (o, pa2) = rt::exec_ix_anchor_twin(&f, &inc, &ExecOpts::default());
    if !o.ok() {
        // the single instruction succeeded: the deposit of the same liquidity into the same range must be computable
        // (with a transfer-fee mint the stand-alone deposit needs the fee-included amount of the whole cost, which may not be
        // computable - e.g. at a 100 % fee - while the single instruction only moves the net difference: not a disagreement)
        if is_program_code(o.code) && both_plain {
            out.push(viol("success_mismatch", idx, format!("reposition_liquidity_v2 succeeded, but the Anchor increase_liquidity_v2 of L={} into {}..{} on the re-ranged copy fails with {:#x}", new_l, lo, hi, o.code)));
        } else {
            cov.note(&format!("c12_reposition_decomposition_deposit_fails_{:#x}", o.code.min(0xffff_ffff)));
        }
        return;
    }
    apply(&mut f, &pa2);
    cov.eval(format!("reposition_decomposed|had_liquidity={}|dyn={}|sp={}", p0.liquidity > 0, [c.a("new_tick_array_lower"), c.a("existing_tick_array_lower")].iter().filter(|k| pre.data(k).map(|d| decode::is_kind(d, "DynamicTickArray")).unwrap_or(false)).count(), w0.tick_spacing));
    cov.probe("reposition_vs_anchor_decomposition_compared");
    let mut keys = vec![("whirlpool", wk), ("position", pk)];
    for n in ["existing_tick_array_lower", "existing_tick_array_upper", "new_tick_array_lower", "new_tick_array_upper"] {
        let k = c.a(n);
        // an existing array of an empty position is never looked at (known finding of C15): only arrays of this pool count
        let is_arr = pre.data(&k).map(|d| decode::tick_array(d).map(|t| t.whirlpool == wk).unwrap_or(false)).unwrap_or(false);
        if is_arr && !keys.iter().any(|(_, x)| *x == k) {
            keys.push((n, k));
        }
    }
    for (n, k) in &keys {
        let (l, t) = (post.data(k), f.data(k));
        if l != t {
            let first = match (l, t) {
                (Some(x), Some(y)) => x.iter().zip(y.iter()).position(|(p, q)| p != q),
                _ => None,
            };
            out.push(viol("reposition_differs_from_decomposition", idx, format!("reposition_liquidity_v2 ({}..{} L={} -> {}..{} L={}): account `{}` differs from withdraw + re-range + deposit through the Anchor implementation (len {:?} vs {:?}, first differing byte {:?})", p0.lower, p0.upper, p0.liquidity, lo, hi, new_l, n, l.map(|x| x.len()), t.map(|x| x.len()), first)));
            return;
        }
    }
    if both_plain {
        let amt = |l: &Ledger, k: &solana_program::pubkey::Pubkey| l.data(k).filter(|d| d.len() >= 72).map(|d| u64::from_le_bytes(d[64..72].try_into().unwrap()) as i128).unwrap_or(0);
        for n in ["token_vault_a", "token_vault_b"] {
            let k = c.a(n);
            if amt(post, &k) != amt(&f, &k) {
                out.push(viol("reposition_differs_from_decomposition", idx, format!("reposition_liquidity_v2: `{}` holds {} but {} after withdraw + re-range + deposit through the Anchor implementation", n, amt(post, &k), amt(&f, &k))));
                return;
            }
        }
        for (k, start) in &topped {
            let live = amt(post, k) - amt(pre, k);
            let twin = amt(&f, k) - *start as i128;
            if live != twin {
                out.push(viol("reposition_differs_from_decomposition", idx, format!("reposition_liquidity_v2 moved {} on the owner's account {} but the decomposition nets {}", live, k, twin)));
                return;
            }
        }
        cov.probe("reposition_net_token_movement_equals_decomposition");
    }
}

impl Monitor for C12 {
    fn name(&self) -> &'static str {
        "C12"
    }
    fn on_landed(&mut self, ev: &Landed, cov: &mut Coverage) -> Vec<Violation> {
        let mut out = Vec::new();
        // entrypoint routing vs public handlers, on every executed whirlpool instruction
        for (i, io) in ev.out.ix_outcomes.iter().enumerate() {
            if ev.tx.ixs[i].program_id == crate::ix::wp() {
                cov.probe("entrypoint_vs_handler_compared");
            }
            if let Some(m) = &io.routing_mismatch {
                let name = wpix::decode(&ev.tx.ixs[i]).map(|c| c.name()).unwrap_or("?");
                out.push(viol("routing_mismatch", ev.idx, format!("{}: {}", name, m)));
            }
        }
        if !out.is_empty() {
            return out;
        }
        if ev.out.ok {
            for v in ev.ix_views() {
                if rt::has_anchor_twin(v.ix) {
                    compare(v.pre, v.ix, None, ev.idx, cov, &mut out);
                } else if wpix::decode(v.ix).map(|c| c.name() == "increase_liquidity_by_token_amounts_v2").unwrap_or(false) {
                    compare_by_token_amounts(v.pre, v.post, v.ix, ev.idx, cov, &mut out);
                }
                if wpix::decode(v.ix).map(|c| c.name() == "reposition_liquidity_v2").unwrap_or(false) {
                    compare_reposition_range(v.pre, v.ix, true, None, ev.idx, cov, &mut out);
                    compare_reposition_decomposed(v.pre, v.post, v.ix, ev.idx, cov, &mut out);
                }
            }
        } else if ev.tx.ixs.len() == 1 && rt::has_anchor_twin(&ev.tx.ixs[0]) {
            let fc = ev.fail_cpi.and_then(|(i, k)| if i == 0 { Some(k) } else { None });
            compare(ev.pre, &ev.tx.ixs[0], fc, ev.idx, cov, &mut out);
        } else if ev.tx.ixs.len() == 1 && ev.fail_cpi.is_none() && wpix::decode(&ev.tx.ixs[0]).map(|c| c.name() == "reposition_liquidity_v2").unwrap_or(false) {
            compare_reposition_range(ev.pre, &ev.tx.ixs[0], false, ev.out.custom(), ev.idx, cov, &mut out);
        }
        out
    }
}
