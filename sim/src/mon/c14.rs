//! C14 — adaptive fees follow the volatility schedule and stay within the hard limit.
//! Naive group-by-group reference model written from the documentation (no skip optimisation).

use crate::decode::{self, AfConstants, AfVariables, MAX_TICK, MIN_TICK};
use crate::model;
use crate::mon::swaps::observe;
use crate::sim::{Coverage, Landed, Monitor, Violation};
use crate::wpix;
use num_bigint::BigUint;
use serde_json::json;

pub struct C14;

fn viol(class: &str, idx: usize, detail: String) -> Violation {
    Violation {
        property: "C14",
        class: class.to_string(),
        detail,
        event_idx: idx,
    }
}

fn floor_div(a: i32, b: i32) -> i32 {
    a.div_euclid(b)
}

/// documented rule for the reference at the start of a swap
pub fn model_reference(v: &AfVariables, c: &AfConstants, group: i32, now: u64) -> (AfVariables, &'static str) {
    let mut n = v.clone();
    let age = now.saturating_sub(v.last_reference_update_timestamp);
    if age > 3600 {
        n.tick_group_index_reference = group;
        n.volatility_reference = 0;
        n.last_reference_update_timestamp = now;
        // (the reset also applies inside the high-frequency window, i.e. after an unbroken hour-long chain of major swaps)
        let hf = now.saturating_sub(v.last_reference_update_timestamp.max(v.last_major_swap_timestamp)) < c.filter_period as u64;
        return (n, if hf { "reset_after_one_hour_inside_the_filter_window" } else { "reset_after_one_hour" });
    }
    let base = v.last_reference_update_timestamp.max(v.last_major_swap_timestamp);
    let elapsed = now.saturating_sub(base);
    if elapsed < c.filter_period as u64 {
        (n, "within_filter_period")
    } else if elapsed < c.decay_period as u64 {
        n.tick_group_index_reference = group;
        n.volatility_reference = (v.volatility_accumulator as u64 * c.reduction_factor as u64 / 10_000) as u32;
        n.last_reference_update_timestamp = now;
        (n, "decayed")
    } else {
        n.tick_group_index_reference = group;
        n.volatility_reference = 0;
        n.last_reference_update_timestamp = now;
        (n, "beyond_decay_period")
    }
}

pub fn model_acc(vol_ref: u32, ref_idx: i32, group: i32, c: &AfConstants) -> u32 {
    let d = (ref_idx as i64 - group as i64).unsigned_abs();
    (vol_ref as u64 + d * 10_000).min(c.max_volatility_accumulator as u64) as u32
}

pub fn model_rate(static_rate: u16, acc: u32, c: &AfConstants) -> u32 {
    let crossed = acc as u128 * c.tick_group_size as u128;
    let num = c.adaptive_fee_control_factor as u128 * crossed * crossed;
    let den: u128 = 100_000u128 * 10_000 * 10_000;
    let adaptive = ((num + den - 1) / den).min(100_000);
    (static_rate as u128 + adaptive).min(100_000) as u32
}

fn group_price(g: i32, gs: i32) -> Option<u128> {
    let t = g as i64 * gs as i64;
    if t < MIN_TICK as i64 || t > MAX_TICK as i64 {
        None
    } else {
        Some(model::sqrt_price_of_tick(t as i32))
    }
}

impl Monitor for C14 {
    fn name(&self) -> &'static str {
        "C14"
    }
    fn on_landed(&mut self, ev: &Landed, cov: &mut Coverage) -> Vec<Violation> {
        let mut out = Vec::new();
        let now = ev.clock.unix_timestamp.max(0) as u64;
        // trade-enable time, both directions
        if ev.tx.ixs.len() == 1 {
            if let Some(c) = wpix::decode(&ev.tx.ixs[0]) {
                if matches!(c.name(), "swap" | "swap_v2") {
                    if let Some(o) = ev.pre.data(&c.a("oracle")).and_then(decode::oracle) {
                        if o.trade_enable_timestamp > 0 {
                            cov.eval(format!("{}|trade_enable|before={}|ok={}", c.name(), now < o.trade_enable_timestamp, ev.out.ok));
                        }
                        if ev.out.ok && now < o.trade_enable_timestamp {
                            out.push(viol("traded_before_enable_time", ev.idx, format!("swap succeeded at {} but trading is enabled from {}", now, o.trade_enable_timestamp)));
                        }
                        if !ev.out.ok && ev.out.custom() == Some(6064) {
                            cov.probe("trade_refused_before_enable_time");
                            if now >= o.trade_enable_timestamp {
                                out.push(viol("refused_after_enable_time", ev.idx, format!("swap refused as not enabled at {} but trading is enabled from {}", now, o.trade_enable_timestamp)));
                            }
                        }
                    }
                }
            }
        }
        // "trading is refused before the pool's trade-enable time" - not because somebody sent lamports to the address where a
        // static-fee pool's oracle would live: a refused swap / two-hop whose oracle address holds lamports and nothing else
        // is replayed on a copy without them; if it then goes through, the lamports decided
        if ev.tx.ixs.len() == 1 && !ev.out.ok && ev.fail_cpi.is_none() {
            if let Some(c) = wpix::decode(&ev.tx.ixs[0]) {
                if matches!(c.name(), "swap" | "swap_v2" | "two_hop_swap" | "two_hop_swap_v2") {
                    let funded: Vec<solana_program::pubkey::Pubkey> = ["oracle", "oracle_one", "oracle_two"].iter().filter_map(|n| c.acct(n)).filter(|k| ev.pre.get(k).map(|a| a.owner == crate::ix::sys() && a.data.is_empty() && a.lamports > 0).unwrap_or(false)).collect();
                    if !funded.is_empty() {
                        let mut f = ev.pre.clone();
                        for k in &funded {
                            f.accts.remove(k);
                        }
                        let r = crate::rt::exec_tx_simple(&mut f, ev.tx);
                        cov.probe("refused_trade_replayed_without_lamports_at_the_oracle_address");
                        if r.ok {
                            out.push(viol("lamports_at_the_oracle_address_block_trading", ev.idx, format!("{} is refused ({:?}) while the oracle address {} of a pool without an oracle holds lamports, and goes through on a copy without them", c.name(), ev.out.custom(), funded[0])));
                            return out;
                        }
                    }
                }
            }
        }
        // two-hop: either pool's trade-enable time
        if ev.tx.ixs.len() == 1 {
            if let Some(c) = wpix::decode(&ev.tx.ixs[0]) {
                if matches!(c.name(), "two_hop_swap" | "two_hop_swap_v2") {
                    let gates: Vec<u64> = ["oracle_one", "oracle_two"].iter().map(|n| ev.pre.data(&c.a(n)).and_then(decode::oracle).map(|o| o.trade_enable_timestamp).unwrap_or(0)).collect();
                    if gates.iter().any(|t| *t > 0) {
                        cov.eval(format!("{}|trade_enable|before={}|ok={}", c.name(), gates.iter().any(|t| now < *t), ev.out.ok));
                    }
                    if ev.out.ok {
                        for (leg, t) in gates.iter().enumerate() {
                            if now < *t {
                                out.push(viol("traded_before_enable_time", ev.idx, format!("{} succeeded at {} but trading in its pool {} is enabled from {}", c.name(), now, if leg == 0 { "one" } else { "two" }, t)));
                            }
                        }
                    } else if ev.out.custom() == Some(6064) {
                        cov.probe("trade_refused_before_enable_time");
                        if gates.iter().all(|t| now >= *t) {
                            out.push(viol("refused_after_enable_time", ev.idx, format!("{} refused as not enabled at {} but both pools are enabled ({:?})", c.name(), now, gates)));
                        }
                    }
                }
            }
        }
        if !ev.out.ok {
            return out;
        }
        // the constants a swap is charged by are the constants that were configured: tier creation, preset changes, pool
        // creation and constant changes store exactly their arguments (resp. the tier's preset)
        for v in ev.ix_views() {
            if let Some(d) = crate::mon::setters::echo_mismatch(&v, true) {
                out.push(viol("constants_not_stored_as_configured", ev.idx, d));
                return out;
            }
        }
        // an oracle is born without a past: no reference, no accumulator, no timestamps - whatever trade-enable time it is given
        if ev.tx.ixs.len() == 1 {
            for m in ev.tx.ixs[0].accounts.iter() {
                if ev.pre.get(&m.pubkey).map(|a| a.owner != crate::ix::wp()).unwrap_or(true) {
                    if let Some(o) = ev.post.get(&m.pubkey).filter(|a| a.owner == crate::ix::wp()).and_then(|a| decode::oracle(&a.data)) {
                        cov.probe("oracle_created");
                        if o.v != AfVariables::default() {
                            out.push(viol("fresh_oracle_has_a_past", ev.idx, format!("after {} the new oracle {} (trade-enable time {}) already carries variables {:?}", ev.tag, m.pubkey, o.trade_enable_timestamp, o.v)));
                            return out;
                        }
                    }
                }
            }
        }
        // state invariant after every transaction: the stored accumulator never exceeds the configured maximum
        for m in ev.tx.ixs.iter().flat_map(|i| i.accounts.iter()) {
            if let (Some(pre_o), Some(post_o)) = (ev.pre.get(&m.pubkey).filter(|a| a.owner == crate::ix::wp()).and_then(|a| decode::oracle(&a.data)), ev.post.get(&m.pubkey).filter(|a| a.owner == crate::ix::wp()).and_then(|a| decode::oracle(&a.data))) {
                if post_o.c != pre_o.c {
                    cov.probe("constants_changed_on_a_live_pool");
                    if pre_o.v.volatility_accumulator > post_o.c.max_volatility_accumulator {
                        cov.probe("maximum_lowered_below_the_stored_accumulator");
                    }
                }
                // the trade-enable time is fixed when the pool is created; nothing afterwards may move (or clear) the gate
                if post_o.trade_enable_timestamp != pre_o.trade_enable_timestamp || post_o.whirlpool != pre_o.whirlpool {
                    out.push(viol("trade_enable_time_changed", ev.idx, format!("after {} the oracle {} names pool {} with trade-enable time {} (before: pool {} time {}); trading must stay refused until the time set at creation", ev.tag, m.pubkey, post_o.whirlpool, post_o.trade_enable_timestamp, pre_o.whirlpool, pre_o.trade_enable_timestamp)));
                    return out;
                }
                if post_o.trade_enable_timestamp > ev.clock.unix_timestamp.max(0) as u64 && post_o.c != pre_o.c {
                    cov.probe("constants_changed_before_the_trade_enable_time");
                }
                // the constants a pool is charged by always satisfy the published validity rules (periods ordered, factors below
                // their denominators, group size dividing the tick spacing, accumulator x group size within 32 bits)
                // ... and are changed only by a call that names the pool they belong to (the constants of pool B are not
                // reachable through a call naming pool A, whoever signs it)
                if post_o.c != pre_o.c {
                    let named = ev.tx.ixs.iter().filter_map(wpix::decode).any(|c| c.name() == "set_adaptive_fee_constants" && c.a("whirlpool") == post_o.whirlpool && c.a("oracle") == m.pubkey);
                    if !named {
                        out.push(viol("constants_changed_through_another_pool", ev.idx, format!("after {} the constants of oracle {} (pool {}) changed although no call in the transaction names that pool with that oracle", ev.tag, m.pubkey, post_o.whirlpool)));
                        return out;
                    }
                }
                // a change of constants starts the volatility bookkeeping afresh: no reference, no accumulator and no timestamp
                // of the old regime survives (a leftover timestamp would make the next swap "high frequency" against a
                // reference that no rule produced)
                if ev.tx.ixs.len() == 1 && post_o.c != pre_o.c && post_o.v != AfVariables::default() {
                    out.push(viol("variables_survive_a_constants_change", ev.idx, format!("after {} changed the constants of oracle {} its variables read {:?}; they start afresh (all zero) under new constants", ev.tag, m.pubkey, post_o.v)));
                    return out;
                }
                if post_o.c != pre_o.c {
                    if let Some(sp) = ev.post.data(&post_o.whirlpool).and_then(decode::pool).map(|p| p.tick_spacing) {
                        if !crate::mon::c19::constants_valid(&post_o.c, sp) {
                            out.push(viol("invalid_constants_installed", ev.idx, format!("after {} the oracle {} of a pool with tick spacing {} carries constants outside the validity rules: {:?}", ev.tag, m.pubkey, sp, post_o.c)));
                            return out;
                        }
                    }
                }
                if post_o.v.volatility_accumulator > post_o.c.max_volatility_accumulator {
                    out.push(viol("stored_accumulator_above_maximum", ev.idx, format!("after {} the oracle {} stores volatility accumulator {} but the configured maximum is {}", ev.tag, m.pubkey, post_o.v.volatility_accumulator, post_o.c.max_volatility_accumulator)));
                    return out;
                }
            }
        }
        for v in ev.ix_views() {
            let Some(c) = wpix::decode(v.ix) else { continue };
            if !matches!(c.name(), "swap" | "swap_v2" | "two_hop_swap" | "two_hop_swap_v2") {
                continue;
            }
            // control factor zero: the same swap on a copy of the state without the oracle account (a static-fee pool with the
            // same rate) must leave the same pool, vaults and trader balances - "charges exactly like a static-fee pool"
            if matches!(c.name(), "swap" | "swap_v2") {
                let ok_key = c.a("oracle");
                if v.pre.data(&ok_key).and_then(decode::oracle).map(|o| o.c.adaptive_fee_control_factor == 0).unwrap_or(false) {
                    let mut f = v.pre.clone();
                    f.accts.remove(&ok_key);
                    let r = crate::rt::exec_tx_simple(&mut f, &crate::rt::Tx { ixs: vec![v.ix.clone()] });
                    cov.probe("zero_control_factor_static_twin");
                    let wk = c.a("whirlpool");
                    let same = r.ok
                        && f.data(&wk) == v.post.data(&wk)
                        && ["token_vault_a", "token_vault_b", "token_owner_account_a", "token_owner_account_b"].iter().all(|n| crate::world::token_amount(&f, &c.a(n)) == crate::world::token_amount(v.post, &c.a(n)));
                    if !same {
                        let (pa, pb) = (f.data(&wk).and_then(decode::pool), v.post.data(&wk).and_then(decode::pool));
                        out.push(viol("zero_control_factor_differs_from_static", ev.idx, format!("{} on a pool with control factor 0: without the oracle (static-fee pool) ok={} price {:?} fee growth {:?} / {:?} protocol {:?} / {:?}; with it price {:?} fee growth {:?} / {:?} protocol {:?} / {:?}", c.name(), r.ok,
                            pa.as_ref().map(|p| p.sqrt_price), pa.as_ref().map(|p| p.fee_growth_global_a), pa.as_ref().map(|p| p.fee_growth_global_b), pa.as_ref().map(|p| p.protocol_fee_owed_a), pa.as_ref().map(|p| p.protocol_fee_owed_b),
                            pb.as_ref().map(|p| p.sqrt_price), pb.as_ref().map(|p| p.fee_growth_global_a), pb.as_ref().map(|p| p.fee_growth_global_b), pb.as_ref().map(|p| p.protocol_fee_owed_a), pb.as_ref().map(|p| p.protocol_fee_owed_b))));
                        return out;
                    }
                }
            }
            // Byzantine trader on a copy: the oracle slot of an adaptive-fee pool holds some empty address instead of the
            // pool's oracle account. Such a swap would be charged without the adaptive part (and pass the trade-enable
            // gate unseen), so it must not go through.
            if ev.salt % 2 == 0 {
                for slot in ["oracle", "oracle_one", "oracle_two"] {
                    let Some(si) = c.idx(slot) else { continue };
                    let ok_key = v.ix.accounts[si].pubkey;
                    if v.pre.data(&ok_key).and_then(decode::oracle).is_none() {
                        continue;
                    }
                    let mut ix2 = v.ix.clone();
                    ix2.accounts[si].pubkey = crate::world::scratch_key(ev.salt, 9100 + si as u64);
                    let mut f = v.pre.clone();
                    let r = crate::rt::exec_tx_simple(&mut f, &crate::rt::Tx { ixs: vec![ix2] });
                    cov.probe("substitute_oracle_address_forks");
                    cov.eval(format!("{}|substitute_oracle|ok={}", c.name(), r.ok));
                    if r.ok {
                        out.push(viol("adaptive_fee_bypassed", ev.idx, format!("{} on an adaptive-fee pool succeeds with an empty address in the `{}` slot instead of the pool's oracle account: no adaptive fee, no trade-enable gate, no volatility update", c.name(), slot)));
                        return out;
                    }
                }
            }
            // the oracle of an adaptive-fee pool offered read-only: a swap must not trade without recording the adaptive-fee
            // state (it either refuses, or leaves the oracle exactly as the writable run does)
            if ev.salt % 2 == 1 {
                for slot in ["oracle", "oracle_one", "oracle_two"] {
                    let Some(si) = c.idx(slot) else { continue };
                    let ok_key = v.ix.accounts[si].pubkey;
                    if v.pre.data(&ok_key).and_then(decode::oracle).is_none() {
                        continue;
                    }
                    let mut ix2 = v.ix.clone();
                    for m in ix2.accounts.iter_mut() {
                        if m.pubkey == ok_key {
                            m.is_writable = false;
                        }
                    }
                    let mut f = v.pre.clone();
                    let r = crate::rt::exec_tx_simple(&mut f, &crate::rt::Tx { ixs: vec![ix2] });
                    cov.probe("read_only_oracle_forks");
                    cov.eval(format!("{}|read_only_oracle|ok={}", c.name(), r.ok));
                    if r.ok && f.data(&ok_key) != v.post.data(&ok_key) {
                        out.push(viol("traded_without_recording_state", ev.idx, format!("{} on an adaptive-fee pool succeeds with the `{}` account read-only and leaves the oracle without the update the same swap makes when the account is writable", c.name(), slot)));
                        return out;
                    }
                }
            }
            for o in observe(v.ix, v.out, v.pre, v.post) {
                let okey = crate::ix::pda_oracle(&o.whirlpool);
                let (Some(pre_o), Some(post_o)) = (v.pre.data(&okey).and_then(decode::oracle), v.post.data(&okey).and_then(decode::oracle)) else {
                    continue;
                };
                let k = &pre_o.c;
                let gs = k.tick_group_size as i32;
                if gs == 0 {
                    continue;
                }
                if post_o.c != pre_o.c || post_o.trade_enable_timestamp != pre_o.trade_enable_timestamp {
                    out.push(viol("swap_changed_constants", ev.idx, "a swap changed the adaptive-fee constants".into()));
                }
                // reference at the start of the swap
                let g0 = floor_div(o.pre.tick_current_index, gs);
                let (r, class) = model_reference(&pre_o.v, k, g0, now);
                cov.eval(format!(
                    "{}|{}|{}|cf0={}|steps={}|skipped={}|sat={}",
                    o.ix_name,
                    if o.a_to_b { "a2b" } else { "b2a" },
                    class,
                    k.adaptive_fee_control_factor == 0,
                    o.trace.steps.len().min(6),
                    o.trace.steps.iter().any(|s| s.adaptive_skipped),
                    o.trace.steps.iter().any(|s| s.volatility_accumulator == k.max_volatility_accumulator)
                ));
                cov.probe(&format!("reference_{}", class));
                if post_o.v.last_reference_update_timestamp != r.last_reference_update_timestamp
                    || post_o.v.volatility_reference != r.volatility_reference
                    || post_o.v.tick_group_index_reference != r.tick_group_index_reference
                {
                    out.push(viol(
                        "reference_rule",
                        ev.idx,
                        format!("elapsed-time class `{}` (now {}, last reference update {}, last major swap {}, filter {}, decay {}): expected reference (group {}, volatility {}, updated {}) but stored (group {}, volatility {}, updated {})",
                            class, now, pre_o.v.last_reference_update_timestamp, pre_o.v.last_major_swap_timestamp, k.filter_period, k.decay_period,
                            r.tick_group_index_reference, r.volatility_reference, r.last_reference_update_timestamp,
                            post_o.v.tick_group_index_reference, post_o.v.volatility_reference, post_o.v.last_reference_update_timestamp),
                    ));
                    continue;
                }
                // per-step rates
                let static_rate = o.pre.fee_rate;
                for (i, s) in o.trace.steps.iter().enumerate() {
                    if !s.adaptive {
                        out.push(viol("static_manager_on_adaptive_pool", ev.idx, "an adaptive-fee pool was swapped with the static fee manager".into()));
                        break;
                    }
                    if s.volatility_accumulator > k.max_volatility_accumulator {
                        out.push(viol("accumulator_above_max", ev.idx, format!("step {} accumulator {} > max {}", i, s.volatility_accumulator, k.max_volatility_accumulator)));
                    }
                    if s.total_fee_rate > 100_000 || s.total_fee_rate < static_rate as u32 {
                        out.push(viol("rate_out_of_bounds", ev.idx, format!("step {} rate {} outside [{}, 100000]", i, s.total_fee_rate, static_rate)));
                    }
                    if s.total_fee_rate > 65_535 {
                        cov.probe("step_charged_above_the_16_bit_rate_range");
                    }
                    if s.total_fee_rate == 100_000 {
                        cov.probe("step_charged_the_ten_percent_cap");
                    }
                    if k.adaptive_fee_control_factor == 0 && s.total_fee_rate != static_rate as u32 {
                        out.push(viol("zero_control_factor_not_static", ev.idx, format!("control factor 0 but step {} charged {} instead of the static {}", i, s.total_fee_rate, static_rate)));
                    }
                    // a zero-length step or a step without liquidity charges nothing by rate
                    if s.sqrt_price_next == s.sqrt_price_start || s.liquidity == 0 || s.amount_in == 0 {
                        continue;
                    }
                    // "charged the static rate plus the adaptive rate": the fee taken on a step that ran to its target (and on every
                    // exact-out step) is the rate's share of the input, ceil(in * rate / (1e6 - rate)) - not that of another rate
                    if s.sqrt_price_next == s.sqrt_price_target || !o.is_input {
                        let expect = model::fee_for_amount_in(s.amount_in, s.total_fee_rate);
                        if num_bigint::BigUint::from(s.fee_amount) != expect {
                            out.push(viol("step_fee_not_by_rate", ev.idx, format!("step {} took a fee of {} on an input of {} although its rate {} (static {} + adaptive) calls for {}", i, s.fee_amount, s.amount_in, s.total_fee_rate, static_rate, expect)));
                            break;
                        }
                    }
                    // tick groups the step's price interval lies in
                    let (lo_p, hi_p) = if o.a_to_b { (s.sqrt_price_next, s.sqrt_price_start) } else { (s.sqrt_price_start, s.sqrt_price_next) };
                    // group of a price approached from the right (a_to_b start) / containing (b_to_a start)
                    let t_hi = model::tick_of_sqrt_price(hi_p);
                    let t_lo = model::tick_of_sqrt_price(lo_p);
                    let mut g_hi = floor_div(t_hi, gs);
                    // hi_p exactly on a group boundary belongs to the group on the left for the interval (lo, hi]
                    if group_price(g_hi, gs) == Some(hi_p) {
                        g_hi -= 1;
                    }
                    let g_lo = floor_div(t_lo, gs);
                    let g_lo = g_lo.min(g_hi);
                    let span = (g_hi as i64 - g_lo as i64) as u64;
                    if span > 0 {
                        cov.probe("step_spanning_several_groups");
                    }
                    let mut groups: Vec<i32> = Vec::new();
                    if span <= 4000 {
                        groups.extend(g_lo..=g_hi);
                    } else {
                        groups.extend([g_lo, g_lo + 1, g_hi - 1, g_hi, g_lo + (span / 2) as i32]);
                    }
                    for g in groups {
                        let acc = model_acc(r.volatility_reference, r.tick_group_index_reference, g, k);
                        let rate = model_rate(static_rate, acc, k);
                        if rate != s.total_fee_rate {
                            out.push(viol(
                                "step_rate",
                                ev.idx,
                                format!("step {} ({} -> {}) charged rate {} but tick group {} (reference group {}, volatility reference {}, accumulator {}) calls for {}",
                                    i, s.sqrt_price_start, s.sqrt_price_next, s.total_fee_rate, g, r.tick_group_index_reference, r.volatility_reference, acc, rate),
                            ));
                            break;
                        }
                    }
                    if !out.is_empty() {
                        break;
                    }
                }
                if !out.is_empty() {
                    continue;
                }
                // stored accumulator: the group where the swap ended, or an adjacent one
                if !o.trace.steps.is_empty() {
                    let g_end = floor_div(model::tick_of_sqrt_price(o.post.sqrt_price), gs);
                    // the group where the swap ended, or the adjacent one in the trade direction. Going down, a
                    // price on a group boundary is the lower end of group g_end; going up it is the upper end of g_end - 1.
                    let on_boundary = group_price(g_end, gs) == Some(o.post.sqrt_price);
                    let groups: [i32; 2] = if o.a_to_b {
                        [g_end, g_end - 1]
                    } else if on_boundary {
                        [g_end - 1, g_end]
                    } else {
                        [g_end, g_end + 1]
                    };
                    let allowed: Vec<u32> = groups.iter().map(|g| model_acc(r.volatility_reference, r.tick_group_index_reference, *g, k)).collect();
                    if !allowed.contains(&post_o.v.volatility_accumulator) {
                        out.push(viol("stored_accumulator", ev.idx, format!("swap ended in tick group {} (reference {}, volatility reference {}): stored accumulator {} not in {:?}", g_end, r.tick_group_index_reference, r.volatility_reference, post_o.v.volatility_accumulator, allowed)));
                    }
                    if post_o.v.volatility_accumulator > k.max_volatility_accumulator {
                        out.push(viol("accumulator_above_max", ev.idx, format!("stored accumulator {} > max {}", post_o.v.volatility_accumulator, k.max_volatility_accumulator)));
                    }
                }
                // major swap timestamp
                let (small, large) = if o.pre.sqrt_price <= o.post.sqrt_price { (o.pre.sqrt_price, o.post.sqrt_price) } else { (o.post.sqrt_price, o.pre.sqrt_price) };
                let factor = model::sqrt_price_of_tick(k.major_swap_threshold_ticks as i32);
                let target: BigUint = (BigUint::from(small) * BigUint::from(factor)) >> 64usize;
                let band = &target / BigUint::from(1_000_000_000u64) + BigUint::from(2u32);
                let large_b = BigUint::from(large);
                let was_set = post_o.v.last_major_swap_timestamp == now && (pre_o.v.last_major_swap_timestamp != now || true);
                let changed = post_o.v.last_major_swap_timestamp != pre_o.v.last_major_swap_timestamp;
                if large_b >= &target + &band {
                    cov.probe("major_swap");
                    if post_o.v.last_major_swap_timestamp != now {
                        out.push(viol("major_swap_not_recorded", ev.idx, format!("price moved {} -> {} (threshold {} ticks) but the major-swap timestamp is {} (now {})", o.pre.sqrt_price, o.post.sqrt_price, k.major_swap_threshold_ticks, post_o.v.last_major_swap_timestamp, now)));
                    }
                } else if &large_b + &band <= target {
                    if changed {
                        out.push(viol("minor_swap_recorded_as_major", ev.idx, format!("price moved {} -> {} (threshold {} ticks) but the major-swap timestamp changed {} -> {}", o.pre.sqrt_price, o.post.sqrt_price, k.major_swap_threshold_ticks, pre_o.v.last_major_swap_timestamp, post_o.v.last_major_swap_timestamp)));
                    }
                } else {
                    cov.probe("major_swap_threshold_tolerance_band");
                    let _ = was_set;
                    // inside the band the documented integer formula decides: "equivalent to the threshold or more", i.e. a
                    // price exactly at smaller x factor >> 64 counts as a major swap
                    if large_b == target {
                        cov.probe("price_moved_exactly_to_the_major_swap_target");
                        if post_o.v.last_major_swap_timestamp != now {
                            out.push(viol("major_swap_not_recorded", ev.idx, format!("price moved {} -> {}, exactly the documented target for a threshold of {} ticks (smaller price x factor >> 64), but the major-swap timestamp is {} (now {})", o.pre.sqrt_price, o.post.sqrt_price, k.major_swap_threshold_ticks, post_o.v.last_major_swap_timestamp, now)));
                        }
                    }
                }
                if out.is_empty() && o.trace.steps.iter().any(|s| s.amount_in > 0) {
                    cov.sample(json!({"ix": o.ix_name, "a_to_b": o.a_to_b, "elapsed_class": class, "constants": format!("{:?}", k), "reference": [r.tick_group_index_reference, r.volatility_reference],
                        "steps": o.trace.steps.iter().take(6).map(|s| json!({"group": s.tick_group_index, "acc": s.volatility_accumulator, "rate": s.total_fee_rate, "skipped": s.adaptive_skipped, "in": s.amount_in})).collect::<Vec<_>>(),
                        "stored_accumulator": post_o.v.volatility_accumulator}));
                }
            }
        }
        out
    }
}
