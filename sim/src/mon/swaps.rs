//! Swap observation shared by C03 / C06 / C07 / C10, and the C03 and C06 monitors.

use crate::decode::{self, Pool, MAX_SQRT_PRICE, MIN_SQRT_PRICE};
use crate::model;
use crate::rt::{IxOutcome, Ix, Ledger};
use crate::sim::{Coverage, Landed, Monitor, Violation};
use crate::world::token_amount;
use crate::wpix::{self, Call};
use num_bigint::BigUint;
use num_traits::{ToPrimitive, Zero};
use serde_json::json;
use solana_program::pubkey::Pubkey;
use whirlpool::verif_hooks::{SwapStep, SwapTrace};

#[derive(Clone, Debug)]
pub struct Traded {
    pub whirlpool: Pubkey,
    pub a_to_b: bool,
    pub pre_sqrt_price: u128,
    pub post_sqrt_price: u128,
    pub input_amount: u64,
    pub output_amount: u64,
    pub input_transfer_fee: u64,
    pub output_transfer_fee: u64,
    pub lp_fee: u64,
    pub protocol_fee: u64,
}

pub fn traded_events(o: &IxOutcome) -> Vec<Traded> {
    let d = decode::event_disc("Traded");
    let mut v = Vec::new();
    for (pid, fields) in &o.events {
        if *pid != crate::ix::wp() {
            continue;
        }
        for f in fields {
            if f.len() >= 8 + 32 + 1 + 16 + 16 + 8 * 6 && f[..8] == d {
                let mut r = decode::Rd::new(f, 8);
                v.push(Traded {
                    whirlpool: r.key(),
                    a_to_b: r.bool(),
                    pre_sqrt_price: r.u128(),
                    post_sqrt_price: r.u128(),
                    input_amount: r.u64(),
                    output_amount: r.u64(),
                    input_transfer_fee: r.u64(),
                    output_transfer_fee: r.u64(),
                    lp_fee: r.u64(),
                    protocol_fee: r.u64(),
                });
            }
        }
    }
    v
}

/// One executed swap against one pool (a single swap, or one leg of a two-hop).
pub struct SwapObs<'a> {
    pub ix_name: &'static str,
    pub whirlpool: Pubkey,
    pub pre: Pool,
    pub post: Pool,
    pub a_to_b: bool,
    pub is_input: bool,
    /// amount handed to the swap loop for this leg
    pub amount: u64,
    pub limit: u128,
    pub trace: &'a SwapTrace,
    pub event: Option<Traded>,
    /// true when both mints are plain (no transfer fee): balances move exactly the curve amounts
    pub plain: bool,
    /// for single swaps: trader's input/output token accounts and the vaults
    pub single: Option<SingleSwapBalances>,
}

pub struct SingleSwapBalances {
    pub threshold: u64,
    pub trader_in_delta: i128,  // post - pre of the trader's input-token account
    pub trader_out_delta: i128,
    pub vault_in_delta: i128,
    pub vault_out_delta: i128,
    pub authority: Pubkey,
    pub authority_lamports_delta: i128,
}

fn has_transfer_fee(l: &Ledger, mint: &Pubkey) -> bool {
    match l.get(mint) {
        Some(a) if a.owner == crate::ix::tok22() => decode::tlv_entries(&a.data).iter().any(|(t, _)| *t == 1),
        _ => false,
    }
}

fn bal_delta(pre: &Ledger, post: &Ledger, k: &Pubkey) -> i128 {
    token_amount(post, k) as i128 - token_amount(pre, k) as i128
}

fn lamports_delta(pre: &Ledger, post: &Ledger, k: &Pubkey) -> i128 {
    post.get(k).map(|a| a.lamports).unwrap_or(0) as i128 - pre.get(k).map(|a| a.lamports).unwrap_or(0) as i128
}

/// Extract the swaps executed by one successful instruction.
pub fn observe<'a>(ix: &Ix, out: &'a IxOutcome, pre: &Ledger, post: &Ledger) -> Vec<SwapObs<'a>> {
    let mut v = Vec::new();
    let Some(c) = wpix::decode(ix) else { return v };
    let events = traded_events(out);
    match c.name() {
        "swap" | "swap_v2" => {
            let a = wpix::swap_args(&c);
            let wk = c.a("whirlpool");
            let (Some(prep), Some(postp)) = (pre.data(&wk).and_then(decode::pool), post.data(&wk).and_then(decode::pool)) else {
                return v;
            };
            let Some(trace) = out.traces.first() else { return v };
            let (oin, oout, vin, vout) = if a.a_to_b {
                (c.a("token_owner_account_a"), c.a("token_owner_account_b"), c.a("token_vault_a"), c.a("token_vault_b"))
            } else {
                (c.a("token_owner_account_b"), c.a("token_owner_account_a"), c.a("token_vault_b"), c.a("token_vault_a"))
            };
            let plain = !has_transfer_fee(pre, &prep.mint_a) && !has_transfer_fee(pre, &prep.mint_b);
            let auth = c.a("token_authority");
            v.push(SwapObs {
                ix_name: c.name(),
                whirlpool: wk,
                pre: prep,
                post: postp,
                a_to_b: a.a_to_b,
                is_input: a.is_input,
                amount: trace.amount,
                limit: a.limit,
                trace,
                event: events.into_iter().find(|e| e.whirlpool == wk),
                plain,
                single: Some(SingleSwapBalances {
                    threshold: a.threshold,
                    trader_in_delta: bal_delta(pre, post, &oin),
                    trader_out_delta: bal_delta(pre, post, &oout),
                    vault_in_delta: bal_delta(pre, post, &vin),
                    vault_out_delta: bal_delta(pre, post, &vout),
                    authority: auth,
                    authority_lamports_delta: lamports_delta(pre, post, &auth),
                }),
            });
        }
        "two_hop_swap" | "two_hop_swap_v2" => {
            let a = wpix::two_hop_args(&c);
            let w1 = c.a("whirlpool_one");
            let w2 = c.a("whirlpool_two");
            if out.traces.len() < 2 {
                return v;
            }
            // exact-in computes leg one first, exact-out leg two first; identify the final
            // (committed) traces by pool pre-state and direction, scanning from the end
            let mut legs: Vec<(Pubkey, bool, u128)> = vec![(w1, a.a_to_b_one, a.limit_one), (w2, a.a_to_b_two, a.limit_two)];
            if !a.is_input {
                legs.reverse();
            }
            let n = out.traces.len();
            let picked = [&out.traces[n - 2], &out.traces[n - 1]];
            for (i, (wk, atb, limit)) in legs.into_iter().enumerate() {
                let (Some(prep), Some(postp)) = (pre.data(&wk).and_then(decode::pool), post.data(&wk).and_then(decode::pool)) else {
                    continue;
                };
                let plain = !has_transfer_fee(pre, &prep.mint_a) && !has_transfer_fee(pre, &prep.mint_b);
                let ev = events.iter().find(|e| e.whirlpool == wk).cloned();
                v.push(SwapObs {
                    ix_name: c.name(),
                    whirlpool: wk,
                    pre: prep,
                    post: postp,
                    a_to_b: atb,
                    is_input: a.is_input,
                    amount: picked[i].amount,
                    limit,
                    trace: picked[i],
                    event: ev,
                    plain,
                    single: None,
                });
            }
        }
        _ => {}
    }
    v
}

fn viol(prop: &'static str, class: &str, idx: usize, detail: String) -> Violation {
    Violation {
        property: prop,
        class: class.to_string(),
        detail,
        event_idx: idx,
    }
}

pub fn effective_limit(limit: u128, a_to_b: bool) -> u128 {
    if limit == 0 {
        if a_to_b {
            MIN_SQRT_PRICE
        } else {
            MAX_SQRT_PRICE
        }
    } else {
        limit
    }
}

pub fn abstract_state_key(o: &SwapObs) -> String {
    let steps = o.trace.steps.len();
    let crossed = o.trace.steps.iter().filter(|s| s.crossed_tick.is_some()).count();
    let zero_liq = o.trace.steps.iter().any(|s| s.liquidity == 0);
    let partial = o.post.sqrt_price == effective_limit(o.limit, o.a_to_b);
    format!(
        "{}|{}|{}|steps={}|crossed={}|zeroL={}|atlimit={}|limit={}|sp={}|fee={}|pfee={}",
        o.ix_name,
        if o.a_to_b { "a2b" } else { "b2a" },
        if o.is_input { "in" } else { "out" },
        steps.min(6),
        crossed.min(4),
        zero_liq,
        partial,
        o.limit != 0,
        o.pre.tick_spacing,
        o.pre.fee_rate.min(1) as u32 + (o.pre.fee_rate >= 30000) as u32,
        o.pre.protocol_fee_rate > 0,
    )
}

// ---------------------------------------------------------------------------------------------
// C06
// ---------------------------------------------------------------------------------------------

pub struct C06;

pub struct StepSums {
    pub sum_in: u128,
    pub sum_fee: u128,
    pub sum_out: u128,
    pub sum_share: u128,
    pub growth: u128, // wrapping
}

/// Validate the per-step trace of one swap against exact arithmetic. Returns the sums.
pub fn check_trace(o: &SwapObs, idx: usize, out: &mut Vec<Violation>, prop: &'static str) -> StepSums {
    let t = o.trace;
    let mut sums = StepSums {
        sum_in: 0,
        sum_fee: 0,
        sum_out: 0,
        sum_share: 0,
        growth: 0,
    };
    let mut remaining: u64 = t.amount;
    let mut price = o.pre.sqrt_price;
    let mut liq = o.pre.liquidity;
    let mut prev_protocol: u64 = 0;
    let mut prev_growth: u128 = if o.a_to_b { o.pre.fee_growth_global_a } else { o.pre.fee_growth_global_b };
    let adaptive_pool = t.steps.iter().any(|s| s.adaptive);
    for (i, s) in t.steps.iter().enumerate() {
        let s: &SwapStep = s;
        if s.sqrt_price_start != price {
            out.push(viol(prop, "trace_chain", idx, format!("step {} starts at {} but previous price is {}", i, s.sqrt_price_start, price)));
            return sums;
        }
        if s.liquidity != liq {
            out.push(viol(prop, "trace_liquidity_chain", idx, format!("step {} liquidity {} but running liquidity {}", i, s.liquidity, liq)));
            return sums;
        }
        // direction and target
        let moved_ok = if o.a_to_b {
            s.sqrt_price_next <= s.sqrt_price_start && s.sqrt_price_next >= s.sqrt_price_target
        } else {
            s.sqrt_price_next >= s.sqrt_price_start && s.sqrt_price_next <= s.sqrt_price_target
        };
        if !moved_ok {
            out.push(viol(prop, "step_direction", idx, format!("step {} moved {} -> {} with target {} (a_to_b={})", i, s.sqrt_price_start, s.sqrt_price_next, s.sqrt_price_target, o.a_to_b)));
        }
        // rate bounds
        let max_rate = if adaptive_pool { 100_000 } else { 60_000 };
        if s.total_fee_rate > max_rate || (!adaptive_pool && s.total_fee_rate != o.pre.fee_rate as u32) {
            out.push(viol(prop, "fee_rate_bound", idx, format!("step {} charged rate {} (pool fee rate {}, adaptive {})", i, s.total_fee_rate, o.pre.fee_rate, adaptive_pool)));
        }
        if adaptive_pool && s.total_fee_rate < o.pre.fee_rate as u32 {
            out.push(viol(prop, "fee_rate_bound", idx, format!("step {} charged rate {} below static {}", i, s.total_fee_rate, o.pre.fee_rate)));
        }
        // curve amounts for the move actually made
        let (exact_in, exact_out): (BigUint, BigUint) = if o.a_to_b {
            (
                model::amount_a(s.liquidity, s.sqrt_price_next, s.sqrt_price_start, true),
                model::amount_b(s.liquidity, s.sqrt_price_next, s.sqrt_price_start, false),
            )
        } else {
            (
                model::amount_b(s.liquidity, s.sqrt_price_start, s.sqrt_price_next, true),
                model::amount_a(s.liquidity, s.sqrt_price_start, s.sqrt_price_next, false),
            )
        };
        if BigUint::from(s.amount_in) != exact_in {
            out.push(viol(prop, "curve_amount_in", idx, format!("step {} amount_in {} but exact rounded-up curve input is {}", i, s.amount_in, exact_in)));
        }
        let expect_out = if !o.is_input {
            exact_out.clone().min(BigUint::from(remaining))
        } else {
            exact_out.clone()
        };
        if BigUint::from(s.amount_out) != expect_out {
            out.push(viol(prop, "curve_amount_out", idx, format!("step {} amount_out {} but exact rounded-down curve output is {}", i, s.amount_out, expect_out)));
        }
        // fee
        let reached = s.sqrt_price_next == s.sqrt_price_target;
        let expect_fee: BigUint = if o.is_input && !reached {
            BigUint::from(remaining.saturating_sub(s.amount_in))
        } else {
            model::fee_for_amount_in(s.amount_in, s.total_fee_rate)
        };
        if BigUint::from(s.fee_amount) != expect_fee {
            out.push(viol(prop, "step_fee", idx, format!("step {} fee {} expected {} (in {}, rate {}, reached target {}, remaining {})", i, s.fee_amount, expect_fee, s.amount_in, s.total_fee_rate, reached, remaining)));
        }
        // stopping short only when the budget is exhausted
        if o.is_input {
            let spent = s.amount_in as u128 + s.fee_amount as u128;
            if spent > remaining as u128 {
                out.push(viol(prop, "step_overspend", idx, format!("step {} spent {} of remaining {}", i, spent, remaining)));
                return sums;
            }
            remaining -= spent as u64;
            if !reached && remaining != 0 {
                out.push(viol(prop, "step_stopped_short", idx, format!("exact-in step {} stopped short of its target with {} left", i, remaining)));
            }
        } else {
            if s.amount_out > remaining {
                out.push(viol(prop, "step_overspend", idx, format!("step {} delivered {} of remaining {}", i, s.amount_out, remaining)));
                return sums;
            }
            remaining -= s.amount_out;
            if !reached && remaining != 0 {
                out.push(viol(prop, "step_stopped_short", idx, format!("exact-out step {} stopped short of its target with {} left", i, remaining)));
            }
        }
        // protocol share and LP growth; the configured fraction is never above the documented 25 % of the fee
        if o.pre.protocol_fee_rate > 2_500 && i == 0 {
            out.push(viol(prop, "protocol_fee_rate_above_cap", idx, format!("the pool trades with a protocol fee rate of {} basis points of the fee (documented maximum 2500)", o.pre.protocol_fee_rate)));
        }
        let share = model::protocol_share(s.fee_amount, o.pre.protocol_fee_rate);
        let got_share = s.protocol_fee_after.wrapping_sub(prev_protocol);
        if got_share != share {
            out.push(viol(prop, "protocol_share", idx, format!("step {} protocol share {} expected floor({}*{}/10000) = {}", i, got_share, s.fee_amount, o.pre.protocol_fee_rate, share)));
        }
        let inc = model::growth_increment(s.fee_amount - share.min(s.fee_amount), s.liquidity);
        let got_inc = s.fee_growth_global_input_after.wrapping_sub(prev_growth);
        if got_inc != inc {
            out.push(viol(prop, "lp_growth_increment", idx, format!("step {} fee growth increment {} expected {} (lp fee {}, liquidity {})", i, got_inc, inc, s.fee_amount - share.min(s.fee_amount), s.liquidity)));
        }
        prev_protocol = s.protocol_fee_after;
        prev_growth = s.fee_growth_global_input_after;
        sums.sum_in += s.amount_in as u128;
        sums.sum_fee += s.fee_amount as u128;
        sums.sum_out += s.amount_out as u128;
        sums.sum_share += share as u128;
        sums.growth = sums.growth.wrapping_add(inc);
        price = s.sqrt_price_next;
        if s.crossed_tick.is_some() {
            liq = s.liquidity_after_cross;
        }
    }
    if price != o.post.sqrt_price {
        out.push(viol(prop, "trace_chain_end", idx, format!("trace ends at price {} but the pool is at {}", price, o.post.sqrt_price)));
    }
    if liq != o.post.liquidity {
        out.push(viol(prop, "trace_liquidity_end", idx, format!("trace ends with liquidity {} but the pool has {}", liq, o.post.liquidity)));
    }
    sums
}

impl Monitor for C06 {
    fn name(&self) -> &'static str {
        "C06"
    }
    fn on_landed(&mut self, ev: &Landed, cov: &mut Coverage) -> Vec<Violation> {
        let mut out = Vec::new();
        if !ev.out.ok {
            return out;
        }
        for view in ev.ix_views() {
        let ev_pre = view.pre;
        let ev_post = view.post;
        let ix = view.ix;
        let io = view.out;
        let Some(c) = wpix::decode(ix) else { continue };
        match c.name() {
            "swap" | "swap_v2" | "two_hop_swap" | "two_hop_swap_v2" => {
                for o in observe(ix, io, ev_pre, ev_post) {
                    let sums = check_trace(&o, ev.idx, &mut out, "C06");
                    cov.eval(abstract_state_key(&o));
                    if o.trace.steps.iter().any(|s| s.liquidity == 0) {
                        cov.probe("zero_liquidity_gap_crossed");
                    }
                    if o.post.sqrt_price == MIN_SQRT_PRICE || o.post.sqrt_price == MAX_SQRT_PRICE {
                        cov.probe("price_reached_bound");
                    }
                    if o.trace.steps.iter().any(|s| s.crossed_tick.is_some()) {
                        cov.probe("initialized_tick_crossed");
                    }
                    if o.is_input && o.trace.steps.last().map(|s| s.sqrt_price_next != s.sqrt_price_target).unwrap_or(false) {
                        cov.probe("exact_in_remainder_fee_step");
                    }
                    // pool account deltas
                    let (pre_owed, post_owed, pre_g, post_g, other_pre_owed, other_post_owed, other_pre_g, other_post_g) = if o.a_to_b {
                        (o.pre.protocol_fee_owed_a, o.post.protocol_fee_owed_a, o.pre.fee_growth_global_a, o.post.fee_growth_global_a,
                         o.pre.protocol_fee_owed_b, o.post.protocol_fee_owed_b, o.pre.fee_growth_global_b, o.post.fee_growth_global_b)
                    } else {
                        (o.pre.protocol_fee_owed_b, o.post.protocol_fee_owed_b, o.pre.fee_growth_global_b, o.post.fee_growth_global_b,
                         o.pre.protocol_fee_owed_a, o.post.protocol_fee_owed_a, o.pre.fee_growth_global_a, o.post.fee_growth_global_a)
                    };
                    if post_owed as u128 != pre_owed as u128 + sums.sum_share {
                        out.push(viol("C06", "protocol_fee_owed", ev.idx, format!("protocol fee owed went {} -> {} but the steps' shares sum to {}", pre_owed, post_owed, sums.sum_share)));
                    }
                    if other_pre_owed != other_post_owed || other_pre_g != other_post_g {
                        out.push(viol("C06", "other_token_accumulators", ev.idx, "a swap changed the protocol fee / fee growth of the output token".into()));
                    }
                    if post_g != pre_g.wrapping_add(sums.growth) {
                        out.push(viol("C06", "fee_growth_global", ev.idx, format!("fee growth went {} -> {} but the steps' increments sum to {}", pre_g, post_g, sums.growth)));
                    }
                    // event
                    if let Some(e) = &o.event {
                        let lp = sums.sum_fee - sums.sum_share;
                        let ok_amounts = !o.plain || (e.input_amount as u128 == sums.sum_in + sums.sum_fee && e.output_amount as u128 == sums.sum_out && e.input_transfer_fee == 0 && e.output_transfer_fee == 0);
                        if e.lp_fee as u128 != lp || e.protocol_fee as u128 != sums.sum_share || e.pre_sqrt_price != o.pre.sqrt_price || e.post_sqrt_price != o.post.sqrt_price || e.a_to_b != o.a_to_b || !ok_amounts {
                            out.push(viol("C06", "traded_event", ev.idx, format!("Traded event {:?} does not match the executed steps (in {} fee {} out {} protocol {})", e, sums.sum_in, sums.sum_fee, sums.sum_out, sums.sum_share)));
                        }
                    } else {
                        out.push(viol("C06", "traded_event_missing", ev.idx, "no Traded event for an executed swap".into()));
                    }
                    // every crossed tick records, for both tokens, the growth that from now on lies on its other side: the
                    // accumulator at the moment of crossing minus what it held before (that is what lets the LP share of later
                    // steps accrue to the liquidity then in range, and to nobody else)
                    {
                        let mut g_in = pre_g;
                        for s in &o.trace.steps {
                            g_in = s.fee_growth_global_input_after;
                            let Some(t) = s.crossed_tick else { continue };
                            let (Some(before), Some(after)) = (decode::canonical_tick(ev_pre, &o.whirlpool, o.pre.tick_spacing, t), decode::canonical_tick(ev_post, &o.whirlpool, o.pre.tick_spacing, t)) else { continue };
                            // a tick crossed twice in one instruction (two-hop over the same array is impossible) is not expected
                            let (exp_a, exp_b) = if o.a_to_b {
                                (g_in.wrapping_sub(before.fee_growth_outside_a), o.pre.fee_growth_global_b.wrapping_sub(before.fee_growth_outside_b))
                            } else {
                                (o.pre.fee_growth_global_a.wrapping_sub(before.fee_growth_outside_a), g_in.wrapping_sub(before.fee_growth_outside_b))
                            };
                            cov.probe("crossed_tick_growth_flip_checked");
                            if after.fee_growth_outside_a != exp_a || after.fee_growth_outside_b != exp_b {
                                out.push(viol("C06", "crossed_tick_fee_growth", ev.idx, format!("tick {} crossed by {} ({}): fee growth outside is {} / {} but the accumulators at the crossing minus the previous values give {} / {}",
                                    t, o.ix_name, if o.is_input { "exact-in" } else { "exact-out" }, after.fee_growth_outside_a, after.fee_growth_outside_b, exp_a, exp_b)));
                                break;
                            }
                        }
                    }
                    // two-hop legs (plain mints): each pool's vaults move exactly this leg's curve amounts - what a pool books as
                    // received is what its vault received (in v2 the intermediate token goes vault to vault)
                    if o.single.is_none() && o.plain && matches!(c.name(), "two_hop_swap" | "two_hop_swap_v2") {
                        let (vin, vout) = if o.a_to_b { (o.pre.vault_a, o.pre.vault_b) } else { (o.pre.vault_b, o.pre.vault_a) };
                        let (din, dout) = (bal_delta(ev_pre, ev_post, &vin), bal_delta(ev_pre, ev_post, &vout));
                        let paid = (sums.sum_in + sums.sum_fee) as i128;
                        cov.probe("two_hop_leg_vault_balances_checked");
                        if vin != vout && (din != paid || -dout != sums.sum_out as i128) {
                            out.push(viol("C06", "input_balance", ev.idx, format!("two-hop leg on pool {}: its vaults moved {:+} / {:+} but the leg's curve input + fee is {} and its output {}", o.whirlpool, din, dout, paid, sums.sum_out)));
                        }
                    }
                    // balances with transfer-fee mints: the vault's receipt (what arrives after the token program withheld its
                    // fee) is what splits into curve amount + protocol share + LP share; the vault sends exactly the curve output
                    if let (false, Some(b)) = (o.plain, &o.single) {
                        let paid = (sums.sum_in + sums.sum_fee) as i128;
                        let full_exact_in = o.is_input && o.post.sqrt_price != effective_limit(o.limit, o.a_to_b);
                        cov.probe("transfer_fee_swap_balances_checked");
                        if b.vault_in_delta < paid || (full_exact_in && b.vault_in_delta != paid) {
                            out.push(viol("C06", "input_balance", ev.idx, format!("the vault received {} (after the token program's transfer fee) but curve input + fee = {} (exact-in fully filled: {})", b.vault_in_delta, paid, full_exact_in)));
                        }
                        if -b.vault_out_delta != sums.sum_out as i128 {
                            out.push(viol("C06", "output_balance", ev.idx, format!("the vault paid {} but curve output = {}", -b.vault_out_delta, sums.sum_out)));
                        }
                    }
                    // balances (plain mints)
                    if let (true, Some(b)) = (o.plain, &o.single) {
                        let paid = sums.sum_in + sums.sum_fee;
                        if -b.trader_in_delta != paid as i128 || b.vault_in_delta != paid as i128 {
                            out.push(viol("C06", "input_balance", ev.idx, format!("trader paid {} and the vault received {} but curve input + fee = {}", -b.trader_in_delta, b.vault_in_delta, paid)));
                        }
                        if b.trader_out_delta != sums.sum_out as i128 || -b.vault_out_delta != sums.sum_out as i128 {
                            out.push(viol("C06", "output_balance", ev.idx, format!("trader received {} and the vault paid {} but curve output = {}", b.trader_out_delta, -b.vault_out_delta, sums.sum_out)));
                        }
                        if b.authority_lamports_delta != 0 {
                            out.push(viol("C06", "trader_lamports", ev.idx, format!("the trader's lamports changed by {}", b.authority_lamports_delta)));
                        }
                        // nothing else of the trader changed: every other token account owned by the authority
                        for (k, a) in ev_pre.accts.iter() {
                            if (a.owner == crate::ix::tok() || a.owner == crate::ix::tok22()) && a.data.len() >= 165 && a.data[32..64] == b.authority.to_bytes() {
                                let d = bal_delta(ev_pre, ev_post, k);
                                let is_io = *k == c.a("token_owner_account_a") || *k == c.a("token_owner_account_b");
                                if d != 0 && !is_io {
                                    out.push(viol("C06", "other_trader_account", ev.idx, format!("token account {} of the trader changed by {}", k, d)));
                                }
                            }
                        }
                    }
                    if out.is_empty() && sums.sum_in > 0 && o.trace.steps.len() >= 2 {
                        cov.sample(json!({"ix": o.ix_name, "a_to_b": o.a_to_b, "exact_in": o.is_input, "amount": o.amount,
                            "steps": o.trace.steps.iter().take(5).map(|s| json!({"in": s.amount_in, "fee": s.fee_amount, "out": s.amount_out, "rate": s.total_fee_rate, "L": s.liquidity.to_string(), "crossed": s.crossed_tick})).collect::<Vec<_>>(),
                            "protocol_share_sum": sums.sum_share.to_string()}));
                    }
                }
            }
            "collect_protocol_fees" | "collect_protocol_fees_v2" => {
                let wk = c.a("whirlpool");
                if let (Some(pre), Some(post)) = (ev_pre.data(&wk).and_then(decode::pool), ev_post.data(&wk).and_then(decode::pool)) {
                    let plain = !has_transfer_fee(ev_pre, &pre.mint_a) && !has_transfer_fee(ev_pre, &pre.mint_b);
                    cov.eval(format!("{}|owedA={}|owedB={}", c.name(), pre.protocol_fee_owed_a > 0, pre.protocol_fee_owed_b > 0));
                    if post.protocol_fee_owed_a != 0 || post.protocol_fee_owed_b != 0 {
                        out.push(viol("C06", "protocol_fee_not_reset", ev.idx, format!("protocol fees owed after collection: {} / {}", post.protocol_fee_owed_a, post.protocol_fee_owed_b)));
                    }
                    if plain {
                        let da = bal_delta(ev_pre, ev_post, &c.a("token_destination_a"));
                        let db = bal_delta(ev_pre, ev_post, &c.a("token_destination_b"));
                        let va = bal_delta(ev_pre, ev_post, &pre.vault_a);
                        let vb = bal_delta(ev_pre, ev_post, &pre.vault_b);
                        // destination may be the vault itself (aliasing) - then deltas cancel
                        let alias_a = c.a("token_destination_a") == pre.vault_a;
                        let alias_b = c.a("token_destination_b") == pre.vault_b;
                        if (!alias_a && (da != pre.protocol_fee_owed_a as i128 || va != -(pre.protocol_fee_owed_a as i128)))
                            || (!alias_b && (db != pre.protocol_fee_owed_b as i128 || vb != -(pre.protocol_fee_owed_b as i128)))
                        {
                            out.push(viol("C06", "protocol_fee_payout", ev.idx, format!("collected {} / {} (vault deltas {} / {}) but owed {} / {}", da, db, va, vb, pre.protocol_fee_owed_a, pre.protocol_fee_owed_b)));
                        }
                    }
                }
            }
            _ => {}
        }
        }
        let _ = BigUint::zero().to_u64();
        out
    }
}

// ---------------------------------------------------------------------------------------------
// C03
// ---------------------------------------------------------------------------------------------

pub struct C03;

/// bounds of a successful two-hop: per-leg price direction / limit, outer amount and threshold
fn two_hop_bounds(c: &Call, view: &crate::sim::IxView, idx: usize, cov: &mut Coverage, out: &mut Vec<Violation>) {
    let a = wpix::two_hop_args(c);
    let legs = observe(view.ix, view.out, view.pre, view.post);
    if legs.len() != 2 {
        return;
    }
    // legs come in computation order; map back to (one, two)
    let (one, two) = if a.is_input { (&legs[0], &legs[1]) } else { (&legs[1], &legs[0]) };
    cov.eval(format!(
        "{}|{}|{}{}|limits={}{}|thr={}",
        c.name(),
        if a.is_input { "in" } else { "out" },
        if a.a_to_b_one { "a2b" } else { "b2a" },
        if a.a_to_b_two { "a2b" } else { "b2a" },
        (a.limit_one != 0) as u8,
        (a.limit_two != 0) as u8,
        if a.is_input { (a.threshold > 0) as u8 } else { (a.threshold < u64::MAX) as u8 }
    ));
    for (name, leg, limit) in [("one", one, a.limit_one), ("two", two, a.limit_two)] {
        let lim = effective_limit(limit, leg.a_to_b);
        let dir_ok = if leg.a_to_b { leg.post.sqrt_price <= leg.pre.sqrt_price } else { leg.post.sqrt_price >= leg.pre.sqrt_price };
        if !dir_ok {
            out.push(viol("C03", "price_moved_against_direction", idx, format!("two-hop leg {}: price {} -> {} (a_to_b={})", name, leg.pre.sqrt_price, leg.post.sqrt_price, leg.a_to_b)));
        }
        let tick_dir_ok = if leg.a_to_b { leg.post.tick_current_index <= leg.pre.tick_current_index } else { leg.post.tick_current_index >= leg.pre.tick_current_index };
        if !tick_dir_ok {
            out.push(viol("C03", "tick_moved_against_direction", idx, format!("two-hop leg {}: current tick {} -> {} (a_to_b={})", name, leg.pre.tick_current_index, leg.post.tick_current_index, leg.a_to_b)));
        }
        if leg.post.sqrt_price < MIN_SQRT_PRICE || leg.post.sqrt_price > MAX_SQRT_PRICE {
            out.push(viol("C03", "price_out_of_bounds", idx, format!("two-hop leg {}: price {}", name, leg.post.sqrt_price)));
        }
        let beyond = if leg.a_to_b { leg.post.sqrt_price < lim } else { leg.post.sqrt_price > lim };
        if beyond {
            out.push(viol("C03", "price_beyond_limit", idx, format!("two-hop leg {}: price {} beyond the supplied limit {}", name, leg.post.sqrt_price, lim)));
        }
        if !leg.is_input && limit == 0 {
            let delivered: u128 = leg.trace.steps.iter().map(|s| s.amount_out as u128).sum();
            if delivered < leg.amount as u128 {
                out.push(viol("C03", "exact_out_partial_without_limit", idx, format!("two-hop leg {}: exact-out {} delivered only {} without an explicit limit", name, leg.amount, delivered)));
            }
        }
    }
    // outer amounts and threshold from the trader's balances: what leaves the trader's input account (transfer fee included)
    // and what arrives in the output account (after the fee) are what the amount and the threshold speak about
    if (one.plain && two.plain) || c.name() == "two_hop_swap_v2" {
        let (in_acct, out_acct) = if c.name() == "two_hop_swap_v2" {
            (c.a("token_owner_account_input"), c.a("token_owner_account_output"))
        } else {
            (
                if a.a_to_b_one { c.a("token_owner_account_one_a") } else { c.a("token_owner_account_one_b") },
                if a.a_to_b_two { c.a("token_owner_account_two_b") } else { c.a("token_owner_account_two_a") },
            )
        };
        // the v1 form routes the intermediate token through the trader's own account: whatever leg one pays in there, leg two
        // takes out again - a route never spends the trader's own holdings of the intermediate token, which no stated maximum
        // would bound (plain mints; a cyclic or re-entrant route names the account elsewhere too and is not judged)
        if c.name() == "two_hop_swap" && one.plain && two.plain {
            let mid_one = if a.a_to_b_one { c.a("token_owner_account_one_b") } else { c.a("token_owner_account_one_a") };
            let mid_two = if a.a_to_b_two { c.a("token_owner_account_two_a") } else { c.a("token_owner_account_two_b") };
            if mid_one == mid_two && mid_one != in_acct && mid_one != out_acct {
                let d = bal_delta(view.pre, view.post, &mid_one);
                if d != 0 {
                    out.push(viol("C03", "intermediate_token_spent", idx, format!("two-hop ({}): the trader's own balance of the intermediate token changed by {:+} - leg one paid in less (or more) than leg two took out", if a.is_input { "exact-in" } else { "exact-out" }, d)));
                }
            }
        }
        if in_acct != out_acct {
            let paid = -bal_delta(view.pre, view.post, &in_acct);
            let got = bal_delta(view.pre, view.post, &out_acct);
            if a.is_input && paid > a.amount as i128 {
                out.push(viol("C03", "exact_in_overcharged", idx, format!("two-hop exact-in {} but the trader paid {}", a.amount, paid)));
            }
            if !a.is_input && got > a.amount as i128 {
                out.push(viol("C03", "exact_out_overdelivered", idx, format!("two-hop exact-out {} but the trader received {}", a.amount, got)));
            }
            if a.is_input && got < a.threshold as i128 {
                out.push(viol("C03", "min_output_not_honoured", idx, format!("two-hop: received {} < stated minimum {}", got, a.threshold)));
            }
            if !a.is_input && paid > a.threshold as i128 {
                out.push(viol("C03", "max_input_not_honoured", idx, format!("two-hop: paid {} > stated maximum {}", paid, a.threshold)));
            }
            // threshold = realised, -1, +1 on forks of the pre-state
            if out.is_empty() && paid >= 0 && got >= 0 {
                let realised = if a.is_input { got } else { paid } as u64;
                let expect: [(bool, Option<u32>); 3] = if a.is_input { [(true, None), (true, None), (false, Some(6036))] } else { [(true, None), (false, Some(6037)), (true, None)] };
                for (i, thr) in [realised, realised.wrapping_sub(1), realised.wrapping_add(1)].into_iter().enumerate() {
                    if (i == 1 && realised == 0) || (i == 2 && realised == u64::MAX) {
                        continue;
                    }
                    let mut ix2 = view.ix.clone();
                    ix2.data[16..24].copy_from_slice(&thr.to_le_bytes());
                    let mut fork = view.pre.clone();
                    let r = crate::rt::exec_tx_simple(&mut fork, &crate::rt::Tx { ixs: vec![ix2] });
                    let good = r.ok == expect[i].0;
                    cov.probe("two_hop_threshold_pm1_forks");
                    if !good {
                        out.push(viol("C03", "threshold_boundary", idx, format!("two-hop threshold {} (realised {}): ok={} code={:?}, expected ok={} code={:?}", ["=", "-1", "+1"][i], realised, r.ok, r.custom(), expect[i].0, expect[i].1)));
                    }
                }
            }
        }
    }
}

impl Monitor for C03 {
    fn name(&self) -> &'static str {
        "C03"
    }
    fn on_landed(&mut self, ev: &Landed, cov: &mut Coverage) -> Vec<Violation> {
        let mut out = Vec::new();
        for view in ev.ix_views() {
        let ix = view.ix;
        let Some(c) = wpix::decode(ix) else { continue };
        if matches!(c.name(), "two_hop_swap" | "two_hop_swap_v2") {
            two_hop_bounds(&c, &view, ev.idx, cov, &mut out);
            continue;
        }
        if !matches!(c.name(), "swap" | "swap_v2") {
            continue;
        }
        let a = wpix::swap_args(&c);
        let io = view.out;
        for o in observe(ix, io, view.pre, view.post) {
            let Some(b) = &o.single else { continue };
            let paid = (-b.trader_in_delta).max(0) as u128;
            let got = b.trader_out_delta.max(0) as u128;
            let lim = effective_limit(a.limit, a.a_to_b);
            let at_limit = o.post.sqrt_price == lim;
            cov.eval(format!(
                "{}|{}|{}|limit={}|atlimit={}|full={}|thr={}|sp={}",
                c.name(),
                if a.a_to_b { "a2b" } else { "b2a" },
                if a.is_input { "in" } else { "out" },
                a.limit != 0,
                at_limit,
                if a.is_input { paid == a.amount as u128 } else { got == a.amount as u128 },
                if a.is_input { (a.threshold > 0) as u8 + (a.threshold as u128 == got) as u8 } else { (a.threshold < u64::MAX) as u8 + (a.threshold as u128 == paid) as u8 },
                o.pre.tick_spacing
            ));
            if at_limit && a.limit != 0 {
                cov.probe("stopped_at_explicit_limit");
            }
            if b.trader_in_delta > 0 || b.trader_out_delta < 0 {
                out.push(viol("C03", "wrong_direction_balances", ev.idx, format!("input account changed by {}, output account by {}", b.trader_in_delta, b.trader_out_delta)));
            }
            if a.is_input && paid > a.amount as u128 {
                out.push(viol("C03", "exact_in_overcharged", ev.idx, format!("exact-in {} but the trader paid {}", a.amount, paid)));
            }
            if !a.is_input && got > a.amount as u128 {
                out.push(viol("C03", "exact_out_overdelivered", ev.idx, format!("exact-out {} but the trader received {}", a.amount, got)));
            }
            // price movement
            let dir_ok = if a.a_to_b { o.post.sqrt_price <= o.pre.sqrt_price } else { o.post.sqrt_price >= o.pre.sqrt_price };
            if !dir_ok {
                out.push(viol("C03", "price_moved_against_direction", ev.idx, format!("price {} -> {} (a_to_b={})", o.pre.sqrt_price, o.post.sqrt_price, a.a_to_b)));
            }
            // the current tick is part of the pool's price: it moves with the trade, never against it (not even by the one
            // tick between "on the tick" and "just crossed it" when the price itself does not move), and it stays the tick of
            // the price - or, after a downward crossing that ended exactly on a tick, the one below
            let tick_dir_ok = if a.a_to_b { o.post.tick_current_index <= o.pre.tick_current_index } else { o.post.tick_current_index >= o.pre.tick_current_index };
            if !tick_dir_ok {
                out.push(viol("C03", "tick_moved_against_direction", ev.idx, format!("current tick {} -> {} in an {} swap (price {} -> {})", o.pre.tick_current_index, o.post.tick_current_index, if a.a_to_b { "a_to_b" } else { "b_to_a" }, o.pre.sqrt_price, o.post.sqrt_price)));
            }
            if (MIN_SQRT_PRICE..=MAX_SQRT_PRICE).contains(&o.post.sqrt_price) {
                let t = model::tick_of_sqrt_price(o.post.sqrt_price);
                let on_tick = model::sqrt_price_of_tick(t) == o.post.sqrt_price;
                if o.post.tick_current_index != t && !(on_tick && o.post.tick_current_index == t - 1) {
                    out.push(viol("C03", "tick_is_not_the_tick_of_the_price", ev.idx, format!("after the swap the pool's price {} lies in tick {} but the current tick reads {}", o.post.sqrt_price, t, o.post.tick_current_index)));
                }
            }
            if o.post.sqrt_price < MIN_SQRT_PRICE || o.post.sqrt_price > MAX_SQRT_PRICE {
                out.push(viol("C03", "price_out_of_bounds", ev.idx, format!("price {}", o.post.sqrt_price)));
            }
            let beyond = if a.a_to_b { o.post.sqrt_price < lim } else { o.post.sqrt_price > lim };
            if beyond {
                out.push(viol("C03", "price_beyond_limit", ev.idx, format!("price {} beyond limit {}", o.post.sqrt_price, lim)));
            }
            // partial use only at the limit. The specified side is what leaves the trader's input account (exact-in, transfer fee
            // included) resp. what arrives in the trader's output account (exact-out, after the fee), with or without transfer fees
            {
                let used_all = if a.is_input { paid == a.amount as u128 } else { got == a.amount as u128 };
                if !used_all && !at_limit {
                    out.push(viol("C03", "partial_fill_not_at_limit", ev.idx, format!("used {} of {} but the final price {} is not the limit {}", if a.is_input { paid } else { got }, a.amount, o.post.sqrt_price, lim)));
                }
                if !used_all && !a.is_input && a.limit == 0 {
                    out.push(viol("C03", "exact_out_partial_without_limit", ev.idx, format!("exact-out {} delivered only {} without an explicit limit", a.amount, got)));
                }
            }
            // threshold
            if a.is_input && got < a.threshold as u128 {
                out.push(viol("C03", "min_output_not_honoured", ev.idx, format!("received {} < stated minimum {}", got, a.threshold)));
            }
            if !a.is_input && paid > a.threshold as u128 {
                out.push(viol("C03", "max_input_not_honoured", ev.idx, format!("paid {} > stated maximum {}", paid, a.threshold)));
            }
            // threshold = realised, -1, +1 on forks of the pre-state
            if (ev.salt % 3) == 0 {
                let realised = if a.is_input { got } else { paid } as u64;
                let mut results = Vec::new();
                for thr in [realised, realised.wrapping_sub(1), realised.wrapping_add(1)] {
                    if (thr == realised.wrapping_sub(1) && realised == 0) || (thr == realised.wrapping_add(1) && realised == u64::MAX) {
                        results.push(None);
                        continue;
                    }
                    let mut ix2 = ix.clone();
                    ix2.data[16..24].copy_from_slice(&thr.to_le_bytes());
                    let mut fork = view.pre.clone();
                    let r = crate::rt::exec_tx(&mut fork, &crate::rt::Tx { ixs: vec![ix2] }, &|_| crate::rt::ExecOpts::default());
                    results.push(Some((r.ok, r.custom())));
                }
                cov.probe("threshold_pm1_forks");
                let expect: [(bool, Option<u32>); 3] = if a.is_input {
                    [(true, None), (true, None), (false, Some(6036))]
                } else {
                    [(true, None), (false, Some(6037)), (true, None)]
                };
                for (i, r) in results.iter().enumerate() {
                    if let Some((ok, code)) = r {
                        // the statement requires failure, not a particular error code
                        let _ = code;
                        let good = *ok == expect[i].0;
                        if !good {
                            out.push(viol("C03", "threshold_boundary", ev.idx, format!("threshold {} (realised {}{}) gave ok={} code={:?}, expected ok={} code={:?}", ["=", "-1", "+1"][i], realised, "", ok, code, expect[i].0, expect[i].1)));
                        }
                    }
                }
            }
            if out.is_empty() && paid > 0 && got > 0 {
                cov.sample(json!({"ix": c.name(), "a_to_b": a.a_to_b, "exact_in": a.is_input, "amount": a.amount, "threshold": a.threshold, "limit": a.limit.to_string(), "paid": paid.to_string(), "received": got.to_string(), "price_before": o.pre.sqrt_price.to_string(), "price_after": o.post.sqrt_price.to_string()}));
            }
        }
        }
        out
    }
}
