//! C13 / C12, accessor level: one seeded sequence of tick updates (initialise, modify, de-initialise - including
//! crossing-style updates that change only the growth values) and queries is applied to FOUR tick arrays that start
//! identical - Anchor fixed, Anchor dynamic, Pinocchio fixed, Pinocchio dynamic (the last two through hook H3, which
//! re-exports the private memory-mapped views) - on raw account-sized buffers. After every step: all four agree on
//! success / failure, the two fixed encodings are byte-identical, the two dynamic encodings are byte-identical over
//! their used length, fixed and dynamic hold the same tick contents, the dynamic encoding is well formed (flag bytes,
//! bitmap, used length 148 + 112 x initialised), `get_tick` of all four returns the same contents for every slot and
//! errors on the same ticks, and Anchor's two `get_next_init_tick_index` agree with each other and with the bytes.
//! The "history" here is the order of updates by different positions / swaps; the seed decides it.

use crate::decode::{self, Tick, TickArray};
use crate::rng::Rng;
use crate::sim::{Coverage, Violation};
use anchor_lang::Discriminator;
use solana_program::pubkey::Pubkey;
use whirlpool::pinocchio::verif_reexport as pv;
use whirlpool::state::{DynamicTickArray, DynamicTickArrayLoader, FixedTickArray, TickArrayType};

const MAXLEN: usize = 8 + 4 + 32 + 16 + 113 * 88;

fn viol(class: &str, detail: String) -> Violation {
    Violation { property: "C13", class: format!("twin_accessor_{}", class), detail, event_idx: 0 }
}

#[repr(align(16))]
struct Buf([u8; 10240 + MAXLEN]);

fn new_fixed(start: i32, pool: &Pubkey) -> Box<Buf> {
    let mut b = Box::new(Buf([0u8; 10240 + MAXLEN]));
    b.0[..8].copy_from_slice(FixedTickArray::DISCRIMINATOR);
    b.0[8..12].copy_from_slice(&start.to_le_bytes());
    b.0[12 + 113 * 88..12 + 113 * 88 + 32].copy_from_slice(pool.as_ref());
    b
}

fn new_dynamic(start: i32, pool: &Pubkey) -> Box<Buf> {
    let mut b = Box::new(Buf([0u8; 10240 + MAXLEN]));
    b.0[..8].copy_from_slice(DynamicTickArray::DISCRIMINATOR);
    b.0[8..12].copy_from_slice(&start.to_le_bytes());
    b.0[12..44].copy_from_slice(pool.as_ref());
    b
}

fn used_len_dynamic(b: &Buf) -> usize {
    let bm = u128::from_le_bytes(b.0[44..60].try_into().unwrap());
    148 + 112 * bm.count_ones() as usize
}

fn p_update(u: &whirlpool::state::TickUpdate) -> pv::TickUpdate {
    pv::TickUpdate {
        initialized: u.initialized,
        liquidity_net: u.liquidity_net,
        liquidity_gross: u.liquidity_gross,
        fee_growth_outside_a: u.fee_growth_outside_a,
        fee_growth_outside_b: u.fee_growth_outside_b,
        reward_growths_outside: u.reward_growths_outside,
    }
}

fn same(a: &Tick, t: &pv::MemoryMappedTick) -> bool {
    a.initialized == t.initialized() && a.liquidity_net == t.liquidity_net() && a.liquidity_gross == t.liquidity_gross() && a.fee_growth_outside_a == t.fee_growth_outside_a() && a.fee_growth_outside_b == t.fee_growth_outside_b() && a.reward_growths_outside == t.reward_growths_outside()
}

fn same_a(a: &Tick, t: &whirlpool::state::Tick) -> bool {
    let (n, g, fa, fb, r) = (t.liquidity_net, t.liquidity_gross, t.fee_growth_outside_a, t.fee_growth_outside_b, t.reward_growths_outside);
    a.initialized == t.initialized && a.liquidity_net == n && a.liquidity_gross == g && a.fee_growth_outside_a == fa && a.fee_growth_outside_b == fb && a.reward_growths_outside == r
}

fn big(r: &mut Rng) -> u128 {
    match r.below(6) {
        0 => 0,
        1 => r.next_u64() as u128,
        2 => u128::MAX - r.below(1000) as u128,
        3 => (r.next_u64() as u128) << 64 | 0xff,
        4 => (0xabu128 << 120) | r.next_u64() as u128,
        _ => r.next_u128(),
    }
}

/// One sequence; returns the first disagreement.
pub fn run_sequence(seed: u64, cov: &mut Coverage) -> Option<Violation> {
    let mut r = Rng::new(seed ^ 0xc13_5e9);
    let spacing: u16 = *r.pick(&[1u16, 1, 2, 4, 8, 64, 128, 256, 32768, 32896]);
    let sp = spacing as i32;
    let width = 88 * sp;
    // start index: straddling the minimum tick, holding the maximum tick, around zero, anywhere
    let min_start = (decode::MIN_TICK.div_euclid(width)) * width;
    let max_start = (decode::MAX_TICK.div_euclid(width)) * width;
    let start = match r.below(6) {
        0 => min_start,
        1 => max_start,
        2 => 0,
        3 => -width,
        _ => min_start + width * (r.below(((max_start - min_start) / width + 1) as u64) as i32),
    };
    let pool = crate::world::scratch_key(seed, 13);
    let (mut af, mut ad, mut pf, mut pd) = (new_fixed(start, &pool), new_dynamic(start, &pool), new_fixed(start, &pool), new_dynamic(start, &pool));
    let slots: [i32; 9] = [0, 1, 2, 63, 64, 65, 86, 87, 40];
    let steps = 30 + r.below(60);
    let mut model: Vec<Tick> = vec![Tick::default(); 88];
    for step in 0..steps {
        // ---- pick a tick index: mostly usable slots (biased to the boundary set), sometimes illegal ones ----
        let slot = if r.chance(2, 3) { slots[r.idx(slots.len())] } else { r.below(88) as i32 };
        let (tick, legal) = match r.below(14) {
            0 if sp > 1 => (start + slot * sp + 1 + r.below(sp as u64 - 1) as i32, false), // off the spacing
            1 => (start - sp, false),                                                       // one slot before the array
            2 => (start + width, false),                                                    // first tick of the next array
            3 => (start + width + slot * sp, false),
            _ => (start + slot * sp, true),
        };
        let in_protocol = (decode::MIN_TICK..=decode::MAX_TICK).contains(&tick);
        let usable = legal && in_protocol;
        // ---- pick an update ----
        let cur = if usable { model[slot as usize].clone() } else { Tick::default() };
        let kind = r.below(10);
        let upd = if cur.initialized {
            match kind {
                0..=2 => whirlpool::state::TickUpdate::default(), // de-initialise
                3..=5 => whirlpool::state::TickUpdate {
                    // crossing-style: only the growth values change
                    initialized: true,
                    liquidity_net: cur.liquidity_net,
                    liquidity_gross: cur.liquidity_gross,
                    fee_growth_outside_a: big(&mut r),
                    fee_growth_outside_b: big(&mut r),
                    reward_growths_outside: [big(&mut r), big(&mut r), big(&mut r)],
                },
                _ => whirlpool::state::TickUpdate {
                    // liquidity change on a live tick: growth values stay
                    initialized: true,
                    liquidity_net: r.next_u128() as i128,
                    liquidity_gross: big(&mut r).max(1),
                    fee_growth_outside_a: cur.fee_growth_outside_a,
                    fee_growth_outside_b: cur.fee_growth_outside_b,
                    reward_growths_outside: cur.reward_growths_outside,
                },
            }
        } else if kind == 0 {
            whirlpool::state::TickUpdate::default() // de-initialise what is not initialised: a no-op for every encoding
        } else {
            whirlpool::state::TickUpdate {
                initialized: true,
                liquidity_net: r.next_u128() as i128,
                liquidity_gross: big(&mut r).max(1),
                fee_growth_outside_a: big(&mut r),
                fee_growth_outside_b: big(&mut r),
                reward_growths_outside: [big(&mut r), big(&mut r), big(&mut r)],
            }
        };
        let n_init = model.iter().filter(|t| t.initialized).count();
        cov.eval(format!("seq|sp={}|{}|{}|n_init={}", spacing.min(300), if !usable { "illegal tick" } else if !cur.initialized && upd.initialized { "initialise" } else if cur.initialized && !upd.initialized { "de-initialise" } else if cur.initialized { "modify" } else { "no-op" }, if start == min_start { "min array" } else if start == max_start { "max array" } else { "inner array" }, match n_init { 0 => "0", 1 => "1", 87 => "87", 88 => "88", _ => "some" }));
        // ---- apply to the four arrays ----
        let ra = {
            let f: &mut FixedTickArray = bytemuck::from_bytes_mut(&mut af.0[8..decode::FIXED_TA_LEN]);
            f.update_tick(tick, spacing, &upd).is_ok()
        };
        let rd = DynamicTickArrayLoader::load_mut(&mut ad.0[8..MAXLEN]).update_tick(tick, spacing, &upd).is_ok();
        let pu = p_update(&upd);
        let rpf = crate::rt::guarded((|| {
            let a: &mut pv::MemoryMappedFixedTickArray = unsafe { &mut *(pf.0.as_mut_ptr() as *mut pv::MemoryMappedFixedTickArray) };
            pv::TickArray::update_tick(a, tick, spacing, &pu).is_ok()
        }))
        .unwrap_or(false);
        let rpd = crate::rt::guarded((|| {
            let a: &mut pv::MemoryMappedDynamicTickArray = unsafe { &mut *(pd.0.as_mut_ptr() as *mut pv::MemoryMappedDynamicTickArray) };
            pv::TickArray::update_tick(a, tick, spacing, &pu).is_ok()
        }))
        .unwrap_or(false);
        cov.probe("accessor_sequence_updates");
        if !(ra == rd && rd == rpf && rpf == rpd) {
            return Some(viol("sequence_update_outcome", format!("seed {} step {}: update of tick {} (array start {}, spacing {}, usable {}): Anchor fixed ok={}, Anchor dynamic ok={}, Pinocchio fixed ok={}, Pinocchio dynamic ok={}", seed, step, tick, start, spacing, usable, ra, rd, rpf, rpd)));
        }
        if ra != usable {
            return Some(viol("sequence_update_outcome", format!("seed {} step {}: update of tick {} (array start {}, spacing {}) ok={} but the tick is {}", seed, step, tick, start, spacing, ra, if usable { "usable" } else { "not a usable tick of this array" })));
        }
        if usable {
            model[slot as usize] = Tick { initialized: upd.initialized, liquidity_net: upd.liquidity_net, liquidity_gross: upd.liquidity_gross, fee_growth_outside_a: upd.fee_growth_outside_a, fee_growth_outside_b: upd.fee_growth_outside_b, reward_growths_outside: upd.reward_growths_outside };
            if !upd.initialized {
                model[slot as usize] = Tick::default();
            }
        }
        // ---- compare the bytes ----
        if af.0[..decode::FIXED_TA_LEN] != pf.0[..decode::FIXED_TA_LEN] {
            let first = af.0.iter().zip(pf.0.iter()).position(|(a, b)| a != b);
            return Some(viol("sequence_fixed_bytes", format!("seed {} step {} (tick {}, spacing {}): the Anchor and the Pinocchio fixed array differ at byte {:?}", seed, step, tick, spacing, first)));
        }
        let (la, lp) = (used_len_dynamic(&ad), used_len_dynamic(&pd));
        if la != lp || ad.0[..la] != pd.0[..lp] {
            let first = ad.0[..la.min(lp)].iter().zip(pd.0[..la.min(lp)].iter()).position(|(a, b)| a != b);
            return Some(viol("sequence_dynamic_bytes", format!("seed {} step {} (tick {}, spacing {}): the Anchor and the Pinocchio dynamic array differ (used length {} vs {}, first differing byte {:?})", seed, step, tick, spacing, la, lp, first)));
        }
        let (tf, td): (Result<TickArray, _>, Result<TickArray, _>) = (decode::tick_array(&af.0[..decode::FIXED_TA_LEN]), decode::tick_array(&ad.0[..la]));
        let (tf, td) = match (tf, td) {
            (Ok(a), Ok(b)) => (a, b),
            (a, b) => return Some(viol("dynamic_encoding_malformed", format!("seed {} step {}: after the update of tick {} an array no longer decodes (fixed ok={}, dynamic: {:?})", seed, step, tick, a.is_ok(), b.err()))),
        };
        if tf.ticks != td.ticks || tf.ticks != model {
            let i = (0..88).find(|i| tf.ticks[*i] != td.ticks[*i] || tf.ticks[*i] != model[*i]);
            return Some(viol("sequence_contents", format!("seed {} step {}: after the update of tick {} slot {:?} reads differently in the fixed array, the dynamic array and the sequence applied (spacing {}, start {})", seed, step, tick, i, spacing, start)));
        }
        // anything beyond the used length of a dynamic array is not part of the account: both implementations may leave
        // scratch bytes there; the bitmap must mark exactly the initialised slots (checked by the decoder's walk)
        // ---- queries ----
        let fa: &FixedTickArray = bytemuck::from_bytes(&af.0[8..decode::FIXED_TA_LEN]);
        let da = DynamicTickArrayLoader::load(&ad.0[8..MAXLEN]);
        let pfa: &pv::MemoryMappedFixedTickArray = unsafe { &*(pf.0.as_ptr() as *const pv::MemoryMappedFixedTickArray) };
        let pda: &pv::MemoryMappedDynamicTickArray = unsafe { &*(pd.0.as_ptr() as *const pv::MemoryMappedDynamicTickArray) };
        let mut probes: Vec<i32> = vec![tick, start, start + 87 * sp, start + width, start - sp, start + 63 * sp, start + 64 * sp];
        if sp > 1 {
            probes.push(start + slot * sp + 1);
        }
        for q in probes {
            cov.probe("accessor_sequence_queries");
            let a1 = fa.get_tick(q, spacing).ok();
            let a2 = da.get_tick(q, spacing).ok();
            let p1 = crate::rt::guarded((|| pv::TickArray::get_tick(pfa, q, spacing).ok())).unwrap_or(None);
            let p2 = crate::rt::guarded((|| pv::TickArray::get_tick(pda, q, spacing).ok())).unwrap_or(None);
            let exp: Option<&Tick> = if q >= start && q < start + width && (q - start) % sp == 0 && (decode::MIN_TICK..=decode::MAX_TICK).contains(&q) { Some(&model[((q - start) / sp) as usize]) } else { None };
            let ok = match exp {
                None => a1.is_none() && a2.is_none() && p1.is_none() && p2.is_none(),
                Some(e) => a1.as_ref().map(|t| same_a(e, t)).unwrap_or(false) && a2.as_ref().map(|t| same_a(e, t)).unwrap_or(false) && p1.map(|t| same(e, t)).unwrap_or(false) && p2.map(|t| same(e, t)).unwrap_or(false),
            };
            if !ok {
                return Some(viol("sequence_get_tick", format!("seed {} step {}: get_tick({}) (start {}, spacing {}): expected {}; Anchor fixed found={}, Anchor dynamic found={}, Pinocchio fixed found={}, Pinocchio dynamic found={} (or contents differ)", seed, step, q, start, spacing, if exp.is_some() { "the slot's contents" } else { "an error" }, a1.is_some(), a2.is_some(), p1.is_some(), p2.is_some())));
            }
            for a_to_b in [true, false] {
                let x = fa.get_next_init_tick_index(q, spacing, a_to_b);
                let y = da.get_next_init_tick_index(q, spacing, a_to_b);
                let agree = match (&x, &y) {
                    (Ok(a), Ok(b)) => a == b,
                    (Err(_), Err(_)) => true,
                    _ => false,
                };
                if !agree {
                    return Some(viol("sequence_next_init", format!("seed {} step {}: next initialised tick from {} (a_to_b {}): fixed {:?}, dynamic {:?}", seed, step, q, a_to_b, x.ok(), y.ok())));
                }
            }
        }
    }
    None
}
