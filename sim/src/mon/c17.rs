//! C17 — a two-hop swap equals its two single swaps with a matching intermediate amount.

use crate::decode::{self, Pool};
use crate::ix::{self, SwapAccounts, SwapArgs};
use crate::mon::c01::pool_keys;
use crate::rt::{self, Ledger, Tx, TxOutcome};
use crate::sim::{Coverage, IxView, Landed, Monitor, Violation};
use crate::world::token_amount;
use crate::wpix::{self, Call};
use serde_json::json;
use solana_program::pubkey::Pubkey;

pub struct C17;

fn viol(class: &str, idx: usize, detail: String) -> Violation {
    Violation {
        property: "C17",
        class: class.to_string(),
        detail,
        event_idx: idx,
    }
}

struct Legs {
    w1: Pubkey,
    w2: Pubkey,
    s1: Pool,
    s2: Pool,
    sa1: SwapAccounts,
    sa2: SwapAccounts,
    v2: bool,
    auth: Pubkey,
    holder: Pubkey,
}

fn legs(c: &Call, pre: &Ledger) -> Option<Legs> {
    let a = wpix::two_hop_args(c);
    let w1 = c.a("whirlpool_one");
    let w2 = c.a("whirlpool_two");
    let s1 = pre.data(&w1).and_then(decode::pool)?;
    let s2 = pre.data(&w2).and_then(decode::pool)?;
    let k1 = pool_keys(&w1, &s1, pre);
    let k2 = pool_keys(&w2, &s2, pre);
    let v2 = c.name() == "two_hop_swap_v2";
    let auth = c.a("token_authority");
    let ta1 = [c.a("tick_array_one_0"), c.a("tick_array_one_1"), c.a("tick_array_one_2")];
    let ta2 = [c.a("tick_array_two_0"), c.a("tick_array_two_1"), c.a("tick_array_two_2")];
    // the trader's token accounts: v1 names all four; v2 names input and output only
    // (a route may be signed by a delegate of the trader: the accounts are the holder's)
    let holder = if v2 { pre.data(&c.a("token_owner_account_input")).and_then(decode::token_account).map(|t| t.owner).unwrap_or(auth) } else { auth };
    let find_owned = |mint: &Pubkey| -> Pubkey {
        // any token account of the holder for this mint (deterministic: first in key order)
        for (k, acc) in pre.accts.iter() {
            if (acc.owner == ix::tok() || acc.owner == ix::tok22()) && acc.data.len() >= 165 && acc.data[..32] == mint.to_bytes() && acc.data[32..64] == holder.to_bytes() {
                return *k;
            }
        }
        Pubkey::default()
    };
    let (o1a, o1b, o2a, o2b) = if v2 {
        (find_owned(&s1.mint_a), find_owned(&s1.mint_b), find_owned(&s2.mint_a), find_owned(&s2.mint_b))
    } else {
        (c.a("token_owner_account_one_a"), c.a("token_owner_account_one_b"), c.a("token_owner_account_two_a"), c.a("token_owner_account_two_b"))
    };
    let _ = a;
    Some(Legs {
        sa1: SwapAccounts { pool: k1, authority: auth, owner_a: o1a, owner_b: o1b, tick_arrays: ta1 },
        sa2: SwapAccounts { pool: k2, authority: auth, owner_a: o2a, owner_b: o2b, tick_arrays: ta2 },
        w1,
        w2,
        s1,
        s2,
        v2,
        auth,
        holder,
    })
}

/// on a copy: the signer of the route is given an allowance on all of the holder's accounts the single swaps touch (the
/// two-hop itself needs one on the input account only, the intermediate token never passing through the trader)
fn allow_delegate(f: &mut Ledger, lg: &Legs) {
    if lg.holder == lg.auth {
        return;
    }
    for k in [lg.sa1.owner_a, lg.sa1.owner_b, lg.sa2.owner_a, lg.sa2.owner_b] {
        if let Some(a) = f.accts.get_mut(&k) {
            if a.data.len() >= 165 {
                let mut d = (*a.data).clone();
                d[72..76].copy_from_slice(&1u32.to_le_bytes());
                d[76..108].copy_from_slice(lg.auth.as_ref());
                d[121..129].copy_from_slice(&u64::MAX.to_le_bytes());
                a.data = std::rc::Rc::new(d);
            }
        }
    }
}

fn run(l: &mut Ledger, ixn: rt::Ix) -> TxOutcome {
    rt::exec_tx_simple(l, &Tx { ixs: vec![ixn] })
}

fn single(lg: &Legs, leg: u8, args: &SwapArgs) -> rt::Ix {
    let sa = if leg == 1 { &lg.sa1 } else { &lg.sa2 };
    if lg.v2 {
        ix::swap_v2(sa, args, &[])
    } else {
        ix::swap(sa, args)
    }
}

fn pool_side_accounts(l: &Ledger, lg: &Legs) -> Vec<(Pubkey, Option<Vec<u8>>)> {
    let mut keys: Vec<Pubkey> = vec![lg.w1, lg.w2, lg.sa1.pool.oracle, lg.sa2.pool.oracle, lg.s1.vault_a, lg.s1.vault_b, lg.s2.vault_a, lg.s2.vault_b];
    keys.extend_from_slice(&lg.sa1.tick_arrays);
    keys.extend_from_slice(&lg.sa2.tick_arrays);
    keys.sort();
    keys.dedup();
    keys.into_iter().map(|k| (k, l.data(&k).map(|d| d.to_vec()))).collect()
}

/// a mint whose transfers move exactly the stated amount: a classic SPL mint, or a Token-2022 mint that carries neither a
/// transfer-fee configuration nor a transfer hook (so routes that mix the two token programs are judged like plain ones)
fn is_plain(l: &Ledger, m: &Pubkey) -> bool {
    let Some(a) = l.get(m) else { return false };
    if a.owner == ix::tok() {
        return true;
    }
    if a.owner != ix::tok22() {
        return false;
    }
    let exts = crate::decode::tlv_entries(&a.data);
    !exts.iter().any(|(t, _)| *t == 1 || *t == 14)
}

impl C17 {
    fn check(&self, v_ix: &rt::Ix, pre: &Ledger, two_hop_ok: bool, two_hop_post: Option<&Ledger>, two_hop_code: Option<u32>, idx: usize, cov: &mut Coverage, out: &mut Vec<Violation>) {
        let Some(c) = wpix::decode(v_ix) else { return };
        let a = wpix::two_hop_args(&c);
        let Some(lg) = legs(&c, pre) else { return };
        let out_mint_one = if a.a_to_b_one { lg.s1.mint_b } else { lg.s1.mint_a };
        let in_mint_two = if a.a_to_b_two { lg.s2.mint_a } else { lg.s2.mint_b };
        let distinct = lg.w1 != lg.w2;
        let shared = out_mint_one == in_mint_two;
        if two_hop_ok && (!distinct || !shared) {
            out.push(viol("accepted_bad_pool_pair", idx, format!("two-hop succeeded with distinct={} shared_intermediate_mint={}", distinct, shared)));
            return;
        }
        if !distinct || !shared {
            cov.eval(format!("{}|reject|distinct={}|shared={}", c.name(), distinct, shared));
            return;
        }
        let all_plain = [lg.s1.mint_a, lg.s1.mint_b, lg.s2.mint_a, lg.s2.mint_b].iter().all(|m| is_plain(pre, m));
        // the stated threshold, one unit tighter than what this route just realised, on a copy: whatever the program then
        // does, the trader must not end up with less than a stated minimum / pay more than a stated maximum
        if two_hop_ok && v_ix.data.len() >= 24 {
            if let Some(post) = two_hop_post {
                let in_acct = if lg.v2 { c.a("token_owner_account_input") } else if a.a_to_b_one { lg.sa1.owner_a } else { lg.sa1.owner_b };
                let out_acct = if lg.v2 { c.a("token_owner_account_output") } else if a.a_to_b_two { lg.sa2.owner_b } else { lg.sa2.owner_a };
                if in_acct != out_acct {
                    let got = token_amount(post, &out_acct) as i128 - token_amount(pre, &out_acct) as i128;
                    let paid = token_amount(pre, &in_acct) as i128 - token_amount(post, &in_acct) as i128;
                    let tight: Option<u64> = if a.is_input { u64::try_from(got + 1).ok() } else { u64::try_from(paid - 1).ok() };
                    if let Some(t) = tight {
                        let mut ix2 = v_ix.clone();
                        ix2.data[16..24].copy_from_slice(&t.to_le_bytes());
                        let mut f = pre.clone();
                        let r = run(&mut f, ix2);
                        cov.probe("tight_threshold_forks");
                        let got2 = token_amount(&f, &out_acct) as i128 - token_amount(pre, &out_acct) as i128;
                        let paid2 = token_amount(pre, &in_acct) as i128 - token_amount(&f, &in_acct) as i128;
                        if r.ok && a.is_input && got2 < t as i128 {
                            out.push(viol("threshold_not_honoured", idx, format!("{} exact-in with minimum output {} succeeds but the trader receives {}", c.name(), t, got2)));
                            return;
                        }
                        if r.ok && !a.is_input && paid2 > t as i128 {
                            out.push(viol("threshold_not_honoured", idx, format!("{} exact-out with maximum input {} succeeds but the trader pays {}", c.name(), t, paid2)));
                            return;
                        }
                    }
                }
            }
        }
        if !all_plain {
            // With transfer-fee tokens the intermediate amount is charged once in a two-hop and twice in two single swaps, so
            // the trader-side equivalence does not carry over. The pool side does: each pool must end exactly where a single
            // exact-in swap leaves it whose input is what that pool's vault received in the two-hop.
            cov.eval(format!("{}|transfer_fee_world|ok={}", c.name(), two_hop_ok));
            // a route refused because "the two legs' intermediate amounts do not match" although they do: carried from vault to
            // vault, the intermediate token pays its transfer fee once. The same chain as single swap_v2's through the trader
            // (whose accounts are funded on the copy): exact-in - leg one with the amount, leg two fed exactly what pool one's
            // vault paid out (the same fee comes off on the way into pool two's vault); exact-out - leg two with the amount, leg
            // one asked to deliver exactly what pool two's vault took in. If both fill completely, the amounts do match.
            // (likewise a refusal that blames the list of remaining accounts - duplicated slice type, invalid or insufficient
            // slices - although each slice type is listed once and the lengths add up to the accounts that were sent)
            let slices_well_formed = {
                let d = &v_ix.data;
                let n_named = c.info.accounts.len();
                if d.len() > 59 && d[59] == 1 && d.len() >= 64 {
                    let n = u32::from_le_bytes([d[60], d[61], d[62], d[63]]) as usize;
                    if d.len() >= 64 + 2 * n {
                        let sl: Vec<(u8, usize)> = (0..n).map(|i| (d[64 + 2 * i], d[65 + 2 * i] as usize)).collect();
                        let distinct_types = (0..n).all(|i| (0..i).all(|j| sl[i].0 != sl[j].0));
                        distinct_types && sl.iter().all(|(_, len)| *len > 0) && sl.iter().map(|(_, len)| *len).sum::<usize>() == v_ix.accounts.len().saturating_sub(n_named)
                    } else {
                        false
                    }
                } else {
                    false
                }
            };
            // ... or that misses hook accounts (6050) although a slice is listed for every token of the route whose mint calls a hook
            let hook_slices_complete = slices_well_formed && {
                let d = &v_ix.data;
                let n = u32::from_le_bytes([d[60], d[61], d[62], d[63]]) as usize;
                let listed: Vec<u8> = (0..n).map(|i| d[64 + 2 * i]).collect();
                let calls_hook = |m: &Pubkey| -> bool {
                    pre.get(m).map(|a| a.owner == ix::tok22() && crate::decode::tlv_entries(&a.data).iter().any(|(t, v)| *t == 14 && v.len() >= 64 && v[32..64].iter().any(|b| *b != 0))).unwrap_or(false)
                };
                let in_mint = if a.a_to_b_one { lg.s1.mint_a } else { lg.s1.mint_b };
                let out_mint = if a.a_to_b_two { lg.s2.mint_b } else { lg.s2.mint_a };
                // AccountsType: 3 TransferHookInput, 4 TransferHookIntermediate, 5 TransferHookOutput
                [(in_mint, 3u8), (in_mint_two, 4u8), (out_mint, 5u8)].iter().all(|(m, ty)| !calls_hook(m) || listed.contains(ty))
            };
            if !two_hop_ok && (two_hop_code == Some(6051) || (slices_well_formed && matches!(two_hop_code, Some(6048) | Some(6049) | Some(6053))) || (hook_slices_complete && two_hop_code == Some(6050))) && lg.v2 {
                let fund = |f: &mut Ledger, k: &Pubkey| {
                    if let Some(acc) = f.accts.get_mut(k) {
                        if acc.data.len() >= 72 {
                            let mut d = (*acc.data).clone();
                            d[64..72].copy_from_slice(&(u64::MAX / 2).to_le_bytes());
                            acc.data = std::rc::Rc::new(d);
                        }
                    }
                };
                let bal = |l: &Ledger, k: &Pubkey| token_amount(l, k) as i128;
                let (u1_in, u1_out, v1_out) = if a.a_to_b_one { (lg.sa1.owner_a, lg.sa1.owner_b, lg.s1.vault_b) } else { (lg.sa1.owner_b, lg.sa1.owner_a, lg.s1.vault_a) };
                let (u2_in, u2_out, v2_in) = if a.a_to_b_two { (lg.sa2.owner_a, lg.sa2.owner_b, lg.s2.vault_a) } else { (lg.sa2.owner_b, lg.sa2.owner_a, lg.s2.vault_b) };
                if [u1_in, u1_out, u2_in, u2_out].iter().all(|k| *k != Pubkey::default()) && u1_in != u2_out {
                    let mut f = pre.clone();
                    allow_delegate(&mut f, &lg);
                    for k in [u1_in, u2_in] {
                        fund(&mut f, &k);
                    }
                    let matched: Option<String> = (|| {
                        if a.is_input {
                            // "consumed completely" is read off the vaults: what arrives is the amount less its transfer fee
                            let epoch = rt::with_ctx(|cx| cx.clock.epoch);
                            let (mint_in, mint_mid) = (if a.a_to_b_one { lg.s1.mint_a } else { lg.s1.mint_b }, in_mint_two);
                            let v1_in = if a.a_to_b_one { lg.s1.vault_a } else { lg.s1.vault_b };
                            let net = |m: &Pubkey, x: u64| (x - crate::world::transfer_fee_of(pre, m, epoch, x).min(x)) as i128;
                            let (i0, o0) = (bal(&f, &v1_in), bal(&f, &v1_out));
                            let r1 = run(&mut f, ix::swap_v2(&lg.sa1, &SwapArgs { amount: a.amount, other_amount_threshold: 0, sqrt_price_limit: a.limit_one, amount_specified_is_input: true, a_to_b: a.a_to_b_one }, &[]));
                            if !r1.ok || bal(&f, &v1_in) - i0 != net(&mint_in, a.amount) {
                                return None;
                            }
                            let g = u64::try_from(o0 - bal(&f, &v1_out)).ok().filter(|g| *g > 0)?;
                            fund(&mut f, &u2_in);
                            let i2 = bal(&f, &v2_in);
                            let r2 = run(&mut f, ix::swap_v2(&lg.sa2, &SwapArgs { amount: g, other_amount_threshold: 0, sqrt_price_limit: a.limit_two, amount_specified_is_input: true, a_to_b: a.a_to_b_two }, &[]));
                            if !r2.ok || bal(&f, &v2_in) - i2 != net(&mint_mid, g) {
                                return None;
                            }
                            Some(format!("exact-in {}: leg one pays out {} and leg two, sent those {}, consumes them completely", a.amount, g, g))
                        } else {
                            let (o0, v0) = (bal(&f, &u2_out), bal(&f, &v2_in));
                            let r2 = run(&mut f, ix::swap_v2(&lg.sa2, &SwapArgs { amount: a.amount, other_amount_threshold: u64::MAX, sqrt_price_limit: a.limit_two, amount_specified_is_input: false, a_to_b: a.a_to_b_two }, &[]));
                            if !r2.ok || bal(&f, &u2_out) - o0 != a.amount as i128 {
                                return None;
                            }
                            let in2 = u64::try_from(bal(&f, &v2_in) - v0).ok().filter(|g| *g > 0)?;
                            fund(&mut f, &u1_in);
                            let m0 = bal(&f, &u1_out);
                            let r1 = run(&mut f, ix::swap_v2(&lg.sa1, &SwapArgs { amount: in2, other_amount_threshold: u64::MAX, sqrt_price_limit: a.limit_one, amount_specified_is_input: false, a_to_b: a.a_to_b_one }, &[]));
                            if !r1.ok || bal(&f, &u1_out) - m0 != in2 as i128 {
                                return None;
                            }
                            Some(format!("exact-out {}: pool two's vault takes in {} and leg one delivers exactly {} after the transfer fee", a.amount, in2, in2))
                        }
                    })();
                    cov.probe("fee_world_mismatch_refusals_decomposed");
                    if let Some(m) = matched {
                        out.push(viol("rejected_without_reason", idx, format!("{} refused with error {:?} although the legs match as single swaps ({})", c.name(), two_hop_code, m)));
                        return;
                    }
                }
            }
            if let (true, true, Some(post)) = (two_hop_ok, a.is_input, two_hop_post) {
                let epoch = rt::with_ctx(|cx| cx.clock.epoch);
                for (leg, sa, wk, pool, dir, lim) in [(1u8, &lg.sa1, lg.w1, &lg.s1, a.a_to_b_one, a.limit_one), (2u8, &lg.sa2, lg.w2, &lg.s2, a.a_to_b_two, a.limit_two)] {
                    let (vin, mint_in, user_in) = if dir { (pool.vault_a, pool.mint_a, sa.owner_a) } else { (pool.vault_b, pool.mint_b, sa.owner_b) };
                    if user_in == Pubkey::default() {
                        continue;
                    }
                    let arrived = token_amount(post, &vin) as i128 - token_amount(pre, &vin) as i128;
                    if arrived <= 0 {
                        continue;
                    }
                    // smallest amount the trader must send so that exactly `arrived` reaches the vault
                    let g = |x: u64| -> u128 { (x - crate::world::transfer_fee_of(pre, &mint_in, epoch, x).min(x)) as u128 };
                    let (mut lo, mut hi) = (arrived as u64, u64::MAX);
                    if g(hi) < arrived as u128 {
                        continue;
                    }
                    while lo < hi {
                        let mid = lo + (hi - lo) / 2;
                        if g(mid) >= arrived as u128 { hi = mid } else { lo = mid + 1 }
                    }
                    if g(lo) != arrived as u128 {
                        continue; // not every amount can arrive exactly (fee plateaus)
                    }
                    let mut f = pre.clone();
                    allow_delegate(&mut f, &lg);
                    // the trader holds enough of the input token on the copy
                    if let Some(acc) = f.accts.get_mut(&user_in) {
                        let mut d = (*acc.data).clone();
                        d[64..72].copy_from_slice(&u64::MAX.to_le_bytes());
                        acc.data = std::rc::Rc::new(d);
                    }
                    // leg one is given the amount the trader specified (it may stop at its price limit, having moved through
                    // empty ranges); leg two always consumes exactly what arrived
                    let amount = if leg == 1 { a.amount } else { lo };
                    let args = SwapArgs { amount, other_amount_threshold: 0, sqrt_price_limit: lim, amount_specified_is_input: true, a_to_b: dir };
                    let r = run(&mut f, ix::swap_v2(sa, &args, &[]));
                    cov.probe("transfer_fee_pool_side_equivalence");
                    if !r.ok {
                        out.push(viol("accepted_failing_leg", idx, format!("two-hop succeeded but leg {} as a single swap_v2 priced on what its vault received ({}) fails: {:?}", leg, arrived, r.custom())));
                        return;
                    }
                    let mut keys: Vec<Pubkey> = vec![wk, sa.pool.oracle];
                    keys.extend_from_slice(&sa.tick_arrays);
                    for k in keys {
                        if f.data(&k) != post.data(&k) {
                            let (da, db) = (f.data(&k).map(|d| d.to_vec()).unwrap_or_default(), post.data(&k).map(|d| d.to_vec()).unwrap_or_default());
                            let first = da.iter().zip(db.iter()).position(|(x, y)| x != y);
                            out.push(viol("pool_side_state_differs", idx, format!("account {} of pool {} differs (first differing byte {:?}, lengths {} / {}) between the two-hop and a single swap_v2 whose vault receipt is the same ({} of the input token, sent {}); prices pre {:?} two-hop {:?} single {:?}; single vault receipt {}; args {:?}", k, leg, first, da.len(), db.len(), arrived, lo,
                                pre.data(&wk).and_then(decode::pool).map(|p| p.sqrt_price), post.data(&wk).and_then(decode::pool).map(|p| p.sqrt_price), f.data(&wk).and_then(decode::pool).map(|p| p.sqrt_price),
                                token_amount(&f, &vin) as i128 - token_amount(pre, &vin) as i128, (a.amount, a.is_input, a.a_to_b_one, a.a_to_b_two, a.limit_one, a.limit_two))));
                            return;
                        }
                    }
                }
            }
            return;
        }
        // fork B: the two legs as single swaps
        let mut fb = pre.clone();
        allow_delegate(&mut fb, &lg);
        let in_acct = if a.a_to_b_one { lg.sa1.owner_a } else { lg.sa1.owner_b };
        let mid_acct_1 = if a.a_to_b_one { lg.sa1.owner_b } else { lg.sa1.owner_a };
        let mid_acct_2 = if a.a_to_b_two { lg.sa2.owner_a } else { lg.sa2.owner_b };
        let out_acct = if a.a_to_b_two { lg.sa2.owner_b } else { lg.sa2.owner_a };
        if mid_acct_1 == Pubkey::default() || mid_acct_2 == Pubkey::default() {
            return;
        }
        let bal = |l: &Ledger, k: &Pubkey| token_amount(l, k) as i128;
        let (in0, mid0, out0) = (bal(&fb, &in_acct), bal(&fb, &mid_acct_1), bal(&fb, &out_acct));
        // a cyclic route (X -> Y -> X through two pools of one pair) pays into and out of the same trader account: what the
        // trader paid and received is then read off the vaults (plain mints: nothing is withheld on the way)
        let cyclic = in_acct == out_acct;
        let vin = if a.a_to_b_one { lg.s1.vault_a } else { lg.s1.vault_b };
        let vout = if a.a_to_b_two { lg.s2.vault_b } else { lg.s2.vault_a };
        let (vin0, vout0) = (bal(&fb, &vin), bal(&fb, &vout));
        let flows = |l: &Ledger| -> (i128, i128) {
            if cyclic {
                (bal(l, &vin) - vin0, vout0 - bal(l, &vout))
            } else {
                (in0 - bal(l, &in_acct), bal(l, &out_acct) - out0)
            }
        };
        if cyclic {
            cov.probe("cyclic_route_compared");
        }
        let singles: Result<(i128, i128, i128, i128), String> = (|| {
            if a.is_input {
                let a1 = SwapArgs { amount: a.amount, other_amount_threshold: 0, sqrt_price_limit: a.limit_one, amount_specified_is_input: true, a_to_b: a.a_to_b_one };
                let o1 = run(&mut fb, single(&lg, 1, &a1));
                if !o1.ok {
                    return Err(format!("leg one fails alone: {:?}", o1.custom()));
                }
                let mid_out = bal(&fb, &mid_acct_1) - mid0;
                if mid_out <= 0 || mid_out > u64::MAX as i128 {
                    return Err("leg one produced nothing".into());
                }
                let a2 = SwapArgs { amount: mid_out as u64, other_amount_threshold: 0, sqrt_price_limit: a.limit_two, amount_specified_is_input: true, a_to_b: a.a_to_b_two };
                let mid_before_2 = bal(&fb, &mid_acct_2);
                let o2 = run(&mut fb, single(&lg, 2, &a2));
                if !o2.ok {
                    return Err(format!("leg two fails alone: {:?}", o2.custom()));
                }
                let mid_in = mid_before_2 - bal(&fb, &mid_acct_2);
                {
                    let (p, g) = flows(&fb);
                    Ok((p, mid_out, mid_in, g))
                }
            } else {
                // learn the intermediate amount from leg two on a scratch fork
                let a2 = SwapArgs { amount: a.amount, other_amount_threshold: u64::MAX, sqrt_price_limit: a.limit_two, amount_specified_is_input: false, a_to_b: a.a_to_b_two };
                let mut scratch = fb.clone();
                // the trader may not hold the intermediate token yet: top up on the scratch fork only
                if let Some(acc) = scratch.accts.get_mut(&mid_acct_2) {
                    let mut d = (*acc.data).clone();
                    d[64..72].copy_from_slice(&(u64::MAX / 2).to_le_bytes());
                    acc.data = std::rc::Rc::new(d);
                }
                let mid_s0 = bal(&scratch, &mid_acct_2);
                let o2s = run(&mut scratch, single(&lg, 2, &a2));
                if !o2s.ok {
                    return Err(format!("leg two fails alone: {:?}", o2s.custom()));
                }
                let need = mid_s0 - bal(&scratch, &mid_acct_2);
                if need <= 0 || need > u64::MAX as i128 {
                    return Err("leg two needs nothing".into());
                }
                let a1 = SwapArgs { amount: need as u64, other_amount_threshold: u64::MAX, sqrt_price_limit: a.limit_one, amount_specified_is_input: false, a_to_b: a.a_to_b_one };
                let o1 = run(&mut fb, single(&lg, 1, &a1));
                if !o1.ok {
                    return Err(format!("leg one fails alone: {:?}", o1.custom()));
                }
                let mid_out = bal(&fb, &mid_acct_1) - mid0;
                let mid_before_2 = bal(&fb, &mid_acct_2);
                let o2 = run(&mut fb, single(&lg, 2, &a2));
                if !o2.ok {
                    return Err(format!("leg two fails after leg one: {:?}", o2.custom()));
                }
                let mid_in = mid_before_2 - bal(&fb, &mid_acct_2);
                {
                    let (p, g) = flows(&fb);
                    Ok((p, mid_out, mid_in, g))
                }
            }
        })();
        let key = format!(
            "{}|{}|{}{}|ok={}|singles={}|limits={}{}",
            c.name(),
            if a.is_input { "in" } else { "out" },
            if a.a_to_b_one { "a2b" } else { "b2a" },
            if a.a_to_b_two { "a2b" } else { "b2a" },
            two_hop_ok,
            match &singles { Ok((_, mo, mi, _)) => if mo == mi { "match" } else { "mismatch" }, Err(_) => "fail" },
            (a.limit_one != 0) as u8,
            (a.limit_two != 0) as u8
        );
        cov.eval(key);
        match (&singles, two_hop_ok) {
            (Ok((paid, mid_out, mid_in, got)), true) => {
                cov.probe("two_hop_vs_singles_compared");
                for wk in [c.a("whirlpool_one"), c.a("whirlpool_two")] {
                    if let (Some(p0), Some(p1)) = (pre.data(&wk).and_then(decode::pool), two_hop_post.and_then(|l| l.data(&wk)).and_then(decode::pool)) {
                        let width = 88 * p0.tick_spacing as i32;
                        if (p1.tick_current_index.div_euclid(width) - p0.tick_current_index.div_euclid(width)).abs() >= 2 {
                            cov.probe("two_hop_leg_ended_in_its_third_tick_array");
                        }
                    }
                }
                if mid_out != mid_in {
                    out.push(viol("accepted_intermediate_mismatch", idx, format!("two-hop succeeded although leg one yields {} and leg two consumes {}", mid_out, mid_in)));
                    return;
                }
                let post = two_hop_post.unwrap();
                let pa = pool_side_accounts(post, &lg);
                let pb = pool_side_accounts(&fb, &lg);
                // vault token accounts: compare amounts only for the intermediate vaults in v2 (vault-to-vault transfer)
                for ((k, da), (_, db)) in pa.iter().zip(pb.iter()) {
                    if da != db {
                        out.push(viol("pool_side_state_differs", idx, format!("account {} differs between the two-hop and its two single swaps", k)));
                        return;
                    }
                }
                if all_plain {
                    let (tin, tout) = flows(post);
                    let tmid = bal(post, &mid_acct_1) - mid0;
                    if tin != *paid || tout != *got || tmid != 0 {
                        out.push(viol("trader_balances_differ", idx, format!("two-hop: paid {} got {} intermediate {:+}; singles: paid {} got {}", tin, tout, tmid, paid, got)));
                    }
                    // threshold honoured
                    if a.is_input && tout < a.threshold as i128 {
                        out.push(viol("threshold", idx, format!("output {} below the stated minimum {}", tout, a.threshold)));
                    }
                    if !a.is_input && tin > a.threshold as i128 {
                        out.push(viol("threshold", idx, format!("input {} above the stated maximum {}", tin, a.threshold)));
                    }
                    if out.is_empty() {
                        cov.sample(json!({"ix": c.name(), "exact_in": a.is_input, "a_to_b": [a.a_to_b_one, a.a_to_b_two], "amount": a.amount, "paid": tin.to_string(), "intermediate": mid_out.to_string(), "received": tout.to_string(), "equal_to_two_single_swaps": true}));
                    }
                }
            }
            (Ok((paid, mid_out, mid_in, got)), false) => {
                // the two-hop may only have failed for a listed reason
                let thr_fail = if a.is_input { *got < a.threshold as i128 } else { *paid > a.threshold as i128 };
                let legit = mid_out != mid_in || thr_fail;
                if legit {
                    cov.probe("two_hop_rejected_for_listed_reason");
                } else if matches!(two_hop_code, Some(c) if (6000..6100).contains(&c) || (2000..3100).contains(&c)) {
                    // (any refusal of the program's own - a threshold, a mismatch, a closed trade gate, a tick-array sequence -
                    // needs a reason that the two single swaps would have met as well)
                    out.push(viol("rejected_without_reason", idx, format!("two-hop failed with {:?} but both legs succeed alone with matching intermediate amount {} and the threshold {} is met (paid {}, got {})", two_hop_code, mid_out, a.threshold, paid, got)));
                } else {
                    // other failures (funds, stale arrays for the composed path, ...) are environmental
                    cov.note(&format!("c17_two_hop_failed_other:{:?}", two_hop_code));
                }
            }
            (Err(why), true) => {
                out.push(viol("accepted_failing_leg", idx, format!("two-hop succeeded but as single swaps: {}", why)));
            }
            (Err(_), false) => {
                cov.probe("two_hop_and_singles_both_fail");
            }
        }
    }
}

impl C17 {
    /// "fails if either leg would fail on its own", over inputs a Byzantine trader can craft: one pool-side token
    /// account of the two-hop is replaced by a token account of the trader (right mint). The single swap of that leg
    /// with the same replacement fails; the two-hop must fail as well.
    fn leg_fails_alone(&self, v_ix: &rt::Ix, pre: &Ledger, salt: u64, idx: usize, cov: &mut Coverage, out: &mut Vec<Violation>) {
        let Some(c) = wpix::decode(v_ix) else { return };
        let a = wpix::two_hop_args(&c);
        let Some(lg) = legs(&c, pre) else { return };
        let slots: [(&str, u8, bool); 4] = if lg.v2 {
            [
                ("token_vault_one_input", 1, a.a_to_b_one),
                ("token_vault_one_intermediate", 1, !a.a_to_b_one),
                ("token_vault_two_intermediate", 2, a.a_to_b_two),
                ("token_vault_two_output", 2, !a.a_to_b_two),
            ]
        } else {
            [("token_vault_one_a", 1, true), ("token_vault_one_b", 1, false), ("token_vault_two_a", 2, true), ("token_vault_two_b", 2, false)]
        };
        for (n, (slot, leg, is_a)) in slots.iter().enumerate() {
            let Some(si) = c.idx(slot) else { continue };
            let pool = if *leg == 1 { &lg.s1 } else { &lg.s2 };
            let mint = if *is_a { pool.mint_a } else { pool.mint_b };
            if !is_plain(pre, &mint) {
                continue;
            }
            let mut f = pre.clone();
            let fake = crate::world::scratch_key(salt, 7100 + n as u64);
            crate::world::put_token_account(&mut f, &fake, &mint, &lg.auth, 1 << 40);
            // the leg alone, with the same replacement
            let mut sa = if *leg == 1 { lg.sa1.clone() } else { lg.sa2.clone() };
            if *is_a {
                sa.pool.vault_a = fake;
            } else {
                sa.pool.vault_b = fake;
            }
            let (dir, lim) = if *leg == 1 { (a.a_to_b_one, a.limit_one) } else { (a.a_to_b_two, a.limit_two) };
            let args = SwapArgs { amount: a.amount.max(1), other_amount_threshold: if a.is_input { 0 } else { u64::MAX }, sqrt_price_limit: lim, amount_specified_is_input: a.is_input, a_to_b: dir };
            let lone = run(&mut f.clone(), if lg.v2 { ix::swap_v2(&sa, &args, &[]) } else { ix::swap(&sa, &args) });
            if lone.ok {
                cov.note("c17_single_swap_accepts_replaced_vault");
                continue;
            }
            let mut ix2 = v_ix.clone();
            ix2.accounts[si].pubkey = fake;
            let r = run(&mut f, ix2);
            cov.probe("leg_fails_alone_variants");
            cov.eval(format!("{}|replaced:{}|two_hop_ok={}", c.name(), slot, r.ok));
            if r.ok {
                out.push(viol("accepted_although_a_leg_fails_alone", idx, format!("{} succeeds with the trader's own token account in the `{}` slot although the single swap of leg {} with the same replacement fails (code {:?})", c.name(), slot, leg, lone.custom())));
                return;
            }
        }
    }
}

impl C17 {
    /// "fails ... if both legs name the same pool": one pool's genuine accounts in both legs, opposite directions
    /// (X -> Y -> X), in the state as it is and - on a copy - with the price put exactly on the start of the current
    /// tick array in the shifted state (then the two legs start in different arrays, and the lower one may not exist).
    fn same_pool_twice(&self, v_ix: &rt::Ix, pre: &Ledger, idx: usize, cov: &mut Coverage, out: &mut Vec<Violation>) {
        if let Some(d) = same_pool_twice_accepted(v_ix, pre, cov) {
            out.push(viol("accepted_same_pool_twice", idx, d));
        }
    }
}

/// Supplemental tick arrays (v2): the same route with up to three extra arrays per pool in the remaining accounts must
/// give exactly the same result as without them (each leg accepts them as a single swap).
pub fn supplemental_lists(v_ix: &rt::Ix, pre: &Ledger, post: &Ledger, salt: u64, idx: usize, cov: &mut Coverage, out: &mut Vec<Violation>) {
    let Some(c) = wpix::decode(v_ix) else { return };
    if c.name() != "two_hop_swap_v2" || v_ix.data.last() != Some(&0) || !c.remaining().is_empty() {
        return;
    }
    let Some(lg) = legs(&c, pre) else { return };
    // only when the route already carries the canonical arrays of both legs: a route planned on an older price may run
    // off its arrays (or over a merely named one), and extra arrays then legitimately let it see more of the path
    let a = wpix::two_hop_args(&c);
    let canon1 = crate::gen::swap_tick_arrays(&lg.s1, &lg.w1, a.a_to_b_one);
    let canon2 = crate::gen::swap_tick_arrays(&lg.s2, &lg.w2, a.a_to_b_two);
    if !canon1.iter().all(|k| lg.sa1.tick_arrays.contains(k)) || !canon2.iter().all(|k| lg.sa2.tick_arrays.contains(k)) {
        return;
    }
    let pick = |wk: &Pubkey, canon: &[Pubkey; 3], n: usize| -> Vec<Pubkey> {
        let mut v: Vec<Pubkey> = decode::tick_arrays_of_pool(pre, wk).into_iter().map(|(k, _)| k).collect();
        v.extend_from_slice(canon);
        v.truncate(n);
        v
    };
    let combos: [(usize, usize); 4] = [(3, 0), (0, 3), (3, 3), (1, 2)];
    let (n1, n2) = combos[(salt % 4) as usize];
    let (s1, s2) = (pick(&lg.w1, &lg.sa1.tick_arrays, n1), pick(&lg.w2, &lg.sa2.tick_arrays, n2));
    if s1.len() != n1 || s2.len() != n2 {
        return;
    }
    let mut ix2 = v_ix.clone();
    let mut data = v_ix.data[..v_ix.data.len() - 1].to_vec();
    data.push(1);
    let n_slices = (n1 > 0) as u32 + (n2 > 0) as u32;
    data.extend_from_slice(&n_slices.to_le_bytes());
    if n1 > 0 {
        data.push(7); // AccountsType::SupplementalTickArraysOne
        data.push(n1 as u8);
    }
    if n2 > 0 {
        data.push(8); // AccountsType::SupplementalTickArraysTwo
        data.push(n2 as u8);
    }
    ix2.data = data;
    for k in s1.iter().chain(s2.iter()) {
        ix2.accounts.push(rt::Meta { pubkey: *k, is_signer: false, is_writable: true });
    }
    // the same list once more with an EMPTY slice of an accepted type in front ("no accounts of that kind" says nothing about
    // the slices behind it): same outcome
    {
        let mut ix4 = ix2.clone();
        let mut d = v_ix.data[..v_ix.data.len() - 1].to_vec();
        d.push(1);
        d.extend_from_slice(&(n_slices + 1).to_le_bytes());
        // an empty slice of the other pool's supplemental arrays if that pool sends none, else of the input token's hook accounts
        let empty_ty: u8 = if n1 == 0 { 7 } else if n2 == 0 { 8 } else { 3 };
        d.push(empty_ty);
        d.push(0);
        if n1 > 0 {
            d.push(7);
            d.push(n1 as u8);
        }
        if n2 > 0 {
            d.push(8);
            d.push(n2 as u8);
        }
        ix4.data = d;
        let mut f4 = pre.clone();
        let r4 = run(&mut f4, ix4);
        cov.probe("supplemental_lists_behind_an_empty_slice");
        if !r4.ok || pool_side_accounts(&f4, &lg) != pool_side_accounts(post, &lg) {
            out.push(viol("supplemental_arrays_change_outcome", idx, format!("two_hop_swap_v2 with {} + {} supplemental tick arrays listed behind an empty slice: ok={} code={:?}, although it succeeds without them", n1, n2, r4.ok, r4.custom())));
            return;
        }
    }
    // ... and with the second pool's real arrays ONLY in the supplemental slice (its three regular slots hold another array
    // of that pool), behind an empty slice for the first pool: the route needs what stands behind the empty slice
    {
        let others: Vec<Pubkey> = decode::tick_arrays_of_pool(pre, &lg.w2).into_iter().map(|(k, _)| k).filter(|k| !lg.sa2.tick_arrays.contains(k)).collect();
        if let (Some(other), Some(i0)) = (others.first(), c.idx("tick_array_two_0")) {
            let mut ix5 = v_ix.clone();
            for k in 0..3 {
                ix5.accounts[i0 + k].pubkey = *other;
            }
            let mut d = v_ix.data[..v_ix.data.len() - 1].to_vec();
            d.push(1);
            d.extend_from_slice(&2u32.to_le_bytes());
            d.extend_from_slice(&[7, 0, 8, 3]);
            ix5.data = d;
            for k in lg.sa2.tick_arrays.iter() {
                ix5.accounts.push(rt::Meta { pubkey: *k, is_signer: false, is_writable: true });
            }
            let mut f5 = pre.clone();
            let r5 = run(&mut f5, ix5);
            cov.probe("second_pool_arrays_only_behind_an_empty_slice");
            if !r5.ok || pool_side_accounts(&f5, &lg) != pool_side_accounts(post, &lg) {
                out.push(viol("supplemental_arrays_change_outcome", idx, format!("two_hop_swap_v2 with pool two's tick arrays given as supplemental arrays behind an empty slice for pool one: ok={} code={:?}, although the route succeeds with them in the regular slots", r5.ok, r5.custom())));
                return;
            }
        }
    }
    let mut f = pre.clone();
    let r = run(&mut f, ix2);
    cov.probe("supplemental_array_list_variants");
    cov.eval(format!("two_hop_swap_v2|supplemental|{}+{}|ok={}", n1, n2, r.ok));
    if !r.ok {
        out.push(viol("supplemental_arrays_change_outcome", idx, format!("two_hop_swap_v2 fails (code {:?}) when {} supplemental tick arrays for pool one and {} for pool two are added, although it succeeds without them", r.custom(), n1, n2)));
        return;
    }
    if pool_side_accounts(&f, &lg) != pool_side_accounts(post, &lg) {
        out.push(viol("supplemental_arrays_change_outcome", idx, format!("two_hop_swap_v2 leaves different pool-side state when {} + {} supplemental tick arrays are added", n1, n2)));
        return;
    }
    if let Some(d) = duplicated_slice_accepted(v_ix, pre, cov) {
        out.push(viol("duplicated_slice_type_accepted", idx, d));
    }
}

/// the same slice type listed twice in the remaining accounts of a two_hop_swap_v2 (the first time with a tick array of the
/// OTHER pool, which then nobody checks): the only acceptable outcome is a refusal
pub fn duplicated_slice_accepted(v_ix: &rt::Ix, pre: &Ledger, cov: &mut Coverage) -> Option<String> {
    let c = wpix::decode(v_ix)?;
    if c.name() != "two_hop_swap_v2" || v_ix.data.last() != Some(&0) || !c.remaining().is_empty() {
        return None;
    }
    let lg = legs(&c, pre)?;
    for (ty, own, other) in [(7u8, &lg.sa1.tick_arrays, &lg.sa2.tick_arrays), (8u8, &lg.sa2.tick_arrays, &lg.sa1.tick_arrays)] {
        let mut ix3 = v_ix.clone();
        let mut data = v_ix.data[..v_ix.data.len() - 1].to_vec();
        data.push(1);
        data.extend_from_slice(&2u32.to_le_bytes());
        data.extend_from_slice(&[ty, 1, ty, 1]);
        ix3.data = data;
        ix3.accounts.push(rt::Meta { pubkey: other[0], is_signer: false, is_writable: true });
        ix3.accounts.push(rt::Meta { pubkey: own[0], is_signer: false, is_writable: true });
        let mut f3 = pre.clone();
        let r3 = run(&mut f3, ix3);
        cov.probe("duplicated_slice_type_variants");
        if r3.ok {
            return Some(format!("two_hop_swap_v2 succeeds although the slice type {} is listed twice in its remaining accounts (the first slice carrying a tick array of the other pool)", if ty == 7 { "SupplementalTickArraysOne" } else { "SupplementalTickArraysTwo" }));
        }
    }
    None
}

/// shared with C15 ("two distinct pools"): Some(description) when a two-hop naming one pool in both legs goes through
pub fn same_pool_twice_accepted(v_ix: &rt::Ix, pre: &Ledger, cov: &mut Coverage) -> Option<String> {
    {
        let c = wpix::decode(v_ix)?;
        let a = wpix::two_hop_args(&c);
        let lg = legs(&c, pre)?;
        for (which, sa, wk, pool) in [("one", &lg.sa1, lg.w1, &lg.s1), ("two", &lg.sa2, lg.w2, &lg.s2)] {
            if sa.owner_a == Pubkey::default() || sa.owner_b == Pubkey::default() || pool.tick_spacing >= 32768 {
                continue;
            }
            let sp = pool.tick_spacing;
            let start = crate::gen::ta_start(pool.tick_current_index, sp);
            let mut states: Vec<(&str, Ledger, decode::Pool)> = vec![("as it is", pre.clone(), pool.clone())];
            if start > decode::MIN_TICK && start - 1 >= decode::MIN_TICK {
                // shifted state on the array boundary: price(start), tick start - 1
                let mut f = pre.clone();
                if let Some(acc) = f.accts.get_mut(&wk) {
                    let mut d = (*acc.data).clone();
                    // sqrt_price at 65..81, tick_current_index at 81..85 (after discriminator, config, bump, spacing, seed, rates, liquidity)
                    d[65..81].copy_from_slice(&crate::model::sqrt_price_of_tick(start).to_le_bytes());
                    d[81..85].copy_from_slice(&(start - 1).to_le_bytes());
                    acc.data = std::rc::Rc::new(d);
                }
                if let Some(p2) = f.data(&wk).and_then(decode::pool) {
                    if p2.tick_current_index == start - 1 && p2.sqrt_price == crate::model::sqrt_price_of_tick(start) {
                        states.push(("shifted onto the start of its tick array", f, p2));
                    }
                }
            }
            for (label, f, p) in states {
                for d in [true, false] {
                    let t = ix::TwoHopAccounts {
                        one: sa.pool.clone(),
                        two: sa.pool.clone(),
                        authority: lg.auth,
                        owner_one_a: sa.owner_a,
                        owner_one_b: sa.owner_b,
                        owner_two_a: sa.owner_a,
                        owner_two_b: sa.owner_b,
                        tick_arrays_one: crate::gen::swap_tick_arrays(&p, &wk, d),
                        tick_arrays_two: crate::gen::swap_tick_arrays(&p, &wk, !d),
                    };
                    let args = ix::TwoHopArgs { amount: a.amount.clamp(1, 1_000_000), other_amount_threshold: 0, amount_specified_is_input: true, a_to_b_one: d, a_to_b_two: !d, sqrt_price_limit_one: 0, sqrt_price_limit_two: 0 };
                    let ixn = if lg.v2 { ix::two_hop_swap_v2(&t, &args) } else { ix::two_hop_swap(&t, &args) };
                    let mut ff = f.clone();
                    let r = run(&mut ff, ixn);
                    cov.probe("same_pool_twice_variants");
                    cov.eval(format!("{}|same_pool_twice|{}|ok={}", c.name(), label, r.ok));
                    if r.ok {
                        return Some(format!("{} succeeds with pool {} ({}) in both legs (state {}, first leg a_to_b={})", c.name(), which, wk, label, d));
                    }
                }
            }
        }
        None
    }
}

impl Monitor for C17 {
    fn name(&self) -> &'static str {
        "C17"
    }
    fn on_landed(&mut self, ev: &Landed, cov: &mut Coverage) -> Vec<Violation> {
        let mut out = Vec::new();
        if ev.tx.ixs.len() != 1 {
            return out;
        }
        let ixn = &ev.tx.ixs[0];
        let Some(c) = wpix::decode(ixn) else { return out };
        if !matches!(c.name(), "two_hop_swap" | "two_hop_swap_v2") {
            return out;
        }
        if ev.fail_cpi.is_some() {
            return out;
        }
        let code = ev.out.ix_outcomes.last().and_then(|o| o.custom());
        self.check(ixn, ev.pre, ev.out.ok, if ev.out.ok { Some(ev.post) } else { None }, code, ev.idx, cov, &mut out);
        if ev.out.ok && out.is_empty() && ev.salt % 2 == 0 {
            self.leg_fails_alone(ixn, ev.pre, ev.salt, ev.idx, cov, &mut out);
        }
        if out.is_empty() && ev.salt % 3 == 1 {
            self.same_pool_twice(ixn, ev.pre, ev.idx, cov, &mut out);
        }
        if ev.out.ok && out.is_empty() {
            supplemental_lists(ixn, ev.pre, ev.post, ev.salt, ev.idx, cov, &mut out);
        }
        // "fails if either leg would fail on its own": a trader one unit short of the first leg's input cannot pay for the
        // first leg, so the two-hop must fail - also on a cyclic route (X -> Y -> X through two pools of the same pair) where
        // the input and the output account are the same account and the proceeds arrive in it
        if ev.out.ok && out.is_empty() {
            if let Some(lg) = legs(&c, ev.pre) {
                let a = wpix::two_hop_args(&c);
                let in_mint = if a.a_to_b_one { lg.s1.mint_a } else { lg.s1.mint_b };
                let in_acct = if a.a_to_b_one { lg.sa1.owner_a } else { lg.sa1.owner_b };
                let in_acct = if lg.v2 { c.a("token_owner_account_input") } else { in_acct };
                if is_plain(ev.pre, &in_mint) {
                    // what the first leg took from the trader: the input vault's gain
                    let vault = if a.a_to_b_one { lg.s1.vault_a } else { lg.s1.vault_b };
                    let took = crate::world::token_amount(ev.post, &vault) as i128 - crate::world::token_amount(ev.pre, &vault) as i128;
                    // (on a cyclic route the same vault may also pay out in leg two only if both pools share it - they do not)
                    if took > 0 {
                        if let Some(acc) = ev.pre.get(&in_acct).cloned() {
                            if acc.data.len() >= 72 {
                                let mut d = (*acc.data).clone();
                                d[64..72].copy_from_slice(&((took - 1) as u64).to_le_bytes());
                                let mut f = ev.pre.clone();
                                f.put(in_acct, rt::Account { lamports: acc.lamports, data: std::rc::Rc::new(d), owner: acc.owner, executable: false });
                                let r = run(&mut f, ixn.clone());
                                let cyclic = lg.v2 && c.a("token_owner_account_input") == c.a("token_owner_account_output");
                                cov.probe("underfunded_by_one_forks");
                                if cyclic {
                                    cov.probe("underfunded_cyclic_route_forks");
                                }
                                cov.eval(format!("{}|underfunded_by_one|cyclic={}|ok={}", c.name(), cyclic, r.ok));
                                if r.ok {
                                    out.push(viol("accepted_although_a_leg_fails_alone", ev.idx, format!("{} succeeds for a trader holding {} of the input token although its first leg takes {}{}", c.name(), took - 1, took, if cyclic { " (cyclic route: input and output are the same account)" } else { "" })));
                                }
                            }
                        }
                    }
                }
            }
        }
        let _: Option<IxView> = None;
        out
    }
}
