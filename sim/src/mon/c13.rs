//! C13 — a dynamic tick array behaves exactly like a fixed one.
//! (1) encoding well-formedness + Anchor accessor agreement after every transaction,
//! (2) twin runs of one seed with fixed / dynamic / mixed arrays (see run_twins).

use crate::decode::{self, TaError, Tick, TickArray};
use crate::gen::{Gen, Profile, FORCE_ARRAY_KIND};
use crate::rt::Ledger;
use crate::sim::{apply_event, Coverage, HEvent, Landed, Monitor, Violation};
use crate::wpix;
use serde_json::json;
use solana_program::pubkey::Pubkey;
use whirlpool::state::{DynamicTickArray, DynamicTickArrayLoader, FixedTickArray, TickArrayType};

pub struct C13;

fn viol(class: &str, idx: usize, detail: String) -> Violation {
    Violation {
        property: "C13",
        class: class.to_string(),
        detail,
        event_idx: idx,
    }
}

fn fixed_bytes(ta: &TickArray) -> Vec<u8> {
    let mut d = Vec::with_capacity(decode::FIXED_TA_LEN);
    d.extend_from_slice(&decode::disc("TickArray"));
    d.extend_from_slice(&ta.start.to_le_bytes());
    for t in &ta.ticks {
        d.push(t.initialized as u8);
        d.extend_from_slice(&t.liquidity_net.to_le_bytes());
        d.extend_from_slice(&t.liquidity_gross.to_le_bytes());
        d.extend_from_slice(&t.fee_growth_outside_a.to_le_bytes());
        d.extend_from_slice(&t.fee_growth_outside_b.to_le_bytes());
        for r in t.reward_growths_outside {
            d.extend_from_slice(&r.to_le_bytes());
        }
    }
    d.extend_from_slice(ta.whirlpool.as_ref());
    d
}

fn same_tick(a: &whirlpool::state::Tick, t: &Tick) -> bool {
    let (n, g, fa, fb, r) = (a.liquidity_net, a.liquidity_gross, a.fee_growth_outside_a, a.fee_growth_outside_b, a.reward_growths_outside);
    a.initialized == t.initialized && n == t.liquidity_net && g == t.liquidity_gross && fa == t.fee_growth_outside_a && fb == t.fee_growth_outside_b && r == t.reward_growths_outside
}

/// Anchor's dynamic accessors vs. Anchor's fixed accessors on the decoded content vs. our decoder
fn accessor_agreement(key: &Pubkey, data: &[u8], ta: &TickArray, spacing: u16, idx: usize, cov: &mut Coverage, out: &mut Vec<Violation>) {
    let mut padded = vec![0u8; DynamicTickArray::MAX_LEN];
    padded[..data.len()].copy_from_slice(data);
    let dynl = DynamicTickArrayLoader::load(&padded[8..]);
    let fb = fixed_bytes(ta);
    let fixed: &FixedTickArray = bytemuck::from_bytes(&fb[8..]);
    let sp = spacing as i32;
    cov.probe("accessor_agreement_arrays");
    if dynl.start_tick_index() != ta.start || TickArrayType::whirlpool(dynl) != ta.whirlpool {
        out.push(viol("accessor_header", idx, format!("array {}: header read by the program differs from the bytes", key)));
        return;
    }
    for i in 0..88i32 {
        let ti = ta.start + i * sp;
        let d = dynl.get_tick(ti, spacing);
        let f = fixed.get_tick(ti, spacing);
        match (&d, &f) {
            (Ok(dt), Ok(ft)) => {
                if !same_tick(dt, &ta.ticks[i as usize]) || !same_tick(ft, &ta.ticks[i as usize]) {
                    out.push(viol("accessor_get_tick", idx, format!("array {} slot {}: dynamic accessor / fixed accessor / raw bytes disagree", key, i)));
                    return;
                }
            }
            (Err(_), Err(_)) => {}
            _ => {
                out.push(viol("accessor_get_tick", idx, format!("array {} slot {}: one accessor errors, the other does not", key, i)));
                return;
            }
        }
        // off-spacing tick must be rejected by both
        if sp > 1 {
            let bad = ti + 1;
            if dynl.get_tick(bad, spacing).is_ok() != fixed.get_tick(bad, spacing).is_ok() {
                out.push(viol("accessor_get_tick", idx, format!("array {}: off-spacing tick {} accepted by only one encoding", key, bad)));
                return;
            }
        }
        for a_to_b in [true, false] {
            for probe in [ti, ti + sp / 2, ti - 1] {
                let d = dynl.get_next_init_tick_index(probe, spacing, a_to_b);
                let f = fixed.get_next_init_tick_index(probe, spacing, a_to_b);
                let same = match (&d, &f) {
                    (Ok(x), Ok(y)) => x == y,
                    (Err(_), Err(_)) => true,
                    _ => false,
                };
                if !same {
                    out.push(viol("accessor_next_init", idx, format!("array {} from tick {} a_to_b={}: dynamic says {:?}, fixed says {:?}", key, probe, a_to_b, d.ok(), f.ok())));
                    return;
                }
                // against the abstract content
                if let Ok(x) = d {
                    let in_range = if a_to_b { probe >= ta.start && probe < ta.start + 88 * sp } else { probe >= ta.start - sp && probe < ta.start + 87 * sp };
                    if in_range {
                        let exp = if a_to_b {
                            (0..88).rev().map(|j| ta.start + j * sp).find(|t| *t <= probe && ta.ticks[((t - ta.start) / sp) as usize].initialized)
                        } else {
                            (0..88).map(|j| ta.start + j * sp).find(|t| *t > probe && ta.ticks[((t - ta.start) / sp) as usize].initialized)
                        };
                        if x != exp {
                            out.push(viol("accessor_next_init", idx, format!("array {} from tick {} a_to_b={}: accessors say {:?}, the bytes say {:?}", key, probe, a_to_b, x, exp)));
                            return;
                        }
                    }
                }
            }
        }
    }
}

impl Monitor for C13 {
    fn name(&self) -> &'static str {
        "C13"
    }
    fn on_landed(&mut self, ev: &Landed, cov: &mut Coverage) -> Vec<Violation> {
        let mut out = Vec::new();
        if !ev.out.ok {
            // "errors on the same inputs": a liquidity instruction refused with TickNotFound although both bounds are usable
            // ticks inside well-formed arrays of the right start (fixed or dynamic, Pinocchio accessors)
            if ev.tx.ixs.len() == 1 && ev.fail_cpi.is_none() && ev.out.custom() == Some(6009) {
                if let Some(c) = wpix::decode(&ev.tx.ixs[0]) {
                    if matches!(c.name(), "increase_liquidity" | "increase_liquidity_v2" | "decrease_liquidity" | "decrease_liquidity_v2" | "increase_liquidity_by_token_amounts_v2") {
                        if let (Some(pos), Some(pool)) = (ev.pre.data(&c.a("position")).and_then(decode::position), ev.pre.data(&c.a("whirlpool")).and_then(decode::pool)) {
                            let sp = pool.tick_spacing as i32;
                            let fine = |t: i32, ak: Pubkey| -> bool {
                                let Some(Ok(ta)) = ev.pre.data(&ak).map(decode::tick_array) else { return false };
                                sp > 0 && t % sp == 0 && (decode::MIN_TICK..=decode::MAX_TICK).contains(&t) && ta.whirlpool == c.a("whirlpool") && t >= ta.start && t < ta.start + 88 * sp
                            };
                            let (ok_lo, ok_hi) = (fine(pos.lower, c.a("tick_array_lower")), fine(pos.upper, c.a("tick_array_upper")));
                            cov.eval(format!("{}|tick_not_found|bounds_fine={}", c.name(), ok_lo && ok_hi));
                            if ok_lo && ok_hi && pos.whirlpool == c.a("whirlpool") {
                                out.push(viol("accessor_rejects_usable_tick", ev.idx, format!("{} fails with TickNotFound although {} and {} are usable ticks (spacing {}) inside the supplied arrays", c.name(), pos.lower, pos.upper, sp)));
                            }
                        }
                    }
                }
            }
            return out;
        }
        let rent = crate::rt::with_ctx(|c| c.rent);
        for v in ev.ix_views() {
            let Some(c) = wpix::decode(v.ix) else { continue };
            // the Anchor implementation of the same liquidity instruction on a copy: the dynamic arrays it leaves behind must be
            // well formed and hold the same ticks as the ones the live (Pinocchio) instruction left
            if (ev.salt ^ v.i as u64) % 3 == 0 && crate::rt::has_anchor_twin(v.ix) {
                let (ao, apost) = crate::rt::exec_ix_anchor_twin(v.pre, v.ix, &crate::rt::ExecOpts::default());
                if ao.ok() {
                    cov.probe("anchor_implementation_arrays_checked");
                    for a in &apost {
                        if a.owner != crate::ix::wp() || !decode::is_kind(&a.data, "DynamicTickArray") {
                            continue;
                        }
                        match decode::tick_array(&a.data) {
                            Err(TaError::Malformed(why)) => {
                                out.push(viol("dynamic_encoding_malformed", ev.idx, format!("the Anchor implementation of {} leaves the dynamic tick array {} malformed: {}", c.name(), a.key, why)));
                                return out;
                            }
                            Ok(ta) => {
                                if let Some(Ok(live)) = v.post.data(&a.key).map(decode::tick_array) {
                                    if live.ticks != ta.ticks || live.bitmap != ta.bitmap {
                                        out.push(viol("anchor_pinocchio_arrays_differ", ev.idx, format!("after {} the dynamic tick array {} holds different ticks under the Anchor implementation and under the live instruction", c.name(), a.key)));
                                        return out;
                                    }
                                }
                            }
                            _ => {}
                        }
                    }
                }
            }
            for m in &v.ix.accounts {
                let Some(acc) = v.post.get(&m.pubkey) else { continue };
                if acc.owner != crate::ix::wp() || !decode::is_kind(&acc.data, "DynamicTickArray") {
                    continue;
                }
                let changed = v.pre.get(&m.pubkey).map(|p| p.data != acc.data).unwrap_or(true);
                if !changed {
                    continue;
                }
                let pre_n = v.pre.data(&m.pubkey).and_then(|d| decode::tick_array(d).ok()).map(|t| t.bitmap.count_ones());
                match decode::tick_array(&acc.data) {
                    Err(TaError::Malformed(why)) => {
                        out.push(viol("dynamic_encoding_malformed", ev.idx, format!("after {} the dynamic tick array {} is malformed: {}", c.name(), m.pubkey, why)));
                        return out;
                    }
                    Ok(ta) => {
                        let n = ta.bitmap.count_ones();
                        let kind = match pre_n {
                            None => "created",
                            Some(p) if n > p => "grown",
                            Some(p) if n < p => "shrunk",
                            _ => "rewritten",
                        };
                        let slots: Vec<u32> = (0..88).filter(|i| (ta.bitmap >> i) & 1 == 1).collect();
                        let edge = slots.iter().any(|s| matches!(s, 0 | 1 | 63 | 64 | 65 | 86 | 87));
                        cov.eval(format!("{}|{}|init={}|edge={}", c.name(), kind, n.min(6), edge));
                        if kind == "grown" {
                            cov.probe("dynamic_array_grown");
                        }
                        if kind == "shrunk" {
                            cov.probe("dynamic_array_shrunk");
                        }
                        if acc.lamports < rent.minimum_balance(acc.data.len()) {
                            out.push(viol("dynamic_array_rent", ev.idx, format!("dynamic tick array {} holds {} lamports for {} bytes", m.pubkey, acc.lamports, acc.data.len())));
                        }
                        if let Some(pool) = v.post.data(&ta.whirlpool).and_then(decode::pool) {
                            accessor_agreement(&m.pubkey, &acc.data, &ta, pool.tick_spacing, ev.idx, cov, &mut out);
                        }
                        if out.is_empty() {
                            cov.sample(json!({"after": c.name(), "array": m.pubkey.to_string(), "start": ta.start, "change": kind, "initialized_slots": slots, "data_len": acc.data.len()}));
                        }
                    }
                    _ => {}
                }
            }
            // rent moves only between the position and its arrays
            if matches!(c.name(), "increase_liquidity" | "increase_liquidity_v2" | "decrease_liquidity" | "decrease_liquidity_v2" | "increase_liquidity_by_token_amounts_v2") {
                let keys = [c.a("position"), c.a("tick_array_lower"), c.a("tick_array_upper")];
                let mut uniq: Vec<Pubkey> = Vec::new();
                for k in keys {
                    if !uniq.contains(&k) {
                        uniq.push(k);
                    }
                }
                let sum = |l: &Ledger| -> u128 { uniq.iter().map(|k| l.get(k).map(|a| a.lamports).unwrap_or(0) as u128).sum() };
                if sum(v.pre) != sum(v.post) {
                    // how rent is financed is a mechanism, not part of the statement: recorded only
                    cov.note("c13_rent_moved_outside_position_and_arrays");
                }
            }
        }
        out
    }
}

// ---------------------------------------------------------------------------------------------
// twin runs
// ---------------------------------------------------------------------------------------------

#[derive(PartialEq, Eq, Debug, Clone)]
pub struct EventRecord {
    pub tag: String,
    pub ix_names: Vec<String>,
    pub ok: bool,
    pub code: u64,
}

/// canonical, encoding-independent digest input of everything observable
fn observable_state(l: &Ledger) -> Vec<(String, Vec<u8>)> {
    let mut v: Vec<(String, Vec<u8>)> = Vec::new();
    for (k, a) in l.accts.iter() {
        if a.owner == crate::ix::tok() || a.owner == crate::ix::tok22() {
            v.push((k.to_string(), (*a.data).clone()));
        } else if a.owner == crate::ix::wp() {
            match decode::tick_array(&a.data) {
                Ok(ta) => {
                    let mut d = Vec::new();
                    d.extend_from_slice(&ta.start.to_le_bytes());
                    d.extend_from_slice(ta.whirlpool.as_ref());
                    for t in &ta.ticks {
                        d.push(t.initialized as u8);
                        d.extend_from_slice(&t.liquidity_net.to_le_bytes());
                        d.extend_from_slice(&t.liquidity_gross.to_le_bytes());
                        d.extend_from_slice(&t.fee_growth_outside_a.to_le_bytes());
                        d.extend_from_slice(&t.fee_growth_outside_b.to_le_bytes());
                        for r in t.reward_growths_outside {
                            d.extend_from_slice(&r.to_le_bytes());
                        }
                    }
                    v.push((format!("tickarray:{}", k), d));
                }
                Err(TaError::NotTickArray) => v.push((k.to_string(), (*a.data).clone())),
                Err(TaError::Malformed(m)) => v.push((format!("malformed:{}", k), m.into_bytes())),
            }
        }
    }
    v
}

fn norm_name(n: &str) -> String {
    if n == "initialize_dynamic_tick_array" {
        "initialize_tick_array".to_string()
    } else {
        n.to_string()
    }
}

pub struct TwinRun {
    pub records: Vec<EventRecord>,
    pub states: Vec<u64>,
    pub final_state: Vec<(String, Vec<u8>)>,
    pub history: Vec<HEvent>,
}

pub fn run_kind(seed: u64, profile: Profile, thorough: bool, kind: u8, max_events: Option<usize>) -> TwinRun {
    FORCE_ARRAY_KIND.with(|c| c.set(Some(kind)));
    let (mut g, mut ledger) = Gen::new(seed, profile, thorough);
    if let Some(m) = max_events {
        g.knobs.max_events = m;
    }
    let mut monitors: Vec<Box<dyn Monitor>> = Vec::new();
    let mut cov = Coverage::default();
    let mut tr = TwinRun { records: Vec::new(), states: Vec::new(), final_state: Vec::new(), history: Vec::new() };
    let mut idx = 0;
    while let Some(ev) = g.next_event(&ledger) {
        let (out, _) = apply_event(&mut ledger, idx, &ev, &mut monitors, &mut cov);
        if let (HEvent::Tx { tx, tag, .. }, Some(o)) = (&ev, &out) {
            tr.records.push(EventRecord {
                tag: tag.clone(),
                ix_names: tx.ixs.iter().map(|i| norm_name(wpix::decode(i).map(|c| c.name()).unwrap_or("other"))).collect(),
                ok: o.ok,
                code: o.ix_outcomes.last().map(|x| x.code).unwrap_or(0),
            });
            let st = observable_state(&ledger);
            let mut h = 0xcbf29ce484222325u64;
            for (k, d) in &st {
                for b in k.as_bytes().iter().chain(d.iter()) {
                    h ^= *b as u64;
                    h = h.wrapping_mul(0x100000001b3);
                }
            }
            tr.states.push(h);
        }
        tr.history.push(ev);
        idx += 1;
    }
    tr.final_state = observable_state(&ledger);
    FORCE_ARRAY_KIND.with(|c| c.set(None));
    tr
}

/// Same seed with fixed / dynamic / mixed arrays must be observationally equal.
pub fn run_twins(seed: u64, profile: Profile, thorough: bool, max_events: Option<usize>, cov: &mut Coverage) -> Option<Violation> {
    // accessor level first (cheap): seeded update / query sequences on the four array implementations side by side
    for j in 0..6u64 {
        if let Some(v) = crate::mon::c13seq::run_sequence(seed.wrapping_mul(8).wrapping_add(j), cov) {
            return Some(v);
        }
    }
    let a = run_kind(seed, profile, thorough, 0, max_events);
    for kind in [1u8, 2u8] {
        let b = run_kind(seed, profile, thorough, kind, max_events);
        cov.eval(format!("twin|kind={}|events={}", kind, (a.records.len() / 20).min(12)));
        cov.probe("twin_runs_compared");
        cov.probe_n("twin_events_compared", a.records.len() as u64);
        let n = a.records.len().min(b.records.len());
        for i in 0..n {
            // the two initialisers reject an existing array with different (framework-level) codes by design
            let is_init = a.records[i].ix_names.iter().any(|n| n == "initialize_tick_array");
            let prog = |c: u64| (6000..7000).contains(&c);
            let same = a.records[i].tag == b.records[i].tag
                && a.records[i].ix_names == b.records[i].ix_names
                && a.records[i].ok == b.records[i].ok
                && (is_init || !(prog(a.records[i].code) && prog(b.records[i].code)) || a.records[i].code == b.records[i].code);
            if !same {
                return Some(viol(
                    "twin_outcome_differs",
                    i,
                    format!("seed {}: event {} `{}` {:?}: fixed arrays -> ok={} code={:#x}; array_kind {} -> `{}` {:?} ok={} code={:#x}",
                        seed, i, a.records[i].tag, a.records[i].ix_names, a.records[i].ok, a.records[i].code, kind, b.records[i].tag, b.records[i].ix_names, b.records[i].ok, b.records[i].code),
                ));
            }
            if a.states[i] != b.states[i] {
                return Some(viol(
                    "twin_state_differs",
                    i,
                    format!("seed {}: after event {} `{}` {:?} the token balances / pool / position bytes / decoded tick contents differ between fixed arrays and array_kind {}", seed, i, a.records[i].tag, a.records[i].ix_names, kind),
                ));
            }
        }
        if a.records.len() != b.records.len() {
            return Some(viol("twin_outcome_differs", n, format!("seed {}: histories have different lengths ({} vs {})", seed, a.records.len(), b.records.len())));
        }
    }
    if cov.samples.len() < 3 {
        cov.sample(json!({"twin_seed": seed, "events": a.records.len(), "compared": ["fixed", "dynamic", "mixed"], "result": "every outcome and every observable state equal"}));
    }
    None
}
