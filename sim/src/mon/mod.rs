pub mod c01;
pub mod c05;
pub mod c07;
pub mod c08;
pub mod c10;
pub mod c12;
pub mod c17;
pub mod swaps;
