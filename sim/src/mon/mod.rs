pub mod c05;
pub mod swaps;
