pub mod c01;
pub mod c05;
pub mod swaps;
