pub mod c05;
