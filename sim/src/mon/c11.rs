//! C11 — rewards accrue at the set emission rate, pro rata to in-range liquidity.
//! Exact shadow ledger driven by the simulated clock.

use crate::decode::{self, Pool, Position};
use crate::model::Ratio;
use crate::sim::{Coverage, IxView, Landed, Monitor, Violation};
use crate::world::token_amount;
use crate::wpix;
use num_bigint::BigUint;
use num_traits::{One, Zero};
use serde_json::json;
use solana_program::pubkey::Pubkey;
use std::collections::BTreeMap;

#[derive(Clone)]
struct Sh {
    e: [Ratio; 3],
    intervals: [u64; 3],
    carve: [bool; 3],
}
impl Sh {
    fn new() -> Sh {
        Sh {
            e: [Ratio::zero(), Ratio::zero(), Ratio::zero()],
            intervals: [0; 3],
            carve: [false; 3],
        }
    }
}

#[derive(Default)]
pub struct C11 {
    shadow: BTreeMap<Pubkey, Sh>,
    /// pools whose clock is currently behind the last update (back-step fault in effect)
    behind: BTreeMap<Pubkey, bool>,
    /// the shadow ledger's own "settled up to" time per pool
    last: BTreeMap<Pubkey, u64>,
}

fn viol(class: &str, idx: usize, detail: String) -> Violation {
    Violation {
        property: "C11",
        class: class.to_string(),
        detail,
        event_idx: idx,
    }
}

const TIME_READERS: &[&str] = &[
    "swap", "swap_v2", "two_hop_swap", "two_hop_swap_v2", "increase_liquidity", "increase_liquidity_v2", "decrease_liquidity", "decrease_liquidity_v2",
    "increase_liquidity_by_token_amounts_v2", "reposition_liquidity_v2", "update_fees_and_rewards", "set_reward_emissions", "set_reward_emissions_v2",
];


/// compare what an update credited to a position with its exact share accumulated in the shadow ledger
#[allow(clippy::too_many_arguments)]
fn judge(k: &Pubkey, pre: &Position, post: &Position, sh: &Sh, pool: Option<&Pool>, name: &str, idx: usize, cov: &mut Coverage, out: &mut Vec<Violation>) {
    for i in 0..3 {
        let c = post.rewards[i].amount_owed.wrapping_sub(pre.rewards[i].amount_owed);
        let initialized = pool.as_ref().map(|p| p.rewards[i].initialized()).unwrap_or(false);
        let fl = sh.e[i].floor();
        cov.eval(format!("{}|reward{}|init={}|earned={}|intervals={}|carve={}", name, i, initialized, !fl.is_zero(), sh.intervals[i].min(4), sh.carve[i]));
        let cb = BigUint::from(c);
        if cb > fl {
            out.push(viol(
                "credited_more_than_share",
                idx,
                format!("position {} ({}..{}, L={}) was credited {} of reward {} by {} but emissions x elapsed time x its liquidity share since the last update give {} (over {} intervals)", k, pre.lower, pre.upper, pre.liquidity, c, i, name, fl, sh.intervals[i]),
            ));
            continue;
        }
        let slack = (BigUint::from(sh.intervals[i]) * BigUint::from(pre.liquidity) >> 64usize) + BigUint::from(2u32);
        let big = &fl + &slack >= (BigUint::one() << 64usize);
        if sh.carve[i] || big {
            cov.probe("credit_under_documented_carve_out");
            continue;
        }
        if &cb + &slack < fl {
            out.push(viol(
                "credited_less_than_share",
                idx,
                format!("position {} ({}..{}, L={}) was credited {} of reward {} by {} but its exact share is {} and rounding explains at most {} (over {} intervals)", k, pre.lower, pre.upper, pre.liquidity, c, i, name, fl, slack, sh.intervals[i]),
            ));
        } else if !fl.is_zero() {
            cov.probe("nonzero_reward_credit_checked");
            cov.sample(json!({"position": k.to_string(), "reward_index": i, "liquidity": pre.liquidity.to_string(), "credited": c, "exact_share_floor": fl.to_string(), "intervals": sh.intervals[i], "by": name}));
        }
    }
}

impl C11 {
    /// Active probe on a copy of the ledger, with the clock at the pool's last update (no new accrual): settling any funded
    /// position must succeed and credit exactly what the shadow ledger holds for it. The copy is discarded.
    fn settle_all(&mut self, l: &crate::rt::Ledger, idx: usize, cov: &mut Coverage, out: &mut Vec<Violation>) {
        let saved_clock = crate::rt::with_ctx(|c| c.clock);
        'pools: for (wk, pool) in decode::pools(l) {
            if !pool.rewards.iter().any(|r| r.initialized()) {
                continue;
            }
            for (k, pos) in decode::positions_of_pool(l, &wk) {
                if pos.liquidity == 0 {
                    continue;
                }
                let Some(sh) = self.shadow.get(&k).cloned() else { continue };
                let ta = |t: i32| crate::ix::pda_tick_array(&wk, crate::gen::ta_start(t, pool.tick_spacing));
                let ixn = crate::ix::update_fees_and_rewards(&wk, &k, &ta(pos.lower), &ta(pos.upper));
                let at = self.last.get(&wk).copied().unwrap_or(pool.reward_last_updated_timestamp).max(pool.reward_last_updated_timestamp);
                crate::rt::with_ctx(|c| {
                    c.clock = saved_clock;
                    c.clock.unix_timestamp = at as i64;
                });
                let mut f = l.clone();
                let r = crate::rt::exec_tx_simple(&mut f, &crate::rt::Tx { ixs: vec![ixn] });
                cov.probe("settlement_probes");
                if !r.ok {
                    let code = r.ix_outcomes.last().map(|o| o.code).unwrap_or(0);
                    out.push(viol("position_cannot_be_settled", idx, format!("update_fees_and_rewards of position {} ({}..{}, L={}) at the pool's own last-update time fails with code {:#x}", k, pos.lower, pos.upper, pos.liquidity, code)));
                    break 'pools;
                }
                if let Some(post) = f.data(&k).and_then(decode::position) {
                    judge(&k, &pos, &post, &sh, Some(&pool), "update_fees_and_rewards (probe)", idx, cov, out);
                }
                if !out.is_empty() {
                    break 'pools;
                }
            }
        }
        crate::rt::with_ctx(|c| c.clock = saved_clock);
    }
}

impl C11 {
    pub fn new() -> C11 {
        C11::default()
    }

    /// accrual between the pool's previous and new `reward_last_updated_timestamp`
    /// `now`: the simulated clock when the instruction is one that settles the pool's rewards up to the present
    /// (the shadow ledger keeps its own time per pool and does not rely on the timestamp the program stored)
    fn accrue(&mut self, wk: &Pubkey, pre: &Pool, post: &Pool, pre_l: &crate::rt::Ledger, now: Option<u64>, cov: &mut Coverage) {
        for i in 0..3 {
            if pre.rewards[i].initialized() && post.rewards[i].growth_global_x64 < pre.rewards[i].growth_global_x64 {
                cov.probe("reward_growth_accumulator_wrapped");
            } else if post.rewards[i].growth_global_x64 >= 1u128 << 127 {
                cov.probe("reward_growth_accumulator_in_top_half");
            }
        }
        let (t0, t1) = match now {
            Some(n) => (self.last.get(wk).copied().unwrap_or(pre.reward_last_updated_timestamp), n),
            None => (pre.reward_last_updated_timestamp, post.reward_last_updated_timestamp),
        };
        if now.is_some() {
            self.last.insert(*wk, t1.max(t0));
            if post.reward_last_updated_timestamp != t1 {
                cov.note("c11_program_timestamp_differs_from_clock_after_settling_instruction");
            }
        }
        if t1 <= t0 {
            return;
        }
        let dt = (t1 - t0) as u128;
        if pre.liquidity == 0 {
            cov.probe("interval_with_zero_liquidity");
            return;
        }
        let positions: Vec<(Pubkey, Position)> = decode::positions_of_pool(pre_l, wk)
            .into_iter()
            .filter(|(_, p)| p.liquidity > 0 && p.lower <= pre.tick_current_index && pre.tick_current_index < p.upper)
            .collect();
        let sum: u128 = positions.iter().fold(0u128, |a, (_, p)| a.wrapping_add(p.liquidity));
        if sum != pre.liquidity {
            cov.note("c11_interval_not_attributable");
            for (k, _) in &positions {
                self.shadow.entry(*k).or_insert_with(Sh::new).carve = [true; 3];
            }
            return;
        }
        for i in 0..3 {
            let r = &pre.rewards[i];
            if !r.initialized() || r.emissions_per_second_x64 == 0 {
                continue;
            }
            let overflow = dt.checked_mul(r.emissions_per_second_x64).is_none();
            if overflow {
                cov.probe("interval_overflow_carve_out");
            }
            for (k, p) in &positions {
                let sh = self.shadow.entry(*k).or_insert_with(Sh::new);
                if overflow {
                    // the interval is dropped by the program: the position may get nothing for it
                    sh.carve[i] = true;
                }
                // exact share: e * dt * L_j / (L * 2^64)
                let n = BigUint::from(r.emissions_per_second_x64) * BigUint::from(dt) * BigUint::from(p.liquidity);
                let d = BigUint::from(pre.liquidity) << 64usize;
                sh.e[i].add(&n, &d);
                sh.intervals[i] += 1;
            }
        }
        if dt > 3600 {
            cov.probe("clock_jump_interval");
        }
    }

    fn credits(&mut self, v: &IxView, idx: usize, cov: &mut Coverage, out: &mut Vec<Violation>) {
        let name = wpix::decode(v.ix).map(|c| c.name()).unwrap_or("?");
        for m in &v.ix.accounts {
            let k = m.pubkey;
            let pre = v.pre.get(&k).filter(|a| a.owner == crate::ix::wp()).and_then(|a| decode::position(&a.data));
            let post = v.post.get(&k).filter(|a| a.owner == crate::ix::wp()).and_then(|a| decode::position(&a.data));
            match (pre, post) {
                (None, Some(_)) => {
                    self.shadow.insert(k, Sh::new());
                }
                (Some(_), None) => {
                    self.shadow.remove(&k);
                }
                (Some(pre), Some(post)) => {
                    let moved = (0..3).any(|i| pre.rewards[i].growth_inside_checkpoint != post.rewards[i].growth_inside_checkpoint)
                        || pre.liquidity != post.liquidity
                        || pre.lower != post.lower
                        || pre.upper != post.upper
                        || pre.fee_growth_checkpoint_a != post.fee_growth_checkpoint_a
                        || pre.fee_growth_checkpoint_b != post.fee_growth_checkpoint_b;
                    if !moved {
                        continue; // collects are checked separately
                    }
                    let sh = self.shadow.remove(&k).unwrap_or_else(Sh::new);
                    let pool = v.pre.data(&pre.whirlpool).and_then(decode::pool);
                    judge(&k, &pre, &post, &sh, pool.as_ref(), name, idx, cov, out);
                    self.shadow.insert(k, Sh::new());
                }
                _ => {}
            }
        }
    }
}

impl Monitor for C11 {
    fn name(&self) -> &'static str {
        "C11"
    }
    fn on_landed(&mut self, ev: &Landed, cov: &mut Coverage) -> Vec<Violation> {
        let mut out = Vec::new();
        let ts = ev.clock.unix_timestamp;
        // a timestamp earlier than the last update must make every time-reading instruction fail
        if ev.tx.ixs.len() == 1 {
            if let Some(c) = wpix::decode(&ev.tx.ixs[0]) {
                if TIME_READERS.contains(&c.name()) {
                    let pools: Vec<Pubkey> = ["whirlpool", "whirlpool_one", "whirlpool_two"].iter().filter_map(|n| c.acct(n)).collect();
                    for wk in pools {
                        if let Some(p) = ev.pre.data(&wk).and_then(decode::pool) {
                            // (a clock that reads a negative time is earlier than every stored update)
                            let behind = ts < 0 || (ts as u64) < p.reward_last_updated_timestamp;
                            if behind {
                                cov.probe("operation_with_earlier_timestamp");
                                cov.eval(format!("{}|earlier_timestamp|ok={}", c.name(), ev.out.ok));
                                if ev.out.ok {
                                    out.push(viol("earlier_timestamp_accepted", ev.idx, format!("{} succeeded with clock {} earlier than the pool's last update {}", c.name(), ts, p.reward_last_updated_timestamp)));
                                } else if ev.out.custom() == Some(6022) {
                                    cov.probe("invalid_timestamp_rejected");
                                }
                                self.behind.insert(wk, true);
                            } else if self.behind.remove(&wk).is_some() && ev.out.ok {
                                cov.probe("first_success_after_clock_caught_up");
                            }
                        }
                    }
                }
            }
        }
        if !ev.out.ok {
            return out;
        }
        // what a reward index denotes never changes once it is initialised: the amounts positions are owed at that index were
        // emitted in that mint and are paid from that vault
        for m in ev.tx.ixs.iter().flat_map(|i| i.accounts.iter()) {
            if let (Some(a), Some(b)) = (ev.pre.get(&m.pubkey).filter(|a| a.owner == crate::ix::wp()).and_then(|a| decode::pool(&a.data)), ev.post.get(&m.pubkey).filter(|a| a.owner == crate::ix::wp()).and_then(|a| decode::pool(&a.data))) {
                for i in 0..3 {
                    if a.rewards[i].initialized() && (a.rewards[i].mint != b.rewards[i].mint || a.rewards[i].vault != b.rewards[i].vault) {
                        out.push(viol("initialised_reward_slot_rebound", ev.idx, format!("after {} reward {} of pool {} pays mint {} from vault {} (before: mint {} vault {}); what positions are owed at that index was emitted in the old mint", ev.tag, i, m.pubkey, b.rewards[i].mint, b.rewards[i].vault, a.rewards[i].mint, a.rewards[i].vault)));
                        return out;
                    }
                }
            }
        }
        for v in ev.ix_views() {
            let Some(c) = wpix::decode(v.ix) else { continue };
            // 1. accrual intervals of every pool the instruction touched
            for m in &v.ix.accounts {
                if let (Some(pre), Some(post)) = (
                    v.pre.get(&m.pubkey).filter(|a| a.owner == crate::ix::wp()).and_then(|a| decode::pool(&a.data)),
                    v.post.get(&m.pubkey).filter(|a| a.owner == crate::ix::wp()).and_then(|a| decode::pool(&a.data)),
                ) {
                    if post.reward_last_updated_timestamp < pre.reward_last_updated_timestamp {
                        out.push(viol("last_update_moved_back", ev.idx, format!("{} moved the pool's last reward update {} -> {}", c.name(), pre.reward_last_updated_timestamp, post.reward_last_updated_timestamp)));
                    }
                    let named = ["whirlpool", "whirlpool_one", "whirlpool_two"].iter().any(|n| c.acct(n) == Some(m.pubkey));
                    let settles = named && TIME_READERS.contains(&c.name()) && ts >= 0;
                    self.accrue(&m.pubkey, &pre, &post, v.pre, if settles { Some(ts as u64) } else { None }, cov);
                }
            }
            // 2. credits
            self.credits(&v, ev.idx, cov, &mut out);
            // 3. collect pays min(owed, vault) and leaves the rest owed
            if matches!(c.name(), "collect_reward" | "collect_reward_v2") {
                let idx = c.args().u8() as usize;
                let pk = c.a("position");
                if let (Some(pre), Some(post), true) = (v.pre.data(&pk).and_then(decode::position), v.post.data(&pk).and_then(decode::position), idx < 3) {
                    // the vault registered for this reward index in the pool, whatever account the caller put in the slot
                    let vault = v.pre.data(&c.a("whirlpool")).and_then(decode::pool).map(|p| p.rewards[idx].vault).unwrap_or(c.a("reward_vault"));
                    if vault != c.a("reward_vault") {
                        cov.note("c11_collect_names_another_account_as_vault");
                    }
                    let vault_pre = token_amount(v.pre, &vault);
                    let paid = token_amount(v.post, &c.a("reward_owner_account")) as i128 - token_amount(v.pre, &c.a("reward_owner_account")) as i128;
                    let vdelta = token_amount(v.post, &vault) as i128 - vault_pre as i128;
                    let owed = pre.rewards[idx].amount_owed;
                    let expect = owed.min(vault_pre);
                    cov.eval(format!("{}|owed={}|vault_short={}", c.name(), owed > 0, vault_pre < owed));
                    if vault_pre < owed {
                        cov.probe("collect_with_underfunded_vault");
                    }
                    let aliased = c.a("reward_owner_account") == vault;
                    if !aliased && (paid != expect as i128 || vdelta != -(expect as i128) || post.rewards[idx].amount_owed != owed - expect) {
                        out.push(viol("collect_reward_payout", ev.idx, format!("collect of reward {}: owed {}, vault held {}, paid {} (vault {:+}), still owed {}", idx, owed, vault_pre, paid, vdelta, post.rewards[idx].amount_owed)));
                    }
                }
            }
            // 4. emissions change requires a day of emissions in the vault
            if matches!(c.name(), "set_reward_emissions" | "set_reward_emissions_v2") {
                let mut r = c.args();
                let idx = r.u8() as usize;
                let e = r.u128();
                let vault_amt = token_amount(v.pre, &c.a("reward_vault"));
                let day: BigUint = (BigUint::from(e) * BigUint::from(86_400u32)) >> 64usize;
                cov.eval(format!("{}|idx={}|e_bits={}", c.name(), idx, (128 - e.leading_zeros()) / 16));
                if BigUint::from(vault_amt) < day {
                    out.push(viol("emissions_without_a_day_in_vault", ev.idx, format!("emissions {} accepted with {} in the vault but a day needs {}", e, vault_amt, day)));
                }
                if let Some(post) = v.post.data(&c.a("whirlpool")).and_then(decode::pool) {
                    if idx < 3 && post.rewards[idx].emissions_per_second_x64 != e {
                        out.push(viol("emissions_not_stored", ev.idx, format!("emissions of reward {} are {} after setting {}", idx, post.rewards[idx].emissions_per_second_x64, e)));
                    }
                }
            }
        }
        if out.is_empty() && ev.out.ok && ev.salt % 24 == 7 {
            self.settle_all(ev.post, ev.idx, cov, &mut out);
        }
        // Migration probe on a copy: a pool in the legacy layout (reward authorities still stored in the spare space of
        // reward slots 1 and 2) is migrated by the permission-less `migrate_repurpose_reward_authority_space`. The
        // migration may change nothing but those two 32-byte fields (which become zero): every reward keeps its mint,
        // vault, emission rate and accumulator, so accrual goes on at the set rate.
        if out.is_empty() && ev.out.ok && ev.salt % 16 == 3 {
            for n in ["whirlpool", "whirlpool_one", "whirlpool_two"] {
                let Some(wk) = ev.tx.ixs.iter().filter_map(wpix::decode).find_map(|c| c.acct(n)) else { continue };
                let Some(acc) = ev.post.get(&wk).cloned() else { continue };
                let Some(p) = decode::pool(&acc.data) else { continue };
                if !p.rewards.iter().any(|r| r.initialized()) {
                    continue;
                }
                let mut legacy = (*acc.data).clone();
                let ext = |i: usize| decode::POOL_OFF_REWARDS + i * decode::REWARD_INFO_LEN + 64;
                for i in [1usize, 2] {
                    for (j, b) in legacy[ext(i)..ext(i) + 32].iter_mut().enumerate() {
                        *b = 0xa0 ^ (j as u8) ^ (i as u8);
                    }
                }
                let mut f = ev.post.clone();
                f.put(wk, crate::rt::Account { lamports: acc.lamports, data: std::rc::Rc::new(legacy.clone()), owner: acc.owner, executable: false });
                let mig = crate::ix::mk(whirlpool::accounts::MigrateRepurposeRewardAuthoritySpace { whirlpool: wk }, whirlpool::instruction::MigrateRepurposeRewardAuthoritySpace {});
                let r = crate::rt::exec_tx_simple(&mut f, &crate::rt::Tx { ixs: vec![mig] });
                cov.probe("legacy_pool_migration_probes");
                cov.eval(format!("migrate_legacy_pool|rewards={}|ok={}", p.rewards.iter().filter(|r| r.initialized()).count(), r.ok));
                if !r.ok {
                    cov.note("c11_migration_of_a_legacy_pool_refused");
                    continue;
                }
                let mut expect = legacy;
                for i in [1usize, 2] {
                    expect[ext(i)..ext(i) + 32].fill(0);
                }
                let got = f.data(&wk).map(|d| d.to_vec()).unwrap_or_default();
                if got != expect {
                    let first = got.iter().zip(expect.iter()).position(|(a, b)| a != b);
                    let q = decode::pool(&got);
                    out.push(viol("migration_changes_reward_state", ev.idx, format!("migrate_repurpose_reward_authority_space on a legacy-layout copy of pool {} changed more than the two repurposed fields (first differing byte {:?}); rewards before {:?}, after {:?}", wk, first, p.rewards.iter().map(|r| (r.initialized(), r.emissions_per_second_x64, r.growth_global_x64)).collect::<Vec<_>>(), q.map(|q| q.rewards.iter().map(|r| (r.initialized(), r.emissions_per_second_x64, r.growth_global_x64)).collect::<Vec<_>>()))));
                }
                break;
            }
        }
        out
    }
    fn end_of_run(&mut self, l: &crate::rt::Ledger, cov: &mut Coverage) -> Vec<Violation> {
        let mut out = Vec::new();
        self.settle_all(l, usize::MAX, cov, &mut out);
        out
    }
}

/// set_reward_emissions rejected for lack of funds although the vault held a day of emissions?
pub struct C11Reject;
impl Monitor for C11Reject {
    fn name(&self) -> &'static str {
        "C11"
    }
    fn on_landed(&mut self, ev: &Landed, cov: &mut Coverage) -> Vec<Violation> {
        let mut out = Vec::new();
        if ev.out.ok || ev.tx.ixs.len() != 1 || ev.out.custom() != Some(6027) {
            return out;
        }
        let Some(c) = wpix::decode(&ev.tx.ixs[0]) else { return out };
        if !matches!(c.name(), "set_reward_emissions" | "set_reward_emissions_v2") {
            return out;
        }
        let mut r = c.args();
        let _ = r.u8();
        let e = r.u128();
        let vault_amt = token_amount(ev.pre, &c.a("reward_vault"));
        let day: BigUint = (BigUint::from(e) * BigUint::from(86_400u32)) >> 64usize;
        cov.probe("emissions_rejected_for_underfunded_vault");
        if BigUint::from(vault_amt) >= day {
            out.push(viol("emissions_rejected_with_a_day_in_vault", ev.idx, format!("emissions {} rejected as underfunded with {} in the vault; a day needs {}", e, vault_amt, day)));
        }
        out
    }
}
