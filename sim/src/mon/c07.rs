//! C07 — a position earns its pro-rata share of fees only while the price is in range.
//! Exact rational shadow ledger of LP fees per traced swap step vs credited `fee_owed`.

use crate::decode::{self, Position};
use crate::model::Ratio;
use crate::mon::swaps::observe;
use crate::sim::{Coverage, IxView, Landed, Monitor, Violation};
use num_bigint::BigUint;
use num_traits::{One, Zero};
use serde_json::json;
use solana_program::pubkey::Pubkey;
use std::collections::{BTreeMap, BTreeSet};

#[derive(Clone)]
struct Shadow {
    e_a: Ratio,
    e_b: Ratio,
    steps: u64,
    earned_any: bool,
}

impl Shadow {
    fn new() -> Shadow {
        Shadow {
            e_a: Ratio::zero(),
            e_b: Ratio::zero(),
            steps: 0,
            earned_any: false,
        }
    }
}

#[derive(Default)]
pub struct C07 {
    shadow: BTreeMap<Pubkey, Shadow>,
    /// pools where a step could not be attributed (liquidity != sum of in-range positions): C05/C10 territory
    unattributable: BTreeSet<Pubkey>,
}

fn viol(class: &str, idx: usize, detail: String) -> Violation {
    Violation {
        property: "C07",
        class: class.to_string(),
        detail,
        event_idx: idx,
    }
}

impl C07 {
    pub fn new() -> C07 {
        C07::default()
    }

    fn on_swap(&mut self, v: &IxView, cov: &mut Coverage) {
        for o in observe(v.ix, v.out, v.pre, v.post) {
            if self.unattributable.contains(&o.whirlpool) {
                continue;
            }
            let positions: Vec<(Pubkey, Position)> = decode::positions_of_pool(v.pre, &o.whirlpool)
                .into_iter()
                .filter(|(_, p)| p.liquidity > 0)
                .collect();
            let mut tick = o.pre.tick_current_index;
            for s in &o.trace.steps {
                let share = crate::model::protocol_share(s.fee_amount, o.pre.protocol_fee_rate);
                let lp_fee = s.fee_amount - share.min(s.fee_amount);
                if s.liquidity > 0 {
                    let in_range: Vec<&(Pubkey, Position)> = positions.iter().filter(|(_, p)| p.lower <= tick && tick < p.upper).collect();
                    let sum: u128 = in_range.iter().fold(0u128, |a, (_, p)| a.wrapping_add(p.liquidity));
                    if sum != s.liquidity {
                        cov.note("c07_step_not_attributable");
                        self.unattributable.insert(o.whirlpool);
                        break;
                    }
                    if lp_fee > 0 {
                        let d = BigUint::from(s.liquidity);
                        for (k, p) in in_range {
                            let sh = self.shadow.entry(*k).or_insert_with(Shadow::new);
                            let n = BigUint::from(lp_fee) * BigUint::from(p.liquidity);
                            if o.a_to_b {
                                sh.e_a.add(&n, &d);
                            } else {
                                sh.e_b.add(&n, &d);
                            }
                            sh.steps += 1;
                            sh.earned_any = true;
                        }
                    }
                }
                if let Some(t) = s.crossed_tick {
                    tick = if o.a_to_b { t - 1 } else { t };
                } else if (decode::MIN_TICK..=decode::MAX_TICK).contains(&s.next_tick_index)
                    && s.sqrt_price_next == crate::model::sqrt_price_of_tick(s.next_tick_index)
                {
                    tick = if o.a_to_b { s.next_tick_index - 1 } else { s.next_tick_index };
                } else if s.sqrt_price_next != s.sqrt_price_start {
                    tick = crate::model::tick_of_sqrt_price(s.sqrt_price_next);
                }
            }
        }
    }

    fn on_positions(&mut self, v: &IxView, idx: usize, cov: &mut Coverage, out: &mut Vec<Violation>) {
        // positions mentioned by this instruction
        for m in &v.ix.accounts {
            let k = m.pubkey;
            let pre = v.pre.get(&k).filter(|a| a.owner == crate::ix::wp()).and_then(|a| decode::position(&a.data));
            let post = v.post.get(&k).filter(|a| a.owner == crate::ix::wp()).and_then(|a| decode::position(&a.data));
            match (pre, post) {
                (None, Some(_)) => {
                    self.shadow.insert(k, Shadow::new());
                }
                (Some(_), None) => {
                    self.shadow.remove(&k);
                }
                (Some(pre), Some(post)) => {
                    if pre == post {
                        continue;
                    }
                    let checkpoint_moved = pre.fee_growth_checkpoint_a != post.fee_growth_checkpoint_a
                        || pre.fee_growth_checkpoint_b != post.fee_growth_checkpoint_b
                        || pre.liquidity != post.liquidity
                        || pre.lower != post.lower
                        || pre.upper != post.upper;
                    let owed_changed = pre.fee_owed_a != post.fee_owed_a || pre.fee_owed_b != post.fee_owed_b;
                    if !checkpoint_moved && owed_changed && post.fee_owed_a <= pre.fee_owed_a && post.fee_owed_b <= pre.fee_owed_b {
                        // payout (collect_fees): not a credit
                        continue;
                    }
                    if !checkpoint_moved && !owed_changed {
                        continue; // reward-only change
                    }
                    if self.unattributable.contains(&pre.whirlpool) {
                        self.shadow.insert(k, Shadow::new());
                        continue;
                    }
                    let sh = self.shadow.remove(&k).unwrap_or_else(Shadow::new);
                    let name = crate::wpix::decode(v.ix).map(|c| c.name()).unwrap_or("?");
                    for (side, c, e) in [("A", post.fee_owed_a.wrapping_sub(pre.fee_owed_a), &sh.e_a), ("B", post.fee_owed_b.wrapping_sub(pre.fee_owed_b), &sh.e_b)] {
                        let cb = BigUint::from(c);
                        let fl = e.floor();
                        cov.eval(format!("{}|{}|earned={}|steps={}|L={}", name, side, !e.is_zero(), sh.steps.min(5), (128 - pre.liquidity.leading_zeros()) / 16));
                        if cb > fl {
                            out.push(viol(
                                "credited_more_than_share",
                                idx,
                                format!("position {} ({}..{}, L={}) was credited {} of token {} by {} but its exact pro-rata share of in-range LP fees since the last update is {} (over {} steps)",
                                    k, pre.lower, pre.upper, pre.liquidity, c, side, name, fl, sh.steps),
                            ));
                            continue;
                        }
                        // lower bound unless the documented overflow carve-out applies
                        let slack = (BigUint::from(sh.steps) * BigUint::from(pre.liquidity) >> 64usize) + BigUint::from(2u32);
                        let carve_out = &fl + &slack >= (BigUint::one() << 64usize);
                        if carve_out {
                            cov.probe("overflow_carve_out");
                            continue;
                        }
                        if &cb + &slack < fl {
                            out.push(viol(
                                "credited_less_than_share",
                                idx,
                                format!("position {} ({}..{}, L={}) was credited {} of token {} by {} but its exact share is {} and rounding explains at most {} (over {} steps)",
                                    k, pre.lower, pre.upper, pre.liquidity, c, side, name, fl, slack, sh.steps),
                            ));
                        } else if !fl.is_zero() && out.is_empty() {
                            cov.probe("nonzero_fee_credit_checked");
                            cov.sample(json!({"position": k.to_string(), "range": [pre.lower, pre.upper], "liquidity": pre.liquidity.to_string(), "token": side,
                                "credited": c, "exact_share_floor": fl.to_string(), "steps": sh.steps, "by": name}));
                        }
                    }
                    self.shadow.insert(k, Shadow::new());
                }
                _ => {}
            }
        }
    }
}

impl Monitor for C07 {
    fn name(&self) -> &'static str {
        "C07"
    }
    fn on_landed(&mut self, ev: &Landed, cov: &mut Coverage) -> Vec<Violation> {
        let mut out = Vec::new();
        for v in ev.ix_views() {
            let Some(c) = crate::wpix::decode(v.ix) else { continue };
            match c.name() {
                "swap" | "swap_v2" | "two_hop_swap" | "two_hop_swap_v2" => self.on_swap(&v, cov),
                _ => self.on_positions(&v, ev.idx, cov, &mut out),
            }
        }
        let _ = BigUint::zero();
        out
    }
    fn on_patch(&mut self, _idx: usize, _pre: &crate::rt::Ledger, _post: &crate::rt::Ledger, cov: &mut Coverage) {
        cov.probe("accumulator_fast_forwarded");
    }
}
