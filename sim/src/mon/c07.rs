//! C07 — a position earns its pro-rata share of fees only while the price is in range.
//! Exact rational shadow ledger of LP fees per traced swap step vs credited `fee_owed`.

use crate::decode::{self, Position};
use crate::model::Ratio;
use crate::mon::swaps::observe;
use crate::sim::{Coverage, IxView, Landed, Monitor, Violation};
use num_bigint::BigUint;
use num_traits::{One, Zero};
use serde_json::json;
use solana_program::pubkey::Pubkey;
use std::collections::{BTreeMap, BTreeSet};

#[derive(Clone)]
struct Shadow {
    e_a: Ratio,
    e_b: Ratio,
    steps: u64,
    earned_any: bool,
}

impl Shadow {
    fn new() -> Shadow {
        Shadow {
            e_a: Ratio::zero(),
            e_b: Ratio::zero(),
            steps: 0,
            earned_any: false,
        }
    }
}

#[derive(Default)]
pub struct C07 {
    shadow: BTreeMap<Pubkey, Shadow>,
    /// pools where a step could not be attributed (liquidity != sum of in-range positions): C05/C10 territory
    unattributable: BTreeSet<Pubkey>,
}

fn viol(class: &str, idx: usize, detail: String) -> Violation {
    Violation {
        property: "C07",
        class: class.to_string(),
        detail,
        event_idx: idx,
    }
}


/// compare what an update credited to a position with its exact share accumulated in the shadow ledger
#[allow(clippy::too_many_arguments)]
fn judge(k: &Pubkey, pre: &Position, post: &Position, sh: &Shadow, name: &str, idx: usize, cov: &mut Coverage, out: &mut Vec<Violation>) {
        for (side, c, e) in [("A", post.fee_owed_a.wrapping_sub(pre.fee_owed_a), &sh.e_a), ("B", post.fee_owed_b.wrapping_sub(pre.fee_owed_b), &sh.e_b)] {
            let cb = BigUint::from(c);
            let fl = e.floor();
            cov.eval(format!("{}|{}|earned={}|steps={}|L={}", name, side, !e.is_zero(), sh.steps.min(5), (128 - pre.liquidity.leading_zeros()) / 16));
            if cb > fl {
                out.push(viol(
                    "credited_more_than_share",
                    idx,
                    format!("position {} ({}..{}, L={}) was credited {} of token {} by {} but its exact pro-rata share of in-range LP fees since the last update is {} (over {} steps)",
                        k, pre.lower, pre.upper, pre.liquidity, c, side, name, fl, sh.steps),
                ));
                continue;
            }
            // lower bound unless the documented overflow carve-out applies
            let slack = (BigUint::from(sh.steps) * BigUint::from(pre.liquidity) >> 64usize) + BigUint::from(2u32);
            let carve_out = &fl + &slack >= (BigUint::one() << 64usize);
            if carve_out {
                cov.probe("overflow_carve_out");
                continue;
            }
            if &cb + &slack < fl {
                out.push(viol(
                    "credited_less_than_share",
                    idx,
                    format!("position {} ({}..{}, L={}) was credited {} of token {} by {} but its exact share is {} and rounding explains at most {} (over {} steps)",
                        k, pre.lower, pre.upper, pre.liquidity, c, side, name, fl, slack, sh.steps),
                ));
            } else if !fl.is_zero() && out.is_empty() {
                cov.probe("nonzero_fee_credit_checked");
                cov.sample(json!({"position": k.to_string(), "range": [pre.lower, pre.upper], "liquidity": pre.liquidity.to_string(), "token": side,
                    "credited": c, "exact_share_floor": fl.to_string(), "steps": sh.steps, "by": name}));
            }
        }
}

impl C07 {
    pub fn new() -> C07 {
        C07::default()
    }

    fn on_swap(&mut self, v: &IxView, cov: &mut Coverage) {
        for o in observe(v.ix, v.out, v.pre, v.post) {
            if self.unattributable.contains(&o.whirlpool) {
                continue;
            }
            let positions: Vec<(Pubkey, Position)> = decode::positions_of_pool(v.pre, &o.whirlpool)
                .into_iter()
                .filter(|(_, p)| p.liquidity > 0)
                .collect();
            let mut tick = o.pre.tick_current_index;
            for s in &o.trace.steps {
                let share = crate::model::protocol_share(s.fee_amount, o.pre.protocol_fee_rate);
                let lp_fee = s.fee_amount - share.min(s.fee_amount);
                if s.liquidity > 0 {
                    let in_range: Vec<&(Pubkey, Position)> = positions.iter().filter(|(_, p)| p.lower <= tick && tick < p.upper).collect();
                    let sum: u128 = in_range.iter().fold(0u128, |a, (_, p)| a.wrapping_add(p.liquidity));
                    // the share is measured against the total in-range liquidity of the statement: the positions covering the
                    // step's tick (if the pool trades against another figure, C05 says so; the shares stay what they are)
                    if sum != s.liquidity {
                        cov.note("c07_step_liquidity_differs_from_positions");
                        if sum == 0 {
                            self.unattributable.insert(o.whirlpool);
                            break;
                        }
                    }
                    if lp_fee > 0 {
                        let d = BigUint::from(sum);
                        for (k, p) in in_range {
                            let sh = self.shadow.entry(*k).or_insert_with(Shadow::new);
                            let n = BigUint::from(lp_fee) * BigUint::from(p.liquidity);
                            if o.a_to_b {
                                sh.e_a.add(&n, &d);
                            } else {
                                sh.e_b.add(&n, &d);
                            }
                            sh.steps += 1;
                            sh.earned_any = true;
                        }
                    }
                }
                if let Some(t) = s.crossed_tick {
                    tick = if o.a_to_b { t - 1 } else { t };
                } else if (decode::MIN_TICK..=decode::MAX_TICK).contains(&s.next_tick_index)
                    && s.sqrt_price_next == crate::model::sqrt_price_of_tick(s.next_tick_index)
                {
                    tick = if o.a_to_b { s.next_tick_index - 1 } else { s.next_tick_index };
                } else if s.sqrt_price_next != s.sqrt_price_start {
                    tick = crate::model::tick_of_sqrt_price(s.sqrt_price_next);
                }
            }
        }
    }

    fn on_positions(&mut self, v: &IxView, idx: usize, cov: &mut Coverage, out: &mut Vec<Violation>) {
        // positions mentioned by this instruction
        for m in &v.ix.accounts {
            let k = m.pubkey;
            let pre = v.pre.get(&k).filter(|a| a.owner == crate::ix::wp()).and_then(|a| decode::position(&a.data));
            let post = v.post.get(&k).filter(|a| a.owner == crate::ix::wp()).and_then(|a| decode::position(&a.data));
            match (pre, post) {
                (None, Some(_)) => {
                    self.shadow.insert(k, Shadow::new());
                }
                (Some(_), None) => {
                    self.shadow.remove(&k);
                }
                (Some(pre), Some(post)) => {
                    if pre == post {
                        continue;
                    }
                    let checkpoint_moved = pre.fee_growth_checkpoint_a != post.fee_growth_checkpoint_a
                        || pre.fee_growth_checkpoint_b != post.fee_growth_checkpoint_b
                        || pre.liquidity != post.liquidity
                        || pre.lower != post.lower
                        || pre.upper != post.upper;
                    let owed_changed = pre.fee_owed_a != post.fee_owed_a || pre.fee_owed_b != post.fee_owed_b;
                    if !checkpoint_moved && owed_changed && post.fee_owed_a <= pre.fee_owed_a && post.fee_owed_b <= pre.fee_owed_b {
                        // payout (collect_fees): not a credit
                        continue;
                    }
                    if !checkpoint_moved && !owed_changed {
                        continue; // reward-only change
                    }
                    if self.unattributable.contains(&pre.whirlpool) {
                        self.shadow.insert(k, Shadow::new());
                        continue;
                    }
                    let sh = self.shadow.remove(&k).unwrap_or_else(Shadow::new);
                    let name = crate::wpix::decode(v.ix).map(|c| c.name()).unwrap_or("?");
                    judge(&k, &pre, &post, &sh, name, idx, cov, out);
                    self.shadow.insert(k, Shadow::new());
                }
                _ => {}
            }
        }
    }
}

impl C07 {
    /// Active probe on a copy of the ledger: settle the fees of every funded position with the Anchor
    /// `update_fees_and_rewards` - it must succeed (a position whose fees can no longer be settled earns nothing)
    /// and credit the position's exact share. The shadow ledger is not consumed (the copy is discarded).
    fn settle_all(&mut self, l: &crate::rt::Ledger, idx: usize, cov: &mut Coverage, out: &mut Vec<Violation>) {
        let saved_clock = crate::rt::with_ctx(|c| c.clock);
        for (wk, pool) in decode::pools(l) {
            if self.unattributable.contains(&wk) {
                continue;
            }
            for (k, pos) in decode::positions_of_pool(l, &wk) {
                if pos.liquidity == 0 {
                    continue;
                }
                let Some(sh) = self.shadow.get(&k).cloned() else { continue };
                let ta = |t: i32| crate::ix::pda_tick_array(&wk, crate::gen::ta_start(t, pool.tick_spacing));
                let ixn = crate::ix::update_fees_and_rewards(&wk, &k, &ta(pos.lower), &ta(pos.upper));
                // never before the pool's last reward update (clock back-step faults would make the call fail for that reason)
                crate::rt::with_ctx(|c| {
                    c.clock = saved_clock;
                    if (c.clock.unix_timestamp as i128) < pool.reward_last_updated_timestamp as i128 {
                        c.clock.unix_timestamp = pool.reward_last_updated_timestamp as i64;
                    }
                });
                let mut f = l.clone();
                let r = crate::rt::exec_tx_simple(&mut f, &crate::rt::Tx { ixs: vec![ixn] });
                cov.probe("settlement_probes");
                if !r.ok {
                    let code = r.ix_outcomes.last().map(|o| o.code).unwrap_or(0);
                    out.push(viol(
                        "position_cannot_be_settled",
                        idx,
                        format!("update_fees_and_rewards of position {} ({}..{}, L={}) fails with code {:#x}: its fees can no longer be settled", k, pos.lower, pos.upper, pos.liquidity, code),
                    ));
                    break;
                }
                if let Some(post) = f.data(&k).and_then(decode::position) {
                    judge(&k, &pos, &post, &sh, "update_fees_and_rewards (probe)", idx, cov, out);
                }
                if !out.is_empty() {
                    break;
                }
            }
            if !out.is_empty() {
                break;
            }
        }
        crate::rt::with_ctx(|c| c.clock = saved_clock);
    }
}

impl Monitor for C07 {
    fn name(&self) -> &'static str {
        "C07"
    }
    fn on_landed(&mut self, ev: &Landed, cov: &mut Coverage) -> Vec<Violation> {
        let mut out = Vec::new();
        for v in ev.ix_views() {
            let Some(c) = crate::wpix::decode(v.ix) else { continue };
            match c.name() {
                "swap" | "swap_v2" | "two_hop_swap" | "two_hop_swap_v2" => self.on_swap(&v, cov),
                _ => self.on_positions(&v, ev.idx, cov, &mut out),
            }
        }
        let _ = BigUint::zero();
        if out.is_empty() && ev.out.ok && ev.salt % 24 == 5 {
            self.settle_all(ev.post, ev.idx, cov, &mut out);
        }
        out
    }
    fn end_of_run(&mut self, l: &crate::rt::Ledger, cov: &mut Coverage) -> Vec<Violation> {
        let mut out = Vec::new();
        self.settle_all(l, usize::MAX, cov, &mut out);
        out
    }
    fn on_patch(&mut self, _idx: usize, _pre: &crate::rt::Ledger, _post: &crate::rt::Ledger, cov: &mut Coverage) {
        cov.probe("accumulator_fast_forwarded");
    }
}
