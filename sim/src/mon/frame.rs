//! C04, history side — "settings change only when signed by the specific authority recorded on-chain for that
//! setting" and "a position's funds move only in a transaction signed by the holder of its token (or its one-token
//! delegate)", read as a *frame condition* over every transaction that lands, whoever sent it and whatever
//! instruction did it: whenever a setting field, an authority field or a position's claim differs between the ledger
//! before and after a transaction, the matching authority (as recorded BEFORE the transaction) must be among the
//! transaction's signers; fields that no instruction may change after creation must not change at all.
//! This complements the mutation matrix (which replays honest privileged instructions with wrong signers): it sees
//! side effects of instructions that are not the field's setter.

use crate::decode::{self, Pool};
use crate::ix;
use crate::rt::Ledger;
use crate::sim::{Coverage, Landed, Monitor, Violation};
use solana_program::pubkey::Pubkey;
use std::collections::BTreeSet;

pub struct C04Frame;

fn viol(class: &str, idx: usize, detail: String) -> Violation {
    Violation { property: "C04", class: class.to_string(), detail, event_idx: idx }
}

fn wp_owned<'a>(l: &'a Ledger, k: &Pubkey) -> Option<&'a [u8]> {
    l.get(k).filter(|a| a.owner == ix::wp() && a.lamports > 0 && !a.data.is_empty()).map(|a| a.data.as_slice())
}

/// holder of the one token of `mint` and its one-token delegate, as recorded in `l`
fn holders(l: &Ledger, mint: &Pubkey) -> BTreeSet<Pubkey> {
    let mut s = BTreeSet::new();
    let mb = mint.to_bytes();
    for (_, a) in l.accts.iter() {
        if a.owner != ix::tok() && a.owner != ix::tok22() {
            continue;
        }
        if a.data.len() < 165 || a.data[..32] != mb {
            continue;
        }
        if let Some(t) = decode::token_account(&a.data) {
            if t.amount == 1 {
                s.insert(t.owner);
                if let Some(d) = t.delegate {
                    if t.delegated_amount == 1 {
                        s.insert(d);
                    }
                }
            }
        }
    }
    s
}

fn config_of<'a>(l: &'a Ledger, k: &Pubkey) -> Option<decode::Config> {
    wp_owned(l, k).and_then(decode::config)
}

fn ext_auths(l: &Ledger, config: &Pubkey) -> Option<(Pubkey, Pubkey)> {
    let d = wp_owned(l, &ix::pda_config_extension(config))?;
    if d.len() < 104 || !decode::is_kind(d, "WhirlpoolsConfigExtension") {
        return None;
    }
    Some((Pubkey::new_from_array(d[40..72].try_into().unwrap()), Pubkey::new_from_array(d[72..104].try_into().unwrap())))
}

fn fee_tier_index(p: &Pool) -> u16 {
    u16::from_le_bytes(p.fee_tier_index_seed)
}

impl Monitor for C04Frame {
    fn name(&self) -> &'static str {
        "C04"
    }
    fn on_landed(&mut self, ev: &Landed, cov: &mut Coverage) -> Vec<Violation> {
        let mut out = Vec::new();
        if !ev.out.ok {
            return out;
        }
        let signers: BTreeSet<Pubkey> = ev.tx.ixs.iter().flat_map(|i| i.accounts.iter()).filter(|m| m.is_signer).map(|m| m.pubkey).collect();
        let signed = |k: &Pubkey| *k != Pubkey::default() && signers.contains(k);
        let mut keys: Vec<Pubkey> = Vec::new();
        for m in ev.tx.ixs.iter().flat_map(|i| i.accounts.iter()) {
            if !keys.contains(&m.pubkey) {
                keys.push(m.pubkey);
            }
        }
        let names: Vec<&str> = ev.tx.ixs.iter().filter_map(crate::wpix::decode).map(|c| c.name()).collect();
        let what = names.join("+");
        macro_rules! need {
            ($cond:expr, $class:expr, $($arg:tt)*) => {
                if !($cond) {
                    out.push(viol($class, ev.idx, format!("{} (transaction `{}`, signers {:?})", format!($($arg)*), what, signers.iter().map(|k| k.to_string()[..6].to_string()).collect::<Vec<_>>())));
                }
            };
        }
        for k in &keys {
            let (pre, post) = (wp_owned(ev.pre, k), wp_owned(ev.post, k));
            if pre.is_none() && post.is_none() {
                continue;
            }
            if pre == post {
                continue;
            }
            // ---- Whirlpool ----
            if let (Some(a), Some(b)) = (pre.and_then(decode::pool), post.and_then(decode::pool)) {
                cov.probe("frame_pool_changes_judged");
                let cfg = config_of(ev.pre, &a.config);
                need!(
                    a.config == b.config && a.bump == b.bump && a.tick_spacing == b.tick_spacing && a.fee_tier_index_seed == b.fee_tier_index_seed && a.mint_a == b.mint_a && a.mint_b == b.mint_b && a.vault_a == b.vault_a && a.vault_b == b.vault_b,
                    "immutable_field_changed",
                    "pool {}: an identity field changed (config / bump / tick spacing / fee tier index / mints / vaults)",
                    k
                );
                if let Some(cfg) = &cfg {
                    if a.fee_rate != b.fee_rate {
                        // the fee authority, or the delegated fee authority of the pool's adaptive fee tier
                        let tier = wp_owned(ev.pre, &ix::pda_fee_tier(&a.config, fee_tier_index(&a))).and_then(decode::adaptive_fee_tier);
                        let delegated = tier.map(|t| signed(&t.delegated_fee_authority)).unwrap_or(false);
                        cov.eval(format!("frame|pool.fee_rate|fee_authority={}|delegate={}", signed(&cfg.fee_authority), delegated));
                        need!(signed(&cfg.fee_authority) || delegated, "setting_changed_without_its_authority", "pool {}: fee rate {} -> {} without the fee authority's (or the tier's delegated fee authority's) signature", k, a.fee_rate, b.fee_rate);
                    }
                    if a.protocol_fee_rate != b.protocol_fee_rate {
                        cov.eval("frame|pool.protocol_fee_rate".to_string());
                        need!(signed(&cfg.fee_authority), "setting_changed_without_its_authority", "pool {}: protocol fee rate {} -> {} without the fee authority's signature", k, a.protocol_fee_rate, b.protocol_fee_rate);
                    }
                    if b.protocol_fee_owed_a < a.protocol_fee_owed_a || b.protocol_fee_owed_b < a.protocol_fee_owed_b {
                        cov.eval("frame|pool.protocol_fee_owed_paid_out".to_string());
                        need!(signed(&cfg.collect_protocol_fees_authority), "protocol_fees_paid_without_the_collector", "pool {}: protocol fees owed went {} / {} -> {} / {} without the collect-protocol-fees authority's signature", k, a.protocol_fee_owed_a, a.protocol_fee_owed_b, b.protocol_fee_owed_a, b.protocol_fee_owed_b);
                    }
                    let ra = Pubkey::new_from_array(a.rewards[0].extension);
                    let reward_signed = signed(&ra) || signed(&cfg.reward_emissions_super_authority);
                    if a.rewards[0].extension != b.rewards[0].extension {
                        cov.eval("frame|pool.reward_authority".to_string());
                        need!(reward_signed, "setting_changed_without_its_authority", "pool {}: reward authority {} -> {} without the reward authority's or the super authority's signature", k, ra, Pubkey::new_from_array(b.rewards[0].extension));
                    }
                    for i in 0..3 {
                        let (x, y) = (&a.rewards[i], &b.rewards[i]);
                        if x.mint != y.mint || x.vault != y.vault {
                            cov.eval(format!("frame|pool.reward[{}].mint_vault|was_initialised={}", i, x.initialized()));
                            need!(!x.initialized(), "immutable_field_changed", "pool {}: mint / vault of the initialised reward {} changed", k, i);
                            need!(signed(&ra), "setting_changed_without_its_authority", "pool {}: reward {} initialised without the reward authority's signature", k, i);
                        }
                        if x.emissions_per_second_x64 != y.emissions_per_second_x64 {
                            cov.eval(format!("frame|pool.reward[{}].emissions", i));
                            need!(reward_signed, "setting_changed_without_its_authority", "pool {}: emissions of reward {} changed {} -> {} without the reward authority's signature", k, i, x.emissions_per_second_x64, y.emissions_per_second_x64);
                        }
                        if i > 0 && x.extension != y.extension {
                            need!(false, "immutable_field_changed", "pool {}: the repurposed space of reward slot {} changed", k, i);
                        }
                    }
                }
                continue;
            }
            // ---- pool creation from a permissioned adaptive fee tier ----
            if let (None, Some(b)) = (pre, post.and_then(decode::pool)) {
                if let Some(t) = wp_owned(ev.pre, &ix::pda_fee_tier(&b.config, fee_tier_index(&b))).and_then(decode::adaptive_fee_tier) {
                    if t.initialize_pool_authority != Pubkey::default() {
                        cov.eval("frame|pool_created_from_permissioned_tier".to_string());
                        need!(signed(&t.initialize_pool_authority), "created_without_its_authority", "pool {} created from a permissioned adaptive fee tier without the tier's initialize-pool authority", k);
                    }
                }
                continue;
            }
            // ---- WhirlpoolsConfig ----
            if let (Some(a), Some(b)) = (pre.and_then(decode::config), post.and_then(decode::config)) {
                cov.probe("frame_config_changes_judged");
                if a.fee_authority != b.fee_authority {
                    need!(signed(&a.fee_authority), "setting_changed_without_its_authority", "config {}: fee authority changed without the current fee authority's signature", k);
                }
                if a.collect_protocol_fees_authority != b.collect_protocol_fees_authority {
                    need!(signed(&a.collect_protocol_fees_authority), "setting_changed_without_its_authority", "config {}: collect-protocol-fees authority changed without the current one's signature", k);
                }
                if a.reward_emissions_super_authority != b.reward_emissions_super_authority {
                    need!(signed(&a.reward_emissions_super_authority), "setting_changed_without_its_authority", "config {}: reward-emissions super authority changed without the current one's signature", k);
                }
                if a.default_protocol_fee_rate != b.default_protocol_fee_rate {
                    need!(signed(&a.fee_authority), "setting_changed_without_its_authority", "config {}: default protocol fee rate changed without the fee authority's signature", k);
                }
                if a.feature_flags != b.feature_flags {
                    need!(signers.iter().any(whirlpool::auth::admin::is_admin_key), "setting_changed_without_its_authority", "config {}: feature flags changed without an admin key's signature", k);
                }
                continue;
            }
            if let (None, Some(_)) = (pre, post.and_then(decode::config)) {
                need!(signers.iter().any(whirlpool::auth::admin::is_admin_key), "created_without_its_authority", "config {} created without an admin key's signature", k);
                continue;
            }
            // ---- FeeTier / AdaptiveFeeTier (created or changed: the fee authority of their config) ----
            let tier_cfg = post.and_then(decode::fee_tier).map(|t| t.config).or_else(|| post.and_then(decode::adaptive_fee_tier).map(|t| t.config));
            if let Some(cfgk) = tier_cfg {
                cov.probe("frame_fee_tier_changes_judged");
                let pre_cfg = pre.and_then(decode::fee_tier).map(|t| t.config).or_else(|| pre.and_then(decode::adaptive_fee_tier).map(|t| t.config));
                need!(pre_cfg.map(|c| c == cfgk).unwrap_or(true), "immutable_field_changed", "fee tier {}: its config changed", k);
                if let (Some(a), Some(b)) = (pre.and_then(decode::fee_tier), post.and_then(decode::fee_tier)) {
                    need!(a.tick_spacing == b.tick_spacing, "immutable_field_changed", "fee tier {}: tick spacing changed", k);
                }
                if let (Some(a), Some(b)) = (pre.and_then(decode::adaptive_fee_tier), post.and_then(decode::adaptive_fee_tier)) {
                    need!(a.tick_spacing == b.tick_spacing && a.fee_tier_index == b.fee_tier_index, "immutable_field_changed", "adaptive fee tier {}: tick spacing / index changed", k);
                }
                if let Some(cfg) = config_of(ev.pre, &cfgk) {
                    need!(signed(&cfg.fee_authority), "setting_changed_without_its_authority", "fee tier {} created or changed without the fee authority's signature", k);
                }
                continue;
            }
            // ---- Oracle ----
            if let (Some(a), Some(b)) = (pre.and_then(decode::oracle), post.and_then(decode::oracle)) {
                need!(a.whirlpool == b.whirlpool && a.trade_enable_timestamp == b.trade_enable_timestamp, "immutable_field_changed", "oracle {}: pool or trade-enable time changed", k);
                if a.c != b.c {
                    cov.eval("frame|oracle.constants".to_string());
                    let cfg = wp_owned(ev.pre, &a.whirlpool).and_then(decode::pool).and_then(|p| config_of(ev.pre, &p.config));
                    if let Some(cfg) = cfg {
                        need!(signed(&cfg.fee_authority), "setting_changed_without_its_authority", "oracle {}: adaptive-fee constants changed without the fee authority's signature", k);
                    }
                }
                continue;
            }
            // ---- WhirlpoolsConfigExtension ----
            let is_ext = |d: &[u8]| d.len() >= 104 && decode::is_kind(d, "WhirlpoolsConfigExtension");
            if post.map(is_ext).unwrap_or(false) {
                let b = post.unwrap();
                let cfgk = Pubkey::new_from_array(b[8..40].try_into().unwrap());
                match pre.filter(|d| is_ext(d)) {
                    None => {
                        if let Some(cfg) = config_of(ev.pre, &cfgk) {
                            need!(signed(&cfg.fee_authority), "created_without_its_authority", "config extension {} created without the fee authority's signature", k);
                            // ... and is born under that authority: whoever merely paid the rent gains nothing
                            let born = (Pubkey::new_from_array(b[40..72].try_into().unwrap()), Pubkey::new_from_array(b[72..104].try_into().unwrap()));
                            need!(born.0 == cfg.fee_authority && born.1 == cfg.fee_authority, "authority_born_in_other_hands", "config extension {} is born with authorities {} / {} although the config's fee authority, which created it, is {}", k, born.0, born.1, cfg.fee_authority);
                        }
                    }
                    Some(a) => {
                        need!(a[8..40] == b[8..40], "immutable_field_changed", "config extension {}: its config changed", k);
                        if a[40..104] != b[40..104] {
                            cov.eval("frame|config_extension.authorities".to_string());
                            let cea = Pubkey::new_from_array(a[40..72].try_into().unwrap());
                            need!(signed(&cea), "setting_changed_without_its_authority", "config extension {}: an authority changed without the config-extension authority's signature", k);
                        }
                    }
                }
                continue;
            }
            // ---- TokenBadge: created, changed or deleted ----
            let is_badge = |d: &[u8]| d.len() >= 73 && decode::is_kind(d, "TokenBadge");
            if pre.map(is_badge).unwrap_or(false) || post.map(is_badge).unwrap_or(false) {
                let d = post.filter(|d| is_badge(d)).or(pre).unwrap();
                let cfgk = Pubkey::new_from_array(d[8..40].try_into().unwrap());
                cov.eval(format!("frame|token_badge|created={}|deleted={}", pre.is_none(), post.is_none()));
                if let Some((_, tba)) = ext_auths(ev.pre, &cfgk) {
                    need!(signed(&tba), "setting_changed_without_its_authority", "token badge {} created, changed or deleted without the token-badge authority's signature", k);
                }
                if let (Some(a), Some(b)) = (pre, post) {
                    need!(a[8..72] == b[8..72], "immutable_field_changed", "token badge {}: config or mint changed", k);
                }
                continue;
            }
            // ---- Position: its claim moves only with the holder's (or the one-token delegate's) signature ----
            if let Some(a) = pre.and_then(decode::position) {
                let b = post.and_then(decode::position);
                let h = holders(ev.pre, &a.mint);
                let holder_signed = h.iter().any(|x| signers.contains(x));
                match b {
                    None => {
                        cov.eval("frame|position.closed".to_string());
                        need!(holder_signed, "position_changed_without_its_holder", "position {} closed without the signature of the holder of its token", k);
                    }
                    Some(b) => {
                        need!(a.whirlpool == b.whirlpool && a.mint == b.mint, "immutable_field_changed", "position {}: pool or mint changed", k);
                        // (owed fees / rewards are not judged here: the program adds to them with wrapping arithmetic, so a smaller number
                        // is not by itself a payout; collections are covered by the mutation matrix)
                        let claim_moved = a.liquidity != b.liquidity || a.lower != b.lower || a.upper != b.upper;
                        if claim_moved {
                            cov.eval(format!("frame|position.claim_moved|liq={}|range={}", a.liquidity != b.liquidity, a.lower != b.lower || a.upper != b.upper));
                            need!(holder_signed, "position_changed_without_its_holder", "position {}: liquidity {} -> {}, range {}..{} -> {}..{}, owed fees {} / {} -> {} / {} without the signature of the holder of its token (holders {:?})", k, a.liquidity, b.liquidity, a.lower, a.upper, b.lower, b.upper, a.fee_owed_a, a.fee_owed_b, b.fee_owed_a, b.fee_owed_b, h);
                        }
                    }
                }
                continue;
            }
            // ---- LockConfig: created (lock) or handed over (transfer) ----
            if let Some(b) = post.and_then(decode::lock_config) {
                let pos_mint = wp_owned(ev.pre, &b.position).and_then(decode::position).map(|p| p.mint);
                if let Some(mint) = pos_mint {
                    let h = holders(ev.pre, &mint);
                    cov.eval(format!("frame|lock_config|created={}", pre.is_none()));
                    need!(h.iter().any(|x| signers.contains(x)), "position_changed_without_its_holder", "lock record {} of position {} created or changed without the signature of the holder of the position token", k, b.position);
                }
                if let Some(a) = pre.and_then(decode::lock_config) {
                    need!(a.position == b.position && a.whirlpool == b.whirlpool, "immutable_field_changed", "lock record {}: position or pool changed", k);
                }
                continue;
            }
            // ---- PositionBundle: bitmap changes / deletion only with the bundle holder ----
            if let Some(a) = pre.and_then(decode::position_bundle) {
                let b = post.and_then(decode::position_bundle);
                let h = holders(ev.pre, &a.mint);
                cov.eval(format!("frame|position_bundle|deleted={}", b.is_none()));
                need!(h.iter().any(|x| signers.contains(x)), "position_changed_without_its_holder", "position bundle {} changed or deleted without the signature of the holder of the bundle token", k);
                if let Some(b) = b {
                    need!(a.mint == b.mint, "immutable_field_changed", "position bundle {}: its mint changed", k);
                }
                continue;
            }
        }
        out
    }
}

// =============================================================================================
// C15, history side: an instruction that names pool X changes no account that belongs to another pool
// =============================================================================================

/// For every instruction of every landed transaction that names at least one pool: each account it changed that
/// carries a pool reference (tick array, position, oracle, lock record) must reference one of the named pools, and a
/// token vault (swap or reward vault) of any pool may lose tokens only if that pool is named. Complements the
/// substitution matrix on forks: this one judges what actually landed, whoever crafted it.
pub struct C15Frame;

fn v15(class: &str, idx: usize, detail: String) -> Violation {
    Violation { property: "C15", class: class.to_string(), detail, event_idx: idx }
}

impl Monitor for C15Frame {
    fn name(&self) -> &'static str {
        "C15"
    }
    fn on_landed(&mut self, ev: &Landed, cov: &mut Coverage) -> Vec<Violation> {
        let mut out = Vec::new();
        if !ev.out.ok {
            return out;
        }
        for v in ev.ix_views() {
            if v.ix.program_id != ix::wp() {
                continue;
            }
            let Some(c) = crate::wpix::decode(v.ix) else { continue };
            let mut keys: Vec<Pubkey> = Vec::new();
            for m in &v.ix.accounts {
                if !keys.contains(&m.pubkey) {
                    keys.push(m.pubkey);
                }
            }
            let named: Vec<Pubkey> = keys.iter().filter(|k| wp_owned(v.pre, k).and_then(decode::pool).is_some() || wp_owned(v.post, k).and_then(decode::pool).is_some()).cloned().collect();
            if named.is_empty() {
                continue;
            }
            let mut all_pools: Option<Vec<(Pubkey, Pool)>> = None;
            for k in &keys {
                let (pa, pb) = (v.pre.get(k), v.post.get(k));
                let changed = match (pa, pb) {
                    (Some(a), Some(b)) => a.data != b.data || a.lamports != b.lamports,
                    (None, None) => false,
                    _ => true,
                };
                if !changed {
                    continue;
                }
                // program accounts that carry a pool reference
                for d in [wp_owned(v.pre, k), wp_owned(v.post, k)].into_iter().flatten() {
                    let owner_pool: Option<Pubkey> = if let Some(p) = decode::position(d) {
                        Some(p.whirlpool)
                    } else if let Ok(t) = decode::tick_array(d) {
                        Some(t.whirlpool)
                    } else if let Some(o) = decode::oracle(d) {
                        Some(o.whirlpool)
                    } else {
                        decode::lock_config(d).map(|l| l.whirlpool)
                    };
                    if let Some(op) = owner_pool {
                        cov.probe("frame_pool_bound_account_changes_judged");
                        if !named.contains(&op) {
                            out.push(v15("foreign_account_changed", ev.idx, format!("{} names pool(s) {:?} but changed account {} which belongs to pool {}", c.name(), named, k, op)));
                            return out;
                        }
                    }
                }
                // token vaults of pools: may lose tokens only if their pool is named
                if let (Some(a), Some(b)) = (pa, pb) {
                    if (a.owner == ix::tok() || a.owner == ix::tok22()) && a.data.len() >= 72 && b.data.len() >= 72 {
                        let (x, y) = (u64::from_le_bytes(a.data[64..72].try_into().unwrap()), u64::from_le_bytes(b.data[64..72].try_into().unwrap()));
                        if y < x {
                            let pools = all_pools.get_or_insert_with(|| decode::pools(v.pre));
                            for (pk, p) in pools.iter() {
                                let is_vault = p.vault_a == *k || p.vault_b == *k || p.rewards.iter().any(|r| r.initialized() && r.vault == *k);
                                if is_vault {
                                    cov.probe("frame_vault_payouts_judged");
                                    if !named.contains(pk) {
                                        out.push(v15("foreign_vault_paid_out", ev.idx, format!("{} names pool(s) {:?} but took {} tokens out of {}, a vault of pool {}", c.name(), named, x - y, k, pk)));
                                        return out;
                                    }
                                }
                            }
                        }
                    }
                }
            }
        }
        out
    }
}
