//! C16 — with transfer-fee tokens the pool still receives and pays the curve amounts.
//! The real Token-2022 processor moves the tokens; the fee actually withheld is read from the
//! destination account's TransferFeeAmount.withheld delta.

use crate::decode::{self, Pool};
use crate::model;
use crate::mon::swaps::{observe, traded_events};
use crate::rt::Ledger;
use crate::sim::{Coverage, IxView, Landed, Monitor, Violation};
use crate::world::{token_amount, transfer_fee_of, transfer_fee_params, withheld_amount};
use crate::wpix;
use num_traits::ToPrimitive;
use serde_json::json;
use solana_program::pubkey::Pubkey;

pub struct C16;

fn viol(class: &str, idx: usize, detail: String) -> Violation {
    Violation {
        property: "C16",
        class: class.to_string(),
        detail,
        event_idx: idx,
    }
}

struct Move {
    /// amount leaving the sender
    sent: i128,
    /// amount arriving (receiver's balance delta)
    arrived: i128,
    /// receiver's withheld delta
    withheld: i128,
}

fn amt(l: &Ledger, k: &Pubkey) -> i128 {
    token_amount(l, k) as i128
}
fn wh(l: &Ledger, k: &Pubkey) -> i128 {
    withheld_amount(l, k) as i128
}

fn movement(v: &IxView, from: &Pubkey, to: &Pubkey) -> Move {
    Move {
        sent: amt(v.pre, from) - amt(v.post, from),
        arrived: amt(v.post, to) - amt(v.pre, to),
        withheld: wh(v.post, to) - wh(v.pre, to),
    }
}

fn g(l: &Ledger, mint: &Pubkey, epoch: u64, x: u64) -> u64 {
    x - transfer_fee_of(l, mint, epoch, x).min(x)
}

fn fee_class(l: &Ledger, mint: &Pubkey, epoch: u64) -> String {
    match transfer_fee_params(l, mint, epoch) {
        None => "nofee".into(),
        Some((bps, max)) => format!("bps{}{}", match bps { 0 => "0", 10000 => "100pct", b if b >= 5000 => "hi", _ => "lo" }, match max { 0 => "-max0", u64::MAX => "", m if m <= 10 => "-maxsmall", _ => "-maxmid" }),
    }
}

struct Chk<'a> {
    v: &'a IxView<'a>,
    idx: usize,
    epoch: u64,
    name: &'static str,
}

impl<'a> Chk<'a> {
    /// a transfer `from` -> `to` of mint: identity included = excluded + fee, fee as defined by SPL
    fn identity(&self, mint: &Pubkey, mv: &Move, what: &str, out: &mut Vec<Violation>) -> bool {
        if mv.sent < 0 || mv.arrived < 0 {
            return false;
        }
        let fee = transfer_fee_of(self.v.pre, mint, self.epoch, mv.sent as u64) as i128;
        if mv.sent != mv.arrived + mv.withheld || mv.withheld != fee {
            out.push(viol("fee_identity", self.idx, format!("{} {}: sent {} arrived {} withheld {} (SPL fee of the sent amount: {})", self.name, what, mv.sent, mv.arrived, mv.withheld, fee)));
            return false;
        }
        true
    }

    /// user -> vault: the vault must receive at least `need`; the requested amount is the smallest that covers it
    fn deposit(&self, mint: &Pubkey, mv: &Move, need: u128, user_specified: Option<u64>, max: u64, what: &str, out: &mut Vec<Violation>, cov: &mut Coverage) {
        if !self.identity(mint, mv, what, out) {
            return;
        }
        if (mv.arrived as u128) < need {
            out.push(viol("vault_received_less_than_needed", self.idx, format!("{} {}: the vault received {} but the pool needs {} (user was debited {})", self.name, what, mv.arrived, need, mv.sent)));
            return;
        }
        if mv.sent as u128 > max as u128 {
            out.push(viol("user_paid_more_than_maximum", self.idx, format!("{} {}: the user was debited {} but stated a maximum of {}", self.name, what, mv.sent, max)));
        }
        // an exact-in amount is the user's own choice only when the pool consumes all of its fee-reduced value
        let specified = user_specified.map(|s| s as i128 == mv.sent && g(self.v.pre, mint, self.epoch, s) as u128 == need).unwrap_or(false);
        if !specified && mv.sent > 0 && need == 0 {
            // nothing is needed: the smallest amount that covers it is nothing
            out.push(viol("requested_amount_not_smallest", self.idx, format!("{} {}: requested {} from the user although the pool needs nothing of this token (transfer fee withheld {})", self.name, what, mv.sent, mv.withheld)));
        }
        if !specified && mv.sent > 0 && need > 0 {
            let below = g(self.v.pre, mint, self.epoch, mv.sent as u64 - 1) as u128;
            if below >= need {
                out.push(viol("requested_amount_not_smallest", self.idx, format!("{} {}: requested {} from the user but {} would already leave {} >= needed {}", self.name, what, mv.sent, mv.sent - 1, below, need)));
            } else {
                cov.probe("smallest_included_amount_checked");
            }
        }
        if mv.withheld > 0 {
            cov.probe("deposit_with_nonzero_transfer_fee");
        }
    }

    /// vault -> user: the vault sends exactly `curve`; the user receives it minus the fee; `min_received` applies to what arrives
    fn withdrawal(&self, mint: &Pubkey, mv: &Move, curve: u128, min_received: u64, what: &str, out: &mut Vec<Violation>, cov: &mut Coverage) {
        if !self.identity(mint, mv, what, out) {
            return;
        }
        if mv.sent as u128 != curve {
            out.push(viol("vault_paid_other_than_curve_amount", self.idx, format!("{} {}: the vault sent {} but the curve amount is {}", self.name, what, mv.sent, curve)));
        }
        if (mv.arrived as u128) < min_received as u128 {
            out.push(viol("received_below_stated_minimum", self.idx, format!("{} {}: the user received {} (after a transfer fee of {}) but stated a minimum of {}", self.name, what, mv.arrived, mv.withheld, min_received)));
        }
        if mv.withheld > 0 {
            cov.probe("withdrawal_with_nonzero_transfer_fee");
        }
    }
}

fn has_fee_mint(l: &Ledger, p: &Pool) -> bool {
    transfer_fee_params(l, &p.mint_a, 0).is_some() || transfer_fee_params(l, &p.mint_b, 0).is_some()
}

impl Monitor for C16 {
    fn name(&self) -> &'static str {
        "C16"
    }
    fn on_landed(&mut self, ev: &Landed, cov: &mut Coverage) -> Vec<Violation> {
        let mut out = Vec::new();
        if !ev.out.ok {
            return out;
        }
        let epoch = ev.clock.epoch;
        for v in ev.ix_views() {
            let Some(c) = wpix::decode(v.ix) else { continue };
            let name = c.name();
            let k = Chk { v: &v, idx: ev.idx, epoch, name };
            match name {
                "swap_v2" => {
                    let wk = c.a("whirlpool");
                    let Some(pool) = v.pre.data(&wk).and_then(decode::pool) else { continue };
                    if !has_fee_mint(v.pre, &pool) {
                        continue;
                    }
                    let a = wpix::swap_args(&c);
                    let obs = observe(v.ix, v.out, v.pre, v.post);
                    let Some(o) = obs.first() else { continue };
                    let c_in: u128 = o.trace.steps.iter().map(|s| s.amount_in as u128 + s.fee_amount as u128).sum();
                    let c_out: u128 = o.trace.steps.iter().map(|s| s.amount_out as u128).sum();
                    let (mint_in, mint_out, user_in, user_out, vault_in, vault_out) = if a.a_to_b {
                        (pool.mint_a, pool.mint_b, c.a("token_owner_account_a"), c.a("token_owner_account_b"), pool.vault_a, pool.vault_b)
                    } else {
                        (pool.mint_b, pool.mint_a, c.a("token_owner_account_b"), c.a("token_owner_account_a"), pool.vault_b, pool.vault_a)
                    };
                    cov.eval(format!("{}|{}|{}|in:{}|out:{}|partial={}", name, if a.a_to_b { "a2b" } else { "b2a" }, if a.is_input { "exactin" } else { "exactout" },
                        fee_class(v.pre, &mint_in, epoch), fee_class(v.pre, &mint_out, epoch), o.post.sqrt_price == crate::mon::swaps::effective_limit(a.limit, a.a_to_b)));
                    let m_in = movement(&v, &user_in, &vault_in);
                    let m_out = movement(&v, &vault_out, &user_out);
                    if a.is_input {
                        k.deposit(&mint_in, &m_in, c_in, Some(a.amount), a.amount, "input", &mut out, cov);
                        k.withdrawal(&mint_out, &m_out, c_out, a.threshold, "output", &mut out, cov);
                        if m_out.withheld > 0 && m_out.arrived >= 0 && v.ix.data.len() >= 24 && out.is_empty() && ev.salt % 2 == 0 {
                            let tight = (m_out.arrived as u64).saturating_add(1);
                            let mut ix2 = v.ix.clone();
                            ix2.data[16..24].copy_from_slice(&tight.to_le_bytes());
                            let mut f = v.pre.clone();
                            let r2 = crate::rt::exec_tx_simple(&mut f, &crate::rt::Tx { ixs: vec![ix2] });
                            cov.probe("swap_tight_minimum_forks");
                            let got = amt(&f, &user_out) - amt(v.pre, &user_out);
                            if r2.ok && got < tight as i128 {
                                out.push(viol("received_below_stated_minimum", ev.idx, format!("swap_v2 exact-in with minimum output {} succeeds but the trader receives {} (transfer fee {})", tight, got, m_out.withheld)));
                            }
                        }
                    } else {
                        k.deposit(&mint_in, &m_in, c_in, None, a.threshold, "input", &mut out, cov);
                        k.withdrawal(&mint_out, &m_out, c_out, 0, "output", &mut out, cov);
                        // exact-out: the user receives the specified amount when fully filled
                        let full = o.post.sqrt_price != crate::mon::swaps::effective_limit(a.limit, a.a_to_b) || m_out.arrived as u128 == a.amount as u128;
                        if full && m_out.arrived as u128 != a.amount as u128 && out.is_empty() {
                            out.push(viol("exact_out_received_other_than_specified", ev.idx, format!("exact-out {}: the user received {} (vault sent {}, fee {})", a.amount, m_out.arrived, m_out.sent, m_out.withheld)));
                        }
                        if m_out.arrived as u128 > a.amount as u128 {
                            out.push(viol("exact_out_received_more_than_specified", ev.idx, format!("exact-out {}: the user received {}", a.amount, m_out.arrived)));
                        }
                    }
                    // event
                    if let Some(e) = traded_events(v.out).into_iter().find(|e| e.whirlpool == wk) {
                        if e.input_amount as i128 != m_in.sent || e.input_transfer_fee as i128 != m_in.withheld || e.output_amount as i128 != m_out.sent || e.output_transfer_fee as i128 != m_out.withheld {
                            out.push(viol("event_amounts", ev.idx, format!("Traded reports input {} (fee {}) output {} (fee {}) but {} (fee {}) and {} (fee {}) moved", e.input_amount, e.input_transfer_fee, e.output_amount, e.output_transfer_fee, m_in.sent, m_in.withheld, m_out.sent, m_out.withheld)));
                        }
                    }
                    if out.is_empty() && (m_in.withheld > 0 || m_out.withheld > 0) {
                        cov.sample(json!({"ix": name, "exact_in": a.is_input, "amount": a.amount, "user_debited": m_in.sent.to_string(), "vault_received": m_in.arrived.to_string(), "input_fee": m_in.withheld.to_string(), "curve_input": c_in.to_string(),
                            "vault_sent": m_out.sent.to_string(), "user_received": m_out.arrived.to_string(), "output_fee": m_out.withheld.to_string(), "fee_in": fee_class(v.pre, &mint_in, epoch), "fee_out": fee_class(v.pre, &mint_out, epoch)}));
                    }
                }
                "increase_liquidity_v2" | "decrease_liquidity_v2" | "increase_liquidity_by_token_amounts_v2" => {
                    let wk = c.a("whirlpool");
                    let Some(pool) = v.pre.data(&wk).and_then(decode::pool) else { continue };
                    if !has_fee_mint(v.pre, &pool) {
                        continue;
                    }
                    let (Some(pre_pos), Some(post_pos)) = (v.pre.data(&c.a("position")).and_then(decode::position), v.post.data(&c.a("position")).and_then(decode::position)) else { continue };
                    let inc = name != "decrease_liquidity_v2";
                    let (liq, b_a, b_b) = if name == "increase_liquidity_by_token_amounts_v2" {
                        let mut r = c.args();
                        let _ = r.u8();
                        (post_pos.liquidity.wrapping_sub(pre_pos.liquidity), r.u64(), r.u64())
                    } else {
                        wpix::liq_args(&c)
                    };
                    let (ea, eb) = model::liquidity_amounts(liq, pool.tick_current_index, pool.sqrt_price, pre_pos.lower, pre_pos.upper, inc);
                    let (ea, eb) = (ea.to_u128().unwrap_or(u128::MAX), eb.to_u128().unwrap_or(u128::MAX));
                    cov.eval(format!("{}|a:{}|b:{}", name, fee_class(v.pre, &pool.mint_a, epoch), fee_class(v.pre, &pool.mint_b, epoch)));
                    for (mint, user, vault, need, bound, side) in [
                        (pool.mint_a, c.a("token_owner_account_a"), pool.vault_a, ea, b_a, "token A"),
                        (pool.mint_b, c.a("token_owner_account_b"), pool.vault_b, eb, b_b, "token B"),
                    ] {
                        if inc {
                            let mv = movement(&v, &user, &vault);
                            k.deposit(&mint, &mv, need, None, bound, side, &mut out, cov);
                            // on a copy: maximum one below what was just taken - the owner must never be debited more than it
                            if name == "increase_liquidity_v2" && mv.sent > 0 && mv.withheld > 0 && ev.salt % 2 == 0 {
                                let off = if side == "token A" { 24 } else { 32 };
                                let tight = (mv.sent - 1) as u64;
                                let mut ix2 = v.ix.clone();
                                ix2.data[off..off + 8].copy_from_slice(&tight.to_le_bytes());
                                let mut f = v.pre.clone();
                                let r2 = crate::rt::exec_tx_simple(&mut f, &crate::rt::Tx { ixs: vec![ix2] });
                                cov.probe("increase_tight_maximum_forks");
                                let debit = amt(v.pre, &user) - amt(&f, &user);
                                if r2.ok && debit > tight as i128 {
                                    out.push(viol("user_paid_more_than_maximum", ev.idx, format!("increase_liquidity_v2 {}: with token_max = {} the call succeeds and debits the owner {} (pool needs {}, transfer fee {})", side, tight, debit, need, mv.withheld)));
                                }
                            }
                            if name == "increase_liquidity_by_token_amounts_v2" && mv.sent as u128 > bound as u128 {
                                out.push(viol("user_paid_more_than_maximum", ev.idx, format!("by-token-amounts {}: debited {} > maximum {}", side, mv.sent, bound)));
                            }
                        } else {
                            let mv = movement(&v, &vault, &user);
                            k.withdrawal(&mint, &mv, need, bound, side, &mut out, cov);
                        }
                    }
                    // Pinocchio event (hook H2)
                    let ev_name = if inc { "LiquidityIncreased" } else { "LiquidityDecreased" };
                    let d = decode::event_disc(ev_name);
                    for (pid, fields) in &v.out.events {
                        if *pid != crate::ix::wp() {
                            continue;
                        }
                        for f in fields {
                            if f.len() >= 8 + 32 + 32 + 4 + 4 + 16 + 32 && f[..8] == d {
                                let mut r = decode::Rd::new(f, 8 + 32 + 32 + 4 + 4);
                                let l = r.u128();
                                let (ta, tb, fa, fb) = (r.u64(), r.u64(), r.u64(), r.u64());
                                let (ma, mb) = if inc {
                                    (movement(&v, &c.a("token_owner_account_a"), &pool.vault_a), movement(&v, &c.a("token_owner_account_b"), &pool.vault_b))
                                } else {
                                    (movement(&v, &pool.vault_a, &c.a("token_owner_account_a")), movement(&v, &pool.vault_b, &c.a("token_owner_account_b")))
                                };
                                cov.probe("pinocchio_liquidity_event_checked");
                                if l != liq || ta as i128 != ma.sent || tb as i128 != mb.sent || fa as i128 != ma.withheld || fb as i128 != mb.withheld {
                                    out.push(viol("event_amounts", ev.idx, format!("{} reports L {} amounts {} / {} fees {} / {} but L {} and {} / {} moved with fees {} / {}", ev_name, l, ta, tb, fa, fb, liq, ma.sent, mb.sent, ma.withheld, mb.withheld)));
                                }
                            }
                        }
                    }
                }
                "reposition_liquidity_v2" => {
                    let wk = c.a("whirlpool");
                    let Some(pool) = v.pre.data(&wk).and_then(decode::pool) else { continue };
                    if !has_fee_mint(v.pre, &pool) {
                        continue;
                    }
                    let Some(pre_pos) = v.pre.data(&c.a("position")).and_then(decode::position) else { continue };
                    let mut r = c.args();
                    let (new_lo, new_hi) = (r.i32(), r.i32());
                    let _variant = r.u8();
                    let new_liq = r.u128();
                    let (min_a, min_b, max_a, max_b) = (r.u64(), r.u64(), r.u64(), r.u64());
                    let (old_a, old_b) = model::liquidity_amounts(pre_pos.liquidity, pool.tick_current_index, pool.sqrt_price, pre_pos.lower, pre_pos.upper, false);
                    let (new_a, new_b) = model::liquidity_amounts(new_liq, pool.tick_current_index, pool.sqrt_price, new_lo, new_hi, true);
                    let to128 = |x: &num_bigint::BigUint| x.to_u128().unwrap_or(u128::MAX);
                    cov.eval(format!("{}|a:{}|b:{}", name, fee_class(v.pre, &pool.mint_a, epoch), fee_class(v.pre, &pool.mint_b, epoch)));
                    let mut moved: Vec<(bool, Move)> = Vec::new();
                    for (mint, user, vault, old, new, min, max, side) in [
                        (pool.mint_a, c.a("token_owner_account_a"), pool.vault_a, to128(&old_a), to128(&new_a), min_a, max_a, "token A"),
                        (pool.mint_b, c.a("token_owner_account_b"), pool.vault_b, to128(&old_b), to128(&new_b), min_b, max_b, "token B"),
                    ] {
                        if new >= old {
                            // the owner pays the difference; the stated maximum for the new range bounds what is taken from them
                            let mv = movement(&v, &user, &vault);
                            k.deposit(&mint, &mv, new - old, None, max, &format!("{} (net owner -> vault)", side), &mut out, cov);
                            cov.probe("reposition_net_deposit_checked");
                            // on a copy: the same call with a maximum one below what was just taken from the owner -
                            // whatever the program then does, the owner must not be debited more than that maximum
                            if mv.sent > 0 && mv.withheld > 0 && v.ix.data.len() >= 65 {
                                let off = if side == "token A" { 49 } else { 57 };
                                let tight = (mv.sent - 1) as u64;
                                let mut ix2 = v.ix.clone();
                                ix2.data[off..off + 8].copy_from_slice(&tight.to_le_bytes());
                                let mut f = v.pre.clone();
                                let r2 = crate::rt::exec_tx_simple(&mut f, &crate::rt::Tx { ixs: vec![ix2] });
                                cov.probe("reposition_tight_maximum_forks");
                                let debit = amt(v.pre, &user) - amt(&f, &user);
                                if r2.ok && debit > tight as i128 {
                                    out.push(viol("user_paid_more_than_maximum", ev.idx, format!("reposition {}: with new_range_token_max = {} the call succeeds and debits the owner {} (the new range takes {}, the existing range returned {}, transfer fee {})", side, tight, debit, new, old, mv.withheld)));
                                }
                            }
                            moved.push((true, mv));
                        } else {
                            // the owner receives the difference; when the new range takes nothing of this token, the
                            // stated minimum for the existing range is about what actually arrives
                            let mv = movement(&v, &vault, &user);
                            k.withdrawal(&mint, &mv, old - new, if new == 0 { min } else { 0 }, &format!("{} (net vault -> owner)", side), &mut out, cov);
                            cov.probe("reposition_net_withdrawal_checked");
                            moved.push((false, mv));
                        }
                    }
                    // Pinocchio event (hook H2): transfer amounts, fees and directions as moved
                    let d = decode::event_disc("LiquidityRepositioned");
                    for (pid, fields) in &v.out.events {
                        if *pid != crate::ix::wp() {
                            continue;
                        }
                        for f in fields {
                            let head = 8 + 32 + 32 + 16 + 32 + 32;
                            if f.len() >= head + 34 && f[..8] == d {
                                let mut r = decode::Rd::new(f, head);
                                let (ta, fa, da) = (r.u64(), r.u64(), r.u8() != 0);
                                let (tb, fb, db) = (r.u64(), r.u64(), r.u8() != 0);
                                cov.probe("pinocchio_reposition_event_checked");
                                for (side, (t, fee, dir), (from_owner, mv)) in [("A", (ta, fa, da), &moved[0]), ("B", (tb, fb, db), &moved[1])] {
                                    let dir_ok = dir == *from_owner || mv.sent == 0;
                                    if t as i128 != mv.sent || fee as i128 != mv.withheld || !dir_ok {
                                        out.push(viol("event_amounts", ev.idx, format!("LiquidityRepositioned reports token {} transfer {} fee {} from_owner={} but {} moved with fee {} (from_owner={})", side, t, fee, dir, mv.sent, mv.withheld, from_owner)));
                                    }
                                }
                            }
                        }
                    }
                }
                "two_hop_swap_v2" => {
                    let a = wpix::two_hop_args(&c);
                    let legs = observe(v.ix, v.out, v.pre, v.post);
                    if legs.len() != 2 {
                        continue;
                    }
                    let (one, two) = if a.is_input { (&legs[0], &legs[1]) } else { (&legs[1], &legs[0]) };
                    if !has_fee_mint(v.pre, &one.pre) && !has_fee_mint(v.pre, &two.pre) {
                        continue;
                    }
                    let sum_in = |o: &crate::mon::swaps::SwapObs| -> u128 { o.trace.steps.iter().map(|s| s.amount_in as u128 + s.fee_amount as u128).sum() };
                    let sum_out = |o: &crate::mon::swaps::SwapObs| -> u128 { o.trace.steps.iter().map(|s| s.amount_out as u128).sum() };
                    let mint_in = c.a("token_mint_input");
                    let mint_mid = c.a("token_mint_intermediate");
                    let mint_out = c.a("token_mint_output");
                    cov.eval(format!("{}|{}|in:{}|mid:{}|out:{}", name, if a.is_input { "exactin" } else { "exactout" }, fee_class(v.pre, &mint_in, epoch), fee_class(v.pre, &mint_mid, epoch), fee_class(v.pre, &mint_out, epoch)));
                    let m_in = movement(&v, &c.a("token_owner_account_input"), &c.a("token_vault_one_input"));
                    let m_mid = movement(&v, &c.a("token_vault_one_intermediate"), &c.a("token_vault_two_intermediate"));
                    let m_out = movement(&v, &c.a("token_vault_two_output"), &c.a("token_owner_account_output"));
                    k.deposit(&mint_in, &m_in, sum_in(one), if a.is_input { Some(a.amount) } else { None }, if a.is_input { a.amount } else { a.threshold }, "input", &mut out, cov);
                    // vault to vault: charged once; pool two must receive what its leg consumed
                    if k.identity(&mint_mid, &m_mid, "intermediate", &mut out) {
                        if m_mid.sent as u128 != sum_out(one) {
                            out.push(viol("vault_paid_other_than_curve_amount", ev.idx, format!("two-hop intermediate: pool one sent {} but its leg's output is {}", m_mid.sent, sum_out(one))));
                        }
                        if (m_mid.arrived as u128) < sum_in(two) {
                            out.push(viol("vault_received_less_than_needed", ev.idx, format!("two-hop intermediate: pool two received {} but its leg consumed {}", m_mid.arrived, sum_in(two))));
                        }
                        // exact-in, leg two not stopped by its price limit: the leg is priced on exactly what arrived
                        let two_full = a.is_input && two.post.sqrt_price != crate::mon::swaps::effective_limit(a.limit_two, a.a_to_b_two);
                        if two_full && (m_mid.arrived as u128) != sum_in(two) {
                            out.push(viol("intermediate_amount_mismatch", ev.idx, format!("two-hop exact-in: pool two received {} of the intermediate token (after a transfer fee of {}) but its leg was priced on {}", m_mid.arrived, m_mid.withheld, sum_in(two))));
                        }
                    }
                    k.withdrawal(&mint_out, &m_out, sum_out(two), if a.is_input { a.threshold } else { 0 }, "output", &mut out, cov);
                    // on a copy: the same exact-in route with a minimum one above what just arrived - whatever the program
                    // then does, the trader must not end up with less than that minimum
                    if a.is_input && m_out.withheld > 0 && m_out.arrived >= 0 && v.ix.data.len() >= 24 && out.is_empty() {
                        let tight = (m_out.arrived as u64).saturating_add(1);
                        let mut ix2 = v.ix.clone();
                        ix2.data[16..24].copy_from_slice(&tight.to_le_bytes());
                        let mut f = v.pre.clone();
                        let r2 = crate::rt::exec_tx_simple(&mut f, &crate::rt::Tx { ixs: vec![ix2] });
                        cov.probe("two_hop_tight_minimum_forks");
                        let got = amt(&f, &c.a("token_owner_account_output")) - amt(v.pre, &c.a("token_owner_account_output"));
                        if r2.ok && got < tight as i128 {
                            out.push(viol("received_below_stated_minimum", ev.idx, format!("two_hop_swap_v2 exact-in with minimum output {} succeeds but the trader receives {} (the vault sent {}, transfer fee {})", tight, got, m_out.sent, m_out.withheld)));
                        }
                    }
                }
                _ => {}
            }
        }
        out
    }
}
