//! C10 — a swap crosses exactly the initialized ticks in its path, however packaged.

use crate::decode::{self, Pool};
use crate::ix;
use crate::mon::swaps::{observe, SwapObs};
use crate::rng::Rng;
use crate::rt::{self, Account, Ix, Ledger, Meta, Tx};
use crate::sim::{Coverage, IxView, Landed, Monitor, Violation};
use crate::world::scratch_key;
use crate::wpix;
use serde_json::json;
use solana_program::pubkey::Pubkey;
use std::collections::BTreeMap;

pub struct C10;

fn viol(class: &str, idx: usize, detail: String) -> Violation {
    Violation {
        property: "C10",
        class: class.to_string(),
        detail,
        event_idx: idx,
    }
}

/// abstract initialized tick set from the positions: tick -> net liquidity
fn abstract_ticks(l: &Ledger, wk: &Pubkey) -> BTreeMap<i32, i128> {
    let mut net: BTreeMap<i32, i128> = BTreeMap::new();
    let mut gross: BTreeMap<i32, u128> = BTreeMap::new();
    for (_, p) in decode::positions_of_pool(l, wk) {
        if p.liquidity == 0 {
            continue;
        }
        *net.entry(p.lower).or_insert(0) += p.liquidity as i128;
        *net.entry(p.upper).or_insert(0) -= p.liquidity as i128;
        *gross.entry(p.lower).or_insert(0) += p.liquidity;
        *gross.entry(p.upper).or_insert(0) += p.liquidity;
    }
    net.retain(|k, _| gross.get(k).cloned().unwrap_or(0) > 0);
    net
}

fn check_crossings(o: &SwapObs, pre: &Ledger, idx: usize, cov: &mut Coverage, out: &mut Vec<Violation>) {
    let ticks = abstract_ticks(pre, &o.whirlpool);
    let (t0, t1) = (o.pre.tick_current_index, o.post.tick_current_index);
    let expected: Vec<i32> = if o.a_to_b {
        ticks.keys().rev().filter(|t| t1 < **t && **t <= t0).cloned().collect()
    } else {
        ticks.keys().filter(|t| t0 < **t && **t <= t1).cloned().collect()
    };
    let got: Vec<i32> = o.trace.steps.iter().filter_map(|s| s.crossed_tick).collect();
    let shifted_start = t0 + 1 <= decode::MAX_TICK && o.pre.sqrt_price == crate::model::sqrt_price_of_tick(t0 + 1);
    let sp = o.pre.tick_spacing as i32;
    let edge = got.iter().any(|t| {
        let off = (t - crate::gen::ta_start(*t, o.pre.tick_spacing)) / sp;
        off == 0 || off == 87
    });
    cov.eval(format!(
        "{}|{}|crossed={}|shifted_start={}|edge_slot={}|sp={}|L0={}",
        o.ix_name,
        if o.a_to_b { "a2b" } else { "b2a" },
        got.len().min(5),
        shifted_start,
        edge,
        o.pre.tick_spacing,
        o.pre.liquidity == 0
    ));
    if edge {
        cov.probe("array_edge_slot_crossed");
    }
    if shifted_start {
        cov.probe("swap_started_in_shifted_state");
    }
    if got != expected {
        out.push(viol(
            "crossed_ticks",
            idx,
            format!("swap ({}) moved the current tick {} -> {}: crossed {:?} but the initialized ticks in between are {:?}", if o.a_to_b { "a_to_b" } else { "b_to_a" }, t0, t1, got, expected),
        ));
        return;
    }
    // liquidity after each crossing
    let mut liq = o.pre.liquidity;
    for s in &o.trace.steps {
        if let Some(t) = s.crossed_tick {
            let n = ticks.get(&t).cloned().unwrap_or(0);
            let exp = if o.a_to_b { (liq as i128).wrapping_sub(n) } else { (liq as i128).wrapping_add(n) } as u128;
            if s.liquidity_after_cross != exp {
                out.push(viol("liquidity_after_crossing", idx, format!("crossing tick {} changed liquidity {} -> {} but the positions bounded by it imply {}", t, liq, s.liquidity_after_cross, exp)));
                return;
            }
            liq = exp;
        }
    }
    if !got.is_empty() && out.is_empty() {
        cov.sample(json!({"ix": o.ix_name, "a_to_b": o.a_to_b, "tick_before": t0, "tick_after": t1, "crossed": got, "initialized_ticks_of_pool": ticks.keys().cloned().collect::<Vec<_>>()}));
    }
}

/// signature of everything a swap may touch on the pool side and the trader side
fn signature(l: &Ledger, wk: &Pubkey, pool: &Pool, extra: &[Pubkey], ignore: &[Pubkey]) -> Vec<(Pubkey, Vec<u8>)> {
    let mut v: Vec<(Pubkey, Vec<u8>)> = Vec::new();
    let mut keys = vec![*wk, ix::pda_oracle(wk), pool.vault_a, pool.vault_b];
    keys.extend_from_slice(extra);
    for (k, _) in decode::tick_arrays_of_pool(l, wk) {
        keys.push(k);
    }
    keys.sort();
    keys.dedup();
    for k in keys {
        if ignore.contains(&k) {
            continue;
        }
        if let Some(a) = l.get(&k) {
            let mut d = (*a.data).clone();
            d.extend_from_slice(&a.lamports.to_le_bytes());
            v.push((k, d));
        }
    }
    v
}

fn diff_sig(a: &[(Pubkey, Vec<u8>)], b: &[(Pubkey, Vec<u8>)], l: &Ledger, wk: &Pubkey) -> String {
    let mut s = String::new();
    for (k, d) in a {
        match b.iter().find(|(k2, _)| k2 == k) {
            Some((_, d2)) if d2 == d => {}
            Some((_, d2)) => {
                let first = d.iter().zip(d2.iter()).position(|(x, y)| x != y);
                s.push_str(&format!(" [{} differs at byte {:?}, len {} vs {}]", k, first, d.len(), d2.len()));
            }
            None => s.push_str(&format!(" [{} missing in variant]", k)),
        }
    }
    for (k, _) in b {
        if !a.iter().any(|(k2, _)| k2 == k) {
            s.push_str(&format!(" [{} only in variant]", k));
        }
    }
    if let Some(p) = l.data(wk).and_then(decode::pool) {
        s.push_str(&format!(" variant pool: tick {} price {} L {}", p.tick_current_index, p.sqrt_price, p.liquidity));
    }
    s
}

fn exec(l: &Ledger, ixn: Ix) -> (bool, Option<u32>, Ledger) {
    let (r, f) = exec_full(l, ixn);
    (r.ok, r.custom(), f)
}

fn exec_full(l: &Ledger, ixn: Ix) -> (rt::TxOutcome, Ledger) {
    let mut f = l.clone();
    let r = rt::exec_tx_simple(&mut f, &Tx { ixs: vec![ixn] });
    (r, f)
}

fn packagings(v: &IxView, idx: usize, salt: u64, cov: &mut Coverage, out: &mut Vec<Violation>) {
    let Some(c) = wpix::decode(v.ix) else { return };
    let name = c.name();
    if !matches!(name, "swap" | "swap_v2") {
        return;
    }
    let wk = c.a("whirlpool");
    let Some(pool) = v.pre.data(&wk).and_then(decode::pool) else { return };
    let i0 = c.idx("tick_array_0").unwrap();
    let arrays = [v.ix.accounts[i0].pubkey, v.ix.accounts[i0 + 1].pubkey, v.ix.accounts[i0 + 2].pubkey];
    let trader = [c.a("token_owner_account_a"), c.a("token_owner_account_b")];
    let base = signature(v.post, &wk, &pool, &trader, &[]);
    let mut rng = Rng::new(salt ^ 0xC10);
    let with_arrays = |arr: [Pubkey; 3]| -> Ix {
        let mut i = v.ix.clone();
        for k in 0..3 {
            i.accounts[i0 + k].pubkey = arr[k];
        }
        i
    };
    // 0. the same ticks in the other encoding: every existing array of the swap is rewritten fixed <-> dynamic on a copy
    //    (a random subset of them); the outcome - pool, vaults, trader and the decoded tick contents - must be the same
    {
        let mut f = v.pre.clone();
        let mut flipped = 0;
        let mut uniq: Vec<Pubkey> = Vec::new();
        for k in arrays.iter().chain(c.remaining().iter().map(|m| &m.pubkey)) {
            if !uniq.contains(k) {
                uniq.push(*k);
            }
        }
        for k in &uniq {
            if let Some(a) = v.pre.get(k).cloned() {
                if a.owner != ix::wp() {
                    continue;
                }
                if let Ok(ta) = decode::tick_array(&a.data) {
                    if ta.whirlpool == wk && (rng.chance(2, 3) || flipped == 0) {
                        let d = decode::reencode_tick_array(&ta);
                        let lam = a.lamports.max(crate::world::rent_min(decode::FIXED_TA_LEN));
                        f.put(*k, crate::rt::Account::new(lam, d, a.owner));
                        flipped += 1;
                    }
                }
            }
        }
        if flipped > 0 {
            let (r, f2) = exec_full(&f, v.ix.clone());
            cov.probe("packaging_other_encoding");
            cov.eval(format!("{}|other_encoding|flipped={}|ok={}", name, flipped, r.ok));
            let contents = |l: &Ledger| -> Vec<Option<Vec<decode::Tick>>> { uniq.iter().map(|k| l.data(k).and_then(|d| decode::tick_array(d).ok()).map(|t| t.ticks)).collect() };
            let outside = |l: &Ledger| signature(l, &wk, &pool, &trader, &uniq).into_iter().filter(|(k, _)| !uniq.contains(k) && decode::tick_array(l.data(k).unwrap_or(&[])).is_err()).collect::<Vec<_>>();
            if !r.ok {
                out.push(viol("encoding_changes_outcome", idx, format!("{} fails (code {:?}) when {} of its tick arrays hold the same ticks in the other encoding (fixed <-> dynamic), although it succeeds as it is", name, r.custom(), flipped)));
                return;
            }
            if contents(&f2) != contents(v.post) || outside(&f2) != outside(v.post) {
                out.push(viol("encoding_changes_outcome", idx, format!("{} leaves a different pool / vault / trader state or different tick contents when {} of its tick arrays hold the same ticks in the other encoding (fixed <-> dynamic)", name, flipped)));
                return;
            }
        }
    }
    // 1. every order of the three arrays
    let perms: [[usize; 3]; 5] = [[0, 2, 1], [1, 0, 2], [1, 2, 0], [2, 0, 1], [2, 1, 0]];
    let p = perms[rng.idx(5)];
    let (ok, code, f) = exec(v.pre, with_arrays([arrays[p[0]], arrays[p[1]], arrays[p[2]]]));
    cov.probe("packaging_permutation");
    if !ok || signature(&f, &wk, &pool, &trader, &[]) != base {
        out.push(viol("permutation_changes_outcome", idx, format!("{} with its tick arrays in order {:?}: ok={} code={:?}, result differs from the original order", name, p, ok, code)));
        return;
    }
    // 2. duplication / omission. The swap then sees a shorter array sequence: it must fail when the
    //    sequence does not reach far enough, and a success (which may legitimately differ by the
    //    rounding of the extra step boundary at the end of the last supplied array) must still have
    //    crossed exactly the initialized ticks in its own path - liquidity is never skipped.
    let variants: [[usize; 3]; 8] = [[0, 0, 1], [0, 1, 1], [0, 0, 0], [0, 1, 0], [1, 2, 2], [0, 2, 2], [2, 0, 0], [2, 2, 1]];
    let d = variants[rng.idx(8)];
    let ixv = with_arrays([arrays[d[0]], arrays[d[1]], arrays[d[2]]]);
    let (r, f) = exec_full(v.pre, ixv.clone());
    cov.probe("packaging_duplicate_or_omit");
    if r.ok {
        let same = signature(&f, &wk, &pool, &trader, &[]) == base;
        if !same {
            cov.probe("packaging_omission_different_success");
        }
        for o in observe(&ixv, &r.ix_outcomes[0], v.pre, &f) {
            let before = out.len();
            check_crossings(&o, v.pre, idx, cov, out);
            if out.len() > before {
                for x in out[before..].iter_mut() {
                    x.class = format!("omission_{}", x.class);
                    x.detail = format!("with tick arrays {:?} (duplicated / omitted): {}", d, x.detail);
                }
                return;
            }
        }
    } else {
        cov.probe("packaging_omission_rejected");
    }
    // 3. supplemental arrays (v2): the right arrays only as supplemental, main slots hold other arrays of the pool
    let a_to_b = wpix::swap_args(&c).a_to_b;
    let canonical = crate::gen::swap_tick_arrays(&pool, &wk, a_to_b);
    let is_canonical = canonical.iter().all(|k| arrays.contains(k)) || {
        // fewer than three valid start indexes near the protocol bounds: skip
        false
    };
    if name == "swap_v2" && c.remaining().is_empty() && is_canonical {
        let others: Vec<Pubkey> = decode::tick_arrays_of_pool(v.pre, &wk).into_iter().map(|(k, _)| k).filter(|k| !arrays.contains(k) && !canonical.contains(k)).collect();
        let mut i = v.ix.clone();
        // re-encode data with remaining_accounts_info = Some([SupplementalTickArrays x n])
        let mut data = v.ix.data[..v.ix.data.len() - 1].to_vec();
        let mut supp: Vec<Pubkey> = arrays.to_vec();
        if !others.is_empty() && rng.chance(1, 2) {
            // main slots: irrelevant arrays; supplemental: the real ones
            for k in 0..3 {
                i.accounts[i0 + k].pubkey = others[rng.idx(others.len())];
            }
        } else if !others.is_empty() {
            // main slots as they are; supplemental: irrelevant extras
            supp = vec![others[rng.idx(others.len())]];
        } else {
            supp = vec![arrays[2], arrays[0]];
        }
        supp.truncate(3);
        data.push(1); // Some
        data.extend_from_slice(&1u32.to_le_bytes());
        data.push(6); // AccountsType::SupplementalTickArrays
        data.push(supp.len() as u8);
        i.data = data;
        for k in &supp {
            i.accounts.push(Meta { pubkey: *k, is_signer: false, is_writable: true });
        }
        let i_ro = {
            // the same packaging with the supplemental arrays offered read-only: the swap may refuse them, but it must not
            // go through with a different result (an array that cannot be written must not be taken for an absent one)
            let mut x = i.clone();
            let n = x.accounts.len();
            for m in x.accounts[n - supp.len()..].iter_mut() {
                m.is_writable = false;
            }
            x
        };
        let i_empty_first = {
            // the same packaging once more, with an empty slice of another (accepted) type listed in front of the supplemental
            // arrays: "no accounts of that kind" says nothing about the slices behind it
            let mut x = i.clone();
            let mut d = v.ix.data[..v.ix.data.len() - 1].to_vec();
            d.push(1);
            d.extend_from_slice(&2u32.to_le_bytes());
            d.push((salt % 2) as u8); // AccountsType::TransferHookA / TransferHookB
            d.push(0);
            d.push(6);
            d.push(supp.len() as u8);
            x.data = d;
            x
        };
        let (ok, code, f) = exec(v.pre, i);
        cov.probe("packaging_supplemental");
        if !ok || signature(&f, &wk, &pool, &trader, &[]) != base {
            out.push(viol("supplemental_changes_outcome", idx, format!("swap_v2 with supplemental tick arrays: ok={} code={:?}, result differs:{}", ok, code, diff_sig(&base, &signature(&f, &wk, &pool, &trader, &[]), &f, &wk))));
            return;
        }
        let (ok, code, f) = exec(v.pre, i_empty_first);
        cov.probe("packaging_supplemental_behind_an_empty_slice");
        if !ok || signature(&f, &wk, &pool, &trader, &[]) != base {
            out.push(viol("supplemental_changes_outcome", idx, format!("swap_v2 with supplemental tick arrays listed behind an empty slice of another type: ok={} code={:?}, result differs:{}", ok, code, diff_sig(&base, &signature(&f, &wk, &pool, &trader, &[]), &f, &wk))));
            return;
        }
        let (ok, code, f) = exec(v.pre, i_ro);
        cov.probe("packaging_supplemental_read_only");
        cov.eval(format!("swap_v2|supplemental_read_only|ok={}", ok));
        if ok && signature(&f, &wk, &pool, &trader, &[]) != base {
            out.push(viol("supplemental_changes_outcome", idx, format!("swap_v2 with read-only supplemental tick arrays succeeds (code {:?}) with a different result:{}", code, diff_sig(&base, &signature(&f, &wk, &pool, &trader, &[]), &f, &wk))));
            return;
        }
    }
    // 4. exist-vs-named: arrays of the path that do not exist are created empty on the fork
    let missing: Vec<Pubkey> = arrays.iter().filter(|k| !v.pre.exists(k)).cloned().collect();
    if !missing.is_empty() {
        // 4a. somebody sent lamports to the address of a merely named array: still no tick array there, same result
        let mut f0 = v.pre.clone();
        for k in &missing {
            f0.put(*k, crate::rt::Account::new(890_880 + (salt % 1000), vec![], ix::sys()));
        }
        let (ok, code, f) = exec(&f0, v.ix.clone());
        cov.probe("packaging_named_array_address_prefunded");
        if !ok || signature(&f, &wk, &pool, &trader, &missing) != signature(v.post, &wk, &pool, &trader, &missing) {
            out.push(viol("prefunded_array_address_changes_outcome", idx, format!("{} gives a different result when the addresses of its merely named arrays {:?} hold lamports (system-owned, no data): ok={} code={:?}", name, missing, ok, code)));
            return;
        }
        // find the start index of a missing array by matching PDAs around the current tick
        let n = 88 * pool.tick_spacing as i32;
        let b = crate::gen::ta_start(pool.tick_current_index, pool.tick_spacing);
        let mut f0 = v.pre.clone();
        let funder = scratch_key(salt, 5001);
        crate::world::fund(&mut f0, &funder, 1 << 34);
        let mut created = Vec::new();
        for o in -4..=4 {
            let s = b + o * n;
            let k = ix::pda_tick_array(&wk, s);
            if missing.contains(&k) {
                let ixn = if rng.chance(1, 2) { ix::initialize_tick_array(&wk, &funder, s) } else { ix::initialize_dynamic_tick_array(&wk, &funder, s, false) };
                if rt::exec_tx_simple(&mut f0, &Tx { ixs: vec![ixn] }).ok {
                    created.push(k);
                }
            }
        }
        if !created.is_empty() {
            let (ok, code, f) = exec(&f0, v.ix.clone());
            cov.probe("packaging_named_vs_existing_empty");
            if !ok || signature(&f, &wk, &pool, &trader, &created) != base {
                out.push(viol("existing_empty_array_changes_outcome", idx, format!("{} gives a different result when the merely named arrays {:?} exist as empty arrays: ok={} code={:?}", name, created, ok, code)));
                return;
            }
        }
    }
    // 5. the reverse: arrays of the path that exist but hold no initialized tick are taken away on the fork
    //    (the swap then sees them as merely named addresses); the result must be the same
    {
        let empty: Vec<Pubkey> = arrays
            .iter()
            .filter(|k| v.pre.data(k).and_then(|d| decode::tick_array(d).ok()).map(|t| t.ticks.iter().all(|x| !x.initialized)).unwrap_or(false))
            .cloned()
            .collect();
        if !empty.is_empty() {
            let mut f0 = v.pre.clone();
            let mut removed: Vec<Pubkey> = Vec::new();
            for k in &empty {
                if removed.contains(k) {
                    continue;
                }
                if removed.is_empty() || rng.chance(2, 3) {
                    f0.accts.remove(k);
                    removed.push(*k);
                }
            }
            let (ok, code, f) = exec(&f0, v.ix.clone());
            cov.probe("packaging_existing_empty_vs_named");
            if !ok || signature(&f, &wk, &pool, &trader, &removed) != signature(v.post, &wk, &pool, &trader, &removed) {
                out.push(viol("named_only_array_changes_outcome", idx, format!("{} gives a different result when its empty tick arrays {:?} do not exist on-chain and are merely named: ok={} code={:?}", name, removed, ok, code)));
                return;
            }
        }
    }
    // 6. an array of another pool must be rejected
    if let Some(src) = arrays.iter().find(|k| v.pre.data(k).map(|d| decode::tick_array(d).is_ok()).unwrap_or(false)) {
        let mut f0 = v.pre.clone();
        let a = f0.get(src).unwrap().clone();
        let mut d = (*a.data).clone();
        let other_pool = scratch_key(salt, 5002);
        if decode::is_kind(&d, "TickArray") && d.len() == decode::FIXED_TA_LEN {
            let n = d.len();
            d[n - 32..].copy_from_slice(other_pool.as_ref());
        } else if d.len() >= 44 {
            d[12..44].copy_from_slice(other_pool.as_ref());
        }
        let fk = scratch_key(salt, 5003);
        f0.put(fk, Account { lamports: a.lamports, data: std::rc::Rc::new(d), owner: a.owner, executable: false });
        let slot = rng.idx(3);
        let mut arr = arrays;
        arr[slot] = fk;
        let (ok, code, _) = exec(&f0, with_arrays(arr));
        cov.probe("packaging_foreign_array");
        if ok {
            out.push(viol("foreign_array_accepted", idx, format!("{} accepted a tick array of another pool in slot {}", name, slot)));
        } else if code != Some(6056) {
            cov.note(&format!("c10_foreign_array_rejected_with:{:?}", code));
        }
    }
}

impl Monitor for C10 {
    fn name(&self) -> &'static str {
        "C10"
    }
    fn on_landed(&mut self, ev: &Landed, cov: &mut Coverage) -> Vec<Violation> {
        let mut out = Vec::new();
        for v in ev.ix_views() {
            let Some(c) = wpix::decode(v.ix) else { continue };
            if !matches!(c.name(), "swap" | "swap_v2" | "two_hop_swap" | "two_hop_swap_v2") {
                continue;
            }
            for o in observe(v.ix, v.out, v.pre, v.post) {
                check_crossings(&o, v.pre, ev.idx, cov, &mut out);
            }
            if out.is_empty() && ev.salt % 2 == 0 && ev.tx.ixs.len() == 1 {
                packagings(&v, ev.idx, ev.salt, cov, &mut out);
            }
            // two-hop routes: extra supplemental arrays for either or both pools must not change the outcome
            if out.is_empty() && c.name() == "two_hop_swap_v2" && ev.tx.ixs.len() == 1 {
                let mut o17 = Vec::new();
                crate::mon::c17::supplemental_lists(v.ix, v.pre, v.post, ev.salt, ev.idx, cov, &mut o17);
                for mut x in o17 {
                    x.property = "C10";
                    out.push(x);
                }
            }
        }
        out
    }
}
