//! C20 — SDK quotes equal what the program executes on the same state (reached states).
//! The Rust core SDK (built against an ethnum shim) is fed with facades built from the ledger
//! at the pre-state of every landed swap / liquidity instruction.

use crate::decode::{self, Pool};
use crate::gen::ta_start;
use crate::mon::swaps::observe;
use crate::rt::Ledger;
use crate::sim::{Coverage, Landed, Monitor, Violation};
use crate::world::{token_amount, transfer_fee_params};
use crate::wpix;
use num_traits::ToPrimitive;
use orca_whirlpools_core as sdk;
use serde_json::json;
use solana_program::pubkey::Pubkey;

pub struct C20;

fn viol(class: &str, idx: usize, detail: String) -> Violation {
    Violation {
        property: "C20",
        class: class.to_string(),
        detail,
        event_idx: idx,
    }
}

fn pool_facade(p: &Pool) -> sdk::WhirlpoolFacade {
    sdk::WhirlpoolFacade {
        fee_tier_index_seed: p.fee_tier_index_seed,
        tick_spacing: p.tick_spacing,
        fee_rate: p.fee_rate,
        protocol_fee_rate: p.protocol_fee_rate,
        liquidity: p.liquidity,
        sqrt_price: p.sqrt_price,
        tick_current_index: p.tick_current_index,
        fee_growth_global_a: p.fee_growth_global_a,
        fee_growth_global_b: p.fee_growth_global_b,
        reward_last_updated_timestamp: p.reward_last_updated_timestamp,
        reward_infos: [0, 1, 2].map(|i| sdk::WhirlpoolRewardInfoFacade {
            emissions_per_second_x64: p.rewards[i].emissions_per_second_x64,
            growth_global_x64: p.rewards[i].growth_global_x64,
        }),
    }
}

fn array_facade(l: &Ledger, key: &Pubkey, start: i32) -> sdk::TickArrayFacade {
    let mut f = sdk::TickArrayFacade {
        start_tick_index: start,
        ticks: [sdk::TickFacade::default(); 88],
    };
    if let Some(Ok(ta)) = l.data(key).map(decode::tick_array) {
        f.start_tick_index = ta.start;
        for (i, t) in ta.ticks.iter().enumerate() {
            f.ticks[i] = sdk::TickFacade {
                initialized: t.initialized,
                liquidity_net: t.liquidity_net,
                liquidity_gross: t.liquidity_gross,
                fee_growth_outside_a: t.fee_growth_outside_a,
                fee_growth_outside_b: t.fee_growth_outside_b,
                reward_growths_outside: t.reward_growths_outside,
            };
        }
    }
    f
}

fn oracle_facade(l: &Ledger, wk: &Pubkey) -> Option<sdk::OracleFacade> {
    let o = l.data(&crate::ix::pda_oracle(wk)).and_then(decode::oracle)?;
    Some(sdk::OracleFacade {
        trade_enable_timestamp: o.trade_enable_timestamp,
        adaptive_fee_constants: sdk::AdaptiveFeeConstantsFacade {
            filter_period: o.c.filter_period,
            decay_period: o.c.decay_period,
            reduction_factor: o.c.reduction_factor,
            adaptive_fee_control_factor: o.c.adaptive_fee_control_factor,
            max_volatility_accumulator: o.c.max_volatility_accumulator,
            tick_group_size: o.c.tick_group_size,
            major_swap_threshold_ticks: o.c.major_swap_threshold_ticks,
        },
        adaptive_fee_variables: sdk::AdaptiveFeeVariablesFacade {
            last_reference_update_timestamp: o.v.last_reference_update_timestamp,
            last_major_swap_timestamp: o.v.last_major_swap_timestamp,
            volatility_reference: o.v.volatility_reference,
            tick_group_index_reference: o.v.tick_group_index_reference,
            volatility_accumulator: o.v.volatility_accumulator,
        },
    })
}

/// the canonical start indexes the program would use (to give merely-named arrays a start index)
fn canonical_starts(p: &Pool, a_to_b: bool) -> [i32; 3] {
    let n = 88 * p.tick_spacing as i32;
    let base = ta_start(p.tick_current_index, p.tick_spacing);
    let offs: [i32; 3] = if a_to_b {
        [0, -1, -2]
    } else if p.tick_current_index + p.tick_spacing as i32 >= base + n {
        [1, 2, 3]
    } else {
        [0, 1, 2]
    };
    [base + offs[0] * n, base + offs[1] * n, base + offs[2] * n]
}

fn sdk_fee(l: &Ledger, mint: &Pubkey, epoch: u64) -> Option<sdk::TransferFee> {
    transfer_fee_params(l, mint, epoch).map(|(bps, max)| sdk::TransferFee { fee_bps: bps, max_fee: max })
}

impl Monitor for C20 {
    fn name(&self) -> &'static str {
        "C20"
    }
    fn on_landed(&mut self, ev: &Landed, cov: &mut Coverage) -> Vec<Violation> {
        let mut out = Vec::new();
        let now = ev.clock.unix_timestamp.max(0) as u64;
        let views: Vec<(&crate::rt::Ix, &Ledger, Option<&Ledger>, Option<&crate::rt::IxOutcome>, Option<u32>)> = if ev.out.ok {
            ev.ix_views().into_iter().map(|v| (v.ix, v.pre, Some(v.post), Some(v.out), None)).collect()
        } else if ev.tx.ixs.len() == 1 && ev.fail_cpi.is_none() {
            vec![(&ev.tx.ixs[0], ev.pre, None, None, ev.out.custom())]
        } else {
            Vec::new()
        };
        // far-reference copies: every fourth executed swap on an adaptive-fee pool is run once more on a copy of its
        // pre-state in which the adaptive-fee variables say "the last major move was just now and started far away"
        // (reference tick group at the far end of the tick range, or just either side of the distance at which reference +
        // distance x 10 000 passes 2^32; both timestamps = now, so the reference is not refreshed). Such a state is what one
        // gigantic move inside a filter period leaves behind; the program and the SDK are compared on it like on any other.
        struct Far {
            pre: Ledger,
            post: Option<Ledger>,
            io: Option<crate::rt::IxOutcome>,
            code: Option<u32>,
            dist: i64,
        }
        let mut far: Vec<(usize, Far)> = Vec::new();
        if ev.out.ok && ev.salt % 4 == 0 {
            for (vi, (ixn, pre, _, _, _)) in views.iter().enumerate() {
                let Some(c) = wpix::decode(ixn) else { continue };
                if !matches!(c.name(), "swap" | "swap_v2") {
                    continue;
                }
                let wk = c.a("whirlpool");
                let ok_key = crate::ix::pda_oracle(&wk);
                let (Some(pool), Some(o)) = (pre.data(&wk).and_then(decode::pool), pre.data(&ok_key).and_then(decode::oracle)) else { continue };
                if o.c.tick_group_size == 0 {
                    continue;
                }
                let g = o.c.tick_group_size as i32;
                let idx = pool.tick_current_index.div_euclid(g) as i64;
                let (lo, hi) = (decode::MIN_TICK.div_euclid(g) as i64, decode::MAX_TICK.div_euclid(g) as i64);
                let (far_idx, sign) = if hi - idx >= idx - lo { (hi, 1i64) } else { (lo, -1i64) };
                let wrap = ((1u64 << 32) - o.v.volatility_reference as u64).div_ceil(10_000) as i64;
                let want = match (ev.salt / 4) % 3 {
                    0 => (far_idx - idx).abs(),
                    1 => wrap + ((ev.salt / 12) % 40) as i64,
                    _ => wrap - 1 - ((ev.salt / 12) % 3) as i64,
                };
                let dist = want.min((far_idx - idx).abs()).max(0);
                let reference = idx + sign * dist;
                let mut f = (*pre).clone();
                let Some(acct) = f.accts.get(&ok_key).cloned() else { continue };
                let mut d = (*acct.data).clone();
                d[82..90].copy_from_slice(&now.to_le_bytes());
                d[90..98].copy_from_slice(&now.to_le_bytes());
                d[102..106].copy_from_slice(&(reference as i32).to_le_bytes());
                let acc = (o.v.volatility_reference as u64 + dist as u64 * 10_000).min(o.c.max_volatility_accumulator as u64) as u32;
                d[106..110].copy_from_slice(&acc.to_le_bytes());
                f.put(ok_key, crate::rt::Account { data: std::rc::Rc::new(d), ..acct });
                let pre_f = f.clone();
                let mut r = crate::rt::exec_tx_simple(&mut f, &crate::rt::Tx { ixs: vec![(*ixn).clone()] });
                cov.probe("far_reference_copies");
                if dist >= wrap {
                    cov.probe("far_reference_copies_past_the_32_bit_distance");
                }
                if r.ok {
                    cov.probe("far_reference_copies_executed");
                    far.push((vi, Far { pre: pre_f, post: Some(f), io: r.ix_outcomes.pop(), code: None, dist }));
                } else {
                    let code = r.custom();
                    far.push((vi, Far { pre: pre_f, post: None, io: None, code, dist }));
                }
            }
        }
        let n_real = views.len();
        let mut views = views;
        let mut far_dist: Vec<i64> = Vec::new();
        for (vi, fr) in &far {
            let ixn = views[*vi].0;
            views.push((ixn, &fr.pre, fr.post.as_ref(), fr.io.as_ref(), fr.code));
            far_dist.push(fr.dist);
        }
        let mut first_far_violation: Option<usize> = None;
        'views: for (vno, (ixn, pre, post, io, code)) in views.into_iter().enumerate() {
            if vno >= n_real {
                if first_far_violation.is_none() {
                    if !out.is_empty() {
                        break;
                    }
                    first_far_violation = Some(0);
                }
                if !out.is_empty() {
                    break;
                }
            }
            let Some(c) = wpix::decode(ixn) else { continue };
            let name = c.name();
            match name {
                "swap" | "swap_v2" => {
                    let a = wpix::swap_args(&c);
                    let wk = c.a("whirlpool");
                    let Some(pool) = pre.data(&wk).and_then(decode::pool) else { continue };
                    // the three supplied arrays, merely-named ones as zeroed facades at their canonical start
                    let starts = canonical_starts(&pool, a.a_to_b);
                    // (v2: supplemental tick arrays in the remaining accounts are part of what the program sees)
                    let mut keys = vec![c.a("tick_array_0"), c.a("tick_array_1"), c.a("tick_array_2")];
                    keys.extend(c.remaining().iter().map(|m| m.pubkey));
                    let mut arrays: Vec<sdk::TickArrayFacade> = Vec::new();
                    let mut complete = true;
                    for s in starts {
                        let pda = crate::ix::pda_tick_array(&wk, s);
                        if keys.contains(&pda) {
                            arrays.push(array_facade(pre, &pda, s));
                        } else {
                            complete = false;
                            break;
                        }
                    }
                    if arrays.is_empty() {
                        continue;
                    }
                    let mut seq: [Option<sdk::TickArrayFacade>; 3] = [None, None, None];
                    for (i, f) in arrays.iter().enumerate() {
                        seq[i] = Some(*f);
                    }
                    let oracle = oracle_facade(pre, &wk);
                    let adaptive: Option<sdk::AdaptiveFeeInfo> = oracle.map(|o| o.into());
                    let Ok(ts) = sdk::TickArraySequence::<3>::new(seq, pool.tick_spacing) else { continue };
                    if let Some(o) = pre.data(&crate::ix::pda_oracle(&wk)).and_then(decode::oracle) {
                        if o.c.tick_group_size > 0 {
                            let (_, class) = crate::mon::c14::model_reference(&o.v, &o.c, 0, now);
                            cov.probe(&format!("quoted_on_reference_state_{}", class));
                        }
                    }
                    // swaps before the trade-enable time are refused by the program regardless of the quote
                    let enabled = oracle.map(|o| o.trade_enable_timestamp <= now).unwrap_or(true);
                    // the SDK panics are failures of the SDK
                    // ... and an SDK that does not come back at all (a loop that never ends) is one too
                    let (amt_c, lim_c, pf_c, atb_c, inp_c) = (a.amount_for_curve(pre, &pool, ev.clock.epoch), a.limit, pool_facade(&pool), a.a_to_b, a.is_input);
                    let r = crate::rt::guarded_with_deadline(20, move || sdk::compute_swap(amt_c, lim_c, pf_c, ts, atb_c, inp_c, now, adaptive));
                    let r = match r {
                        Ok(x) => x,
                        Err(Some(())) => Err("SDK panicked"),
                        Err(None) => {
                            out.push(viol("sdk_does_not_return", ev.idx, format!("{} ({} {} amount {} limit {}): the SDK's compute_swap has not returned after 20 seconds (the program {})", name, if a.a_to_b { "a_to_b" } else { "b_to_a" }, if a.is_input { "exact-in" } else { "exact-out" }, a.amount, a.limit, if post.is_some() { "executed the swap" } else { "refused it" })));
                            break 'views;
                        }
                    };
                    cov.eval(format!("{}|{}|{}|program_ok={}|sdk_ok={}|adaptive={}|complete={}|limit={}", name, if a.a_to_b { "a2b" } else { "b2a" }, if a.is_input { "in" } else { "out" }, post.is_some(), r.is_ok(), adaptive.is_some(), complete, a.limit != 0));
                    if let (Some(post), Some(io)) = (post, io) {
                        let obs = observe(ixn, io, pre, post);
                        let Some(o) = obs.first() else { continue };
                        let sum_in: u128 = o.trace.steps.iter().map(|s| s.amount_in as u128 + s.fee_amount as u128).sum();
                        let sum_out: u128 = o.trace.steps.iter().map(|s| s.amount_out as u128).sum();
                        let sum_fee: u128 = o.trace.steps.iter().map(|s| s.fee_amount as u128).sum();
                        match r {
                            Err(e) => out.push(viol("sdk_fails_where_program_succeeds", ev.idx, format!("{} ({} {} amount {} limit {}) succeeded on chain but the SDK says `{}`", name, if a.a_to_b { "a_to_b" } else { "b_to_a" }, if a.is_input { "exact-in" } else { "exact-out" }, a.amount, a.limit, e))),
                            Ok(q) => {
                                let (q_in, q_out) = if a.a_to_b { (q.token_a, q.token_b) } else { (q.token_b, q.token_a) };
                                if q_in as u128 != sum_in || q_out as u128 != sum_out || q.trade_fee as u128 != sum_fee {
                                    out.push(viol("sdk_amounts_differ", ev.idx, format!("{} ({} {} amount {} limit {}): program in {} out {} fee {}; SDK in {} out {} fee {}", name, if a.a_to_b { "a_to_b" } else { "b_to_a" }, if a.is_input { "exact-in" } else { "exact-out" }, a.amount, a.limit, sum_in, sum_out, sum_fee, q_in, q_out, q.trade_fee)));
                                } else {
                                    cov.probe("swap_quote_equal_to_execution");
                                    if adaptive.is_some() {
                                        cov.probe("adaptive_fee_quote_equal_to_execution");
                                    }
                                    if sum_in > 0 {
                                        cov.sample(json!({"ix": name, "a_to_b": a.a_to_b, "exact_in": a.is_input, "amount": a.amount, "limit": a.limit.to_string(), "program": [sum_in.to_string(), sum_out.to_string(), sum_fee.to_string()], "sdk": [q_in, q_out, q.trade_fee], "adaptive": adaptive.is_some()}));
                                    }
                                }
                                // token-amount-for-liquidity functions on the arguments of every executed step
                                for st in &o.trace.steps {
                                    if st.sqrt_price_next == st.sqrt_price_start {
                                        continue;
                                    }
                                    let (din, dout) = if o.a_to_b {
                                        (sdk::try_get_amount_delta_a(st.sqrt_price_start, st.sqrt_price_next, st.liquidity, true), sdk::try_get_amount_delta_b(st.sqrt_price_start, st.sqrt_price_next, st.liquidity, false))
                                    } else {
                                        (sdk::try_get_amount_delta_b(st.sqrt_price_start, st.sqrt_price_next, st.liquidity, true), sdk::try_get_amount_delta_a(st.sqrt_price_start, st.sqrt_price_next, st.liquidity, false))
                                    };
                                    cov.probe("sdk_amount_delta_checked_on_step");
                                    let out_ok = match dout {
                                        Ok(x) => x == st.amount_out || (!o.is_input && x >= st.amount_out),
                                        Err(_) => false,
                                    };
                                    if din != Ok(st.amount_in) || !out_ok {
                                        out.push(viol("sdk_amount_delta_differs", ev.idx, format!("step {} -> {} L={}: program in {} out {}; SDK deltas in {:?} out {:?}", st.sqrt_price_start, st.sqrt_price_next, st.liquidity, st.amount_in, st.amount_out, din, dout)));
                                        break;
                                    }
                                }
                                // fee rate range reported by the SDK covers the rates charged
                                let rmin = o.trace.steps.iter().map(|s| s.total_fee_rate).min().unwrap_or(0);
                                let rmax = o.trace.steps.iter().map(|s| s.total_fee_rate).max().unwrap_or(0);
                                if !o.trace.steps.is_empty() && (q.applied_fee_rate_min != rmin || q.applied_fee_rate_max != rmax) {
                                    cov.note("c20_fee_rate_range_differs");
                                }
                            }
                        }
                    } else if let Ok(q) = r {
                        // the program refused: the SDK may have a number only for a partial exact-out fill or for
                        // running off the supplied arrays (and for reasons outside the quote: thresholds, funds, enable time)
                        let quote_level = matches!(code, Some(6011) | Some(6034) | Some(6035));
                        if quote_level && enabled {
                            out.push(viol("sdk_quotes_what_program_rejects", ev.idx, format!("{} rejected by the program with {:?} but the SDK quotes a {} / b {}", name, code, q.token_a, q.token_b)));
                        } else {
                            cov.probe("program_refused_sdk_quoted_allowed_reason");
                        }
                    }
                    // quote functions (no explicit limit): slippage on the safe side, transfer fees
                    if a.limit == 0 && post.is_some() {
                        let fa = sdk_fee(pre, &pool.mint_a, ev.clock.epoch);
                        let fb = sdk_fee(pre, &pool.mint_b, ev.clock.epoch);
                        let slip = (ev.salt % 1000) as u16;
                        let tas: sdk::TickArrays = match arrays.len() {
                            1 => sdk::TickArrays::One(arrays[0]),
                            2 => sdk::TickArrays::Two(arrays[0], arrays[1]),
                            _ => sdk::TickArrays::Three(arrays[0], arrays[1], arrays[2]),
                        };
                        // the SDK's own swap helper hands the quote FIVE arrays - the current one, two above, two below - through
                        // the array conversion: the same quote must come out of that packaging (the three arrays the program was
                        // given are among the five)
                        if complete && arrays.len() == 3 {
                            let mk_tas = || sdk::TickArrays::Three(arrays[0], arrays[1], arrays[2]);
                            let width = 88 * pool.tick_spacing as i32;
                            let cur = pool.tick_current_index.div_euclid(width) * width;
                            let lowest = decode::MIN_TICK.div_euclid(width) * width;
                            let five_starts = [cur, cur + width, cur + 2 * width, cur - width, cur - 2 * width];
                            // (only when the five cover what the program was given: with the price in the last slots of an array
                            // an upward swap starts one array further up and may need a third array above)
                            if five_starts.iter().all(|s| *s >= lowest && *s <= decode::MAX_TICK) && arrays.iter().all(|f| five_starts.contains(&f.start_tick_index)) {
                                let five: [sdk::TickArrayFacade; 5] = std::array::from_fn(|i| array_facade(pre, &crate::ix::pda_tick_array(&wk, five_starts[i]), five_starts[i]));
                                let tas5: sdk::TickArrays = five.into();
                                let (q3, q5): (Option<(u64, u64)>, Option<(u64, u64)>) = if a.is_input {
                                    let f = |t: sdk::TickArrays| crate::rt::guarded(|| sdk::swap_quote_by_input_token(a.amount, a.a_to_b, slip, pool_facade(&pool), oracle, t, now, fa, fb)).ok().and_then(|r| r.ok()).map(|q| (q.token_in, q.token_est_out));
                                    (f(mk_tas()), f(tas5))
                                } else {
                                    let f = |t: sdk::TickArrays| crate::rt::guarded(|| sdk::swap_quote_by_output_token(a.amount, !a.a_to_b, slip, pool_facade(&pool), oracle, t, now, fa, fb)).ok().and_then(|r| r.ok()).map(|q| (q.token_est_in, q.token_out));
                                    (f(mk_tas()), f(tas5))
                                };
                                cov.probe("quote_with_five_arrays_compared");
                                if q3.is_some() && q3 != q5 {
                                    out.push(viol("sdk_quote_depends_on_the_array_packaging", ev.idx, format!("{} ({} {} amount {}): the quote over the three arrays the program was given is {:?}, over the SDK helper's five arrays (current, +1, +2, -1, -2) it is {:?}", name, if a.a_to_b { "a_to_b" } else { "b_to_a" }, if a.is_input { "exact-in" } else { "exact-out" }, a.amount, q3, q5)));
                                    break 'views;
                                }
                            }
                        }
                        let post = post.unwrap();
                        let (uin, uout) = if a.a_to_b { (c.a("token_owner_account_a"), c.a("token_owner_account_b")) } else { (c.a("token_owner_account_b"), c.a("token_owner_account_a")) };
                        let paid = token_amount(pre, &uin) as i128 - token_amount(post, &uin) as i128;
                        let got = token_amount(post, &uout) as i128 - token_amount(pre, &uout) as i128;
                        if a.is_input {
                            let q = crate::rt::guarded((|| sdk::swap_quote_by_input_token(a.amount, a.a_to_b, slip, pool_facade(&pool), oracle, tas, now, fa, fb)));
                            match q {
                                Ok(Ok(q)) => {
                                    if q.token_min_out > q.token_est_out {
                                        out.push(viol("slippage_on_wrong_side", ev.idx, format!("min out {} > estimated out {}", q.token_min_out, q.token_est_out)));
                                    }
                                    if q.token_in as i128 != paid {
                                        // the specified side is echoed through reverse(apply(x)), which is not the identity on
                                        // fee plateaus; the program charges the specified amount. Not part of the property
                                        // (it constrains the swap computation); recorded as an observation - for an input token
                                        // that carries a transfer fee only: without one nothing is echoed through anything, and
                                        // what the quote says goes in is what the program takes (e.g. less than specified when
                                        // the price runs into the end of the range)
                                        let input_fee = if a.a_to_b { fa } else { fb };
                                        if input_fee.is_some() {
                                            cov.note("c20_exact_in_quote_echoes_smaller_token_in_than_charged");
                                        } else {
                                            out.push(viol("sdk_quote_differs", ev.idx, format!("swap_quote_by_input_token says {} go in, the program took {} (specified {}, no transfer fee on the input token)", q.token_in, paid, a.amount)));
                                        }
                                    }
                                    if q.token_est_out as i128 != got {
                                        out.push(viol("sdk_quote_differs", ev.idx, format!("swap_quote_by_input_token: quote in {} est out {}; executed paid {} received {} (fees a {:?} b {:?})", q.token_in, q.token_est_out, paid, got, fa.map(|f| (f.fee_bps, f.max_fee)), fb.map(|f| (f.fee_bps, f.max_fee)))));
                                    } else {
                                        cov.probe("exact_in_quote_equal_to_balances");
                                    }
                                }
                                _ => out.push(viol("sdk_fails_where_program_succeeds", ev.idx, "swap_quote_by_input_token failed on a swap the program executed".into())),
                            }
                        } else {
                            let q = crate::rt::guarded((|| sdk::swap_quote_by_output_token(a.amount, !a.a_to_b, slip, pool_facade(&pool), oracle, tas, now, fa, fb)));
                            match q {
                                Ok(Ok(q)) => {
                                    if q.token_max_in < q.token_est_in {
                                        out.push(viol("slippage_on_wrong_side", ev.idx, format!("max in {} < estimated in {}", q.token_max_in, q.token_est_in)));
                                    }
                                    if q.token_out as i128 != got {
                                        cov.note("c20_exact_out_quote_echoes_other_token_out_than_received");
                                    }
                                    if q.token_est_in as i128 != paid {
                                        out.push(viol("sdk_quote_differs", ev.idx, format!("swap_quote_by_output_token: quote est in {} out {}; executed paid {} received {} (fees a {:?} b {:?})", q.token_est_in, q.token_out, paid, got, fa.map(|f| (f.fee_bps, f.max_fee)), fb.map(|f| (f.fee_bps, f.max_fee)))));
                                    } else {
                                        cov.probe("exact_out_quote_equal_to_balances");
                                    }
                                }
                                _ => out.push(viol("sdk_fails_where_program_succeeds", ev.idx, "swap_quote_by_output_token failed on a swap the program executed".into())),
                            }
                        }
                    }
                }
                "increase_liquidity" | "increase_liquidity_v2" | "decrease_liquidity" | "decrease_liquidity_v2" if post.is_none() => {
                    // the program rejected the amounts as overflowing: the SDK must report an error too
                    if !matches!(code, Some(6030) | Some(6031) | Some(6033) | Some(6008) | Some(6007)) {
                        continue;
                    }
                    let wk = c.a("whirlpool");
                    let (Some(pool), Some(pos)) = (pre.data(&wk).and_then(decode::pool), pre.data(&c.a("position")).and_then(decode::position)) else { continue };
                    let (liq, _, _) = wpix::liq_args(&c);
                    let inc = name.starts_with("increase");
                    let fa = sdk_fee(pre, &pool.mint_a, ev.clock.epoch);
                    let fb = sdk_fee(pre, &pool.mint_b, ev.clock.epoch);
                    let r_ok = if inc {
                        crate::rt::guarded((|| sdk::increase_liquidity_quote(liq, 0, pool.sqrt_price, pos.lower, pos.upper, fa, fb).is_ok())).unwrap_or(false)
                    } else {
                        crate::rt::guarded((|| sdk::decrease_liquidity_quote(liq, 0, pool.sqrt_price, pos.lower, pos.upper, fa, fb).is_ok())).unwrap_or(false)
                    };
                    cov.eval(format!("{}|program_overflow={:?}|sdk_ok={}", name, code, r_ok));
                    cov.probe("program_rejected_amounts_as_overflowing");
                    if r_ok {
                        out.push(viol("sdk_quotes_overflowing_amounts", ev.idx, format!("{} L={} on {}..{} at price {}: the program rejects the amounts as overflowing ({:?}) but the SDK returns a quote", name, liq, pos.lower, pos.upper, pool.sqrt_price, code)));
                    }
                }
                "increase_liquidity" | "increase_liquidity_v2" | "decrease_liquidity" | "decrease_liquidity_v2" => {
                    let Some(post) = post else { continue };
                    let wk = c.a("whirlpool");
                    let (Some(pool), Some(pos)) = (pre.data(&wk).and_then(decode::pool), pre.data(&c.a("position")).and_then(decode::position)) else { continue };
                    let (liq, _, _) = wpix::liq_args(&c);
                    let inc = name.starts_with("increase");
                    let fa = sdk_fee(pre, &pool.mint_a, ev.clock.epoch);
                    let fb = sdk_fee(pre, &pool.mint_b, ev.clock.epoch);
                    let slip = (ev.salt % 1000) as u16;
                    let ua = c.a("token_owner_account_a");
                    let ub = c.a("token_owner_account_b");
                    let da = (token_amount(post, &ua) as i128 - token_amount(pre, &ua) as i128).abs();
                    let db = (token_amount(post, &ub) as i128 - token_amount(pre, &ub) as i128).abs();
                    cov.eval(format!("{}|fee_a={}|fee_b={}", name, fa.is_some(), fb.is_some()));
                    if inc {
                        match crate::rt::guarded((|| sdk::increase_liquidity_quote(liq, slip, pool.sqrt_price, pos.lower, pos.upper, fa, fb))) {
                            Ok(Ok(q)) => {
                                if q.token_max_a < q.token_est_a || q.token_max_b < q.token_est_b {
                                    out.push(viol("slippage_on_wrong_side", ev.idx, format!("increase quote max {} / {} below estimate {} / {}", q.token_max_a, q.token_max_b, q.token_est_a, q.token_est_b)));
                                }
                                if q.token_est_a as i128 != da || q.token_est_b as i128 != db {
                                    out.push(viol("sdk_liquidity_quote_differs", ev.idx, format!("{} L={} on {}..{} at price {} (tick {}): executed {} / {}, SDK estimates {} / {}", name, liq, pos.lower, pos.upper, pool.sqrt_price, pool.tick_current_index, da, db, q.token_est_a, q.token_est_b)));
                                } else {
                                    cov.probe("increase_quote_equal_to_execution");
                                }
                            }
                            _ => out.push(viol("sdk_fails_where_program_succeeds", ev.idx, format!("increase_liquidity_quote failed for L={} on {}..{}", liq, pos.lower, pos.upper))),
                        }
                    } else {
                        match crate::rt::guarded((|| sdk::decrease_liquidity_quote(liq, slip, pool.sqrt_price, pos.lower, pos.upper, fa, fb))) {
                            Ok(Ok(q)) => {
                                if q.token_min_a > q.token_est_a || q.token_min_b > q.token_est_b {
                                    out.push(viol("slippage_on_wrong_side", ev.idx, format!("decrease quote min {} / {} above estimate {} / {}", q.token_min_a, q.token_min_b, q.token_est_a, q.token_est_b)));
                                }
                                if q.token_est_a as i128 != da || q.token_est_b as i128 != db {
                                    out.push(viol("sdk_liquidity_quote_differs", ev.idx, format!("{} L={} on {}..{} at price {} (tick {}): executed {} / {}, SDK estimates {} / {}", name, liq, pos.lower, pos.upper, pool.sqrt_price, pool.tick_current_index, da, db, q.token_est_a, q.token_est_b)));
                                } else {
                                    cov.probe("decrease_quote_equal_to_execution");
                                }
                            }
                            _ => out.push(viol("sdk_fails_where_program_succeeds", ev.idx, format!("decrease_liquidity_quote failed for L={} on {}..{}", liq, pos.lower, pos.upper))),
                        }
                    }
                    // boundary probes at the reached prices: liquidity magnitudes around the u64 / 192-bit / 256-bit limits of the
                    // intermediate products. The SDK must return the program's value, and an error wherever the program
                    // rejects the amount as overflowing.
                    if ev.salt % 3 == 0 {
                        let (pl, pu) = (crate::model::sqrt_price_of_tick(pos.lower), crate::model::sqrt_price_of_tick(pos.upper));
                        let diff = pu - pl;
                        let mut ls: Vec<u128> = vec![liq, u128::MAX, u128::MAX / 2, 1u128 << 100, 1u128 << 112, 1u128 << 127];
                        // L * diff just below / above 2^192 (so that "<< 64" just fits / just overflows 256 bits)
                        let lim = num_bigint::BigUint::from(1u8) << 192usize;
                        if let Some(l192) = (lim / num_bigint::BigUint::from(diff.max(1))).to_u128() {
                            ls.extend_from_slice(&[l192.saturating_sub(1), l192, l192.saturating_add(1)]);
                        }
                        for l in ls {
                            if l == 0 {
                                continue;
                            }
                            for up in [true, false] {
                                cov.probe("boundary_amount_delta_probes");
                                let pa = whirlpool::math::get_amount_delta_a(pl, pu, l, up);
                                let pb = whirlpool::math::get_amount_delta_b(pl, pu, l, up);
                                let sa = crate::rt::guarded(|| sdk::try_get_amount_delta_a(pl, pu, l, up));
                                let sb = crate::rt::guarded(|| sdk::try_get_amount_delta_b(pl, pu, l, up));
                                for (side, pv, sv) in [("A", pa.ok(), sa), ("B", pb.ok(), sb)] {
                                    let svv = match sv {
                                        Ok(Ok(x)) => Some(x),
                                        Ok(Err(_)) => None,
                                        Err(_) => {
                                            out.push(viol("sdk_panics", ev.idx, format!("SDK amount delta {} panics for L={} between ticks {}..{}", side, l, pos.lower, pos.upper)));
                                            continue;
                                        }
                                    };
                                    cov.eval(format!("amount_delta_boundary|{}|program_ok={}|sdk_ok={}", side, pv.is_some(), svv.is_some()));
                                    if pv != svv {
                                        out.push(viol("sdk_amount_delta_differs", ev.idx, format!("token {} amount for L={} between ticks {}..{} (round_up={}): program {:?}, SDK {:?}", side, l, pos.lower, pos.upper, up, pv, svv)));
                                    }
                                }
                            }
                        }
                        // the liquidity quotes themselves at the u64 edge of each token: the largest liquidity whose token B (A)
                        // amount still fits 64 bits and its neighbours, with the price below / inside / above the range. Where the
                        // program's amount functions succeed the quote must carry the same estimate; where they report an
                        // overflow the quote must be an error (never a wrapped or clipped number, never a panic)
                        {
                            use num_bigint::BigUint;
                            let two64 = BigUint::from(1u8) << 64usize;
                            let cases: [(u128, i32); 3] = [
                                (pl.saturating_sub(1).max(decode::MIN_SQRT_PRICE), pos.lower - 1),
                                (pool.sqrt_price, pool.tick_current_index),
                                (pu, pos.upper),
                            ];
                            for (price, tick) in cases {
                                let (a_span, b_span): (Option<(u128, u128)>, Option<(u128, u128)>) = if tick < pos.lower {
                                    (Some((pl, pu)), None)
                                } else if tick < pos.upper {
                                    (Some((price.max(pl).min(pu), pu)), Some((pl, price.max(pl).min(pu))))
                                } else {
                                    (None, Some((pl, pu)))
                                };
                                let mut cand: Vec<u128> = Vec::new();
                                if let Some((lo, hi)) = b_span {
                                    if hi > lo {
                                        let lb = (BigUint::from(u128::MAX)) / BigUint::from(hi - lo);
                                        if let Some(x) = lb.to_u128() {
                                            cand.extend_from_slice(&[x.saturating_sub(1), x, x.saturating_add(1)]);
                                        }
                                    }
                                }
                                if let Some((lo, hi)) = a_span {
                                    if hi > lo {
                                        let la = (BigUint::from(u64::MAX) * BigUint::from(hi) * BigUint::from(lo)) / (BigUint::from(hi - lo) * &two64);
                                        if let Some(x) = la.to_u128() {
                                            cand.extend_from_slice(&[x.saturating_sub(1), x, x.saturating_add(1), x.saturating_add(2)]);
                                        }
                                    }
                                }
                                for l in cand {
                                    if l == 0 {
                                        continue;
                                    }
                                    for inc in [true, false] {
                                        cov.probe("boundary_liquidity_quote_probes");
                                        let pa = match a_span {
                                            Some((lo, hi)) if hi > lo => whirlpool::math::get_amount_delta_a(lo, hi, l, inc).ok(),
                                            _ => Some(0),
                                        };
                                        let pb = match b_span {
                                            Some((lo, hi)) if hi > lo => whirlpool::math::get_amount_delta_b(lo, hi, l, inc).ok(),
                                            _ => Some(0),
                                        };
                                        let sq: Result<Option<(u64, u64)>, ()> = if inc {
                                            crate::rt::guarded(|| sdk::increase_liquidity_quote(l, 0, price, pos.lower, pos.upper, None, None).ok().map(|q| (q.token_est_a, q.token_est_b))).map_err(|_| ())
                                        } else {
                                            crate::rt::guarded(|| sdk::decrease_liquidity_quote(l, 0, price, pos.lower, pos.upper, None, None).ok().map(|q| (q.token_est_a, q.token_est_b))).map_err(|_| ())
                                        };
                                        let what = if inc { "increase_liquidity_quote" } else { "decrease_liquidity_quote" };
                                        cov.eval(format!("liquidity_quote_boundary|{}|program_ok={}|sdk={}", what, pa.is_some() && pb.is_some(), match &sq { Ok(Some(_)) => "ok", Ok(None) => "err", Err(_) => "panic" }));
                                        match (pa, pb, sq) {
                                            (_, _, Err(())) => out.push(viol("sdk_panics", ev.idx, format!("{} panics for L={} on {}..{} at price {}", what, l, pos.lower, pos.upper, price))),
                                            (Some(a), Some(b), Ok(q)) => {
                                                if q != Some((a, b)) {
                                                    out.push(viol("sdk_liquidity_quote_differs", ev.idx, format!("{} L={} on {}..{} at price {} (tick {}): program amounts {} / {}, SDK {:?}", what, l, pos.lower, pos.upper, price, tick, a, b, q)));
                                                }
                                            }
                                            (_, _, Ok(Some(q))) => out.push(viol("sdk_quotes_overflowing_amounts", ev.idx, format!("{} L={} on {}..{} at price {} (tick {}): the program rejects the amounts as overflowing (A {:?}, B {:?}) but the SDK returns {:?}", what, l, pos.lower, pos.upper, price, tick, pa, pb, q))),
                                            _ => {}
                                        }
                                        if !out.is_empty() {
                                            break;
                                        }
                                    }
                                    if !out.is_empty() {
                                        break;
                                    }
                                }
                            }
                        }
                        // next sqrt price from an amount of token A / B at the pool's price, liquidity at the same magnitudes
                        for l in [pool.liquidity.max(1), 1u128 << 100, 1u128 << 127, u128::MAX] {
                            for amount in [1u64, 1_000_000, u64::MAX] {
                                for inp in [true, false] {
                                    cov.probe("boundary_next_price_probes");
                                    let pa = whirlpool::math::get_next_sqrt_price_from_a_round_up(pool.sqrt_price, l, amount, inp).ok();
                                    let pb = whirlpool::math::get_next_sqrt_price_from_b_round_down(pool.sqrt_price, l, amount, inp).ok();
                                    let sa = crate::rt::guarded(|| sdk::try_get_next_sqrt_price_from_a(pool.sqrt_price, l, amount, inp)).ok().and_then(|r| r.ok());
                                    let sb = crate::rt::guarded(|| sdk::try_get_next_sqrt_price_from_b(pool.sqrt_price, l, amount, inp)).ok().and_then(|r| r.ok());
                                    // the SDK additionally refuses prices outside the protocol bounds; the program checks that later in the swap step
                                    let inb = |x: Option<u128>| x.filter(|v| (decode::MIN_SQRT_PRICE..=decode::MAX_SQRT_PRICE).contains(v));
                                    for (side, pv, sv) in [("A", inb(pa), sa), ("B", inb(pb), sb)] {
                                        if pv != sv {
                                            out.push(viol("sdk_next_price_differs", ev.idx, format!("next sqrt price from {} of token {} at price {} L={} (input={}): program {:?}, SDK {:?}", amount, side, pool.sqrt_price, l, inp, pv, sv)));
                                        }
                                    }
                                }
                            }
                        }
                    }
                    // tick <-> price conversions on the values this history reached
                    for t in [pos.lower, pos.upper, pool.tick_current_index] {
                        if (decode::MIN_TICK..=decode::MAX_TICK).contains(&t) {
                            let p = crate::model::sqrt_price_of_tick(t);
                            if sdk::tick_index_to_sqrt_price(t) != p || sdk::sqrt_price_to_tick_index(p) != crate::model::tick_of_sqrt_price(p) {
                                out.push(viol("sdk_tick_math_differs", ev.idx, format!("tick {}: program price {} SDK price {}", t, p, sdk::tick_index_to_sqrt_price(t))));
                            }
                        }
                    }
                    // ... and on ticks sampled over the whole supported range (derived from the event's salt, so a replay
                    // repeats them): protocol bounds, powers of two and their neighbours, and pseudo-random ticks; for
                    // each the price, the price one below and one above must convert back like the program's
                    {
                        let mut r = crate::rng::Rng::new(ev.salt ^ 0x7153_c20a);
                        let mut ts: Vec<i32> = vec![decode::MIN_TICK, decode::MIN_TICK + 1, -1, 0, 1, decode::MAX_TICK - 1, decode::MAX_TICK];
                        let bit = (r.next_u64() % 19) as u32;
                        for s in [-1i32, 1] {
                            for d in [-1i32, 0, 1] {
                                ts.push((s * (1i32 << bit) + d).clamp(decode::MIN_TICK, decode::MAX_TICK));
                            }
                        }
                        for _ in 0..6 {
                            ts.push(decode::MIN_TICK + (r.next_u64() % (2 * decode::MAX_TICK as u64 + 1)) as i32);
                        }
                        for t in ts {
                            cov.probe("sampled_tick_math_probes");
                            let p = crate::model::sqrt_price_of_tick(t);
                            let sp = crate::rt::guarded(|| sdk::tick_index_to_sqrt_price(t)).ok();
                            if sp != Some(p) {
                                out.push(viol("sdk_tick_math_differs", ev.idx, format!("tick {}: program price {} SDK price {:?}", t, p, sp)));
                                break;
                            }
                            let mut bad = false;
                            for q in [p.saturating_sub(1).max(decode::MIN_SQRT_PRICE), p, (p + 1).min(decode::MAX_SQRT_PRICE), p + (r.next_u64() as u128 % (p / 20_000 + 1))] {
                                let q = q.clamp(decode::MIN_SQRT_PRICE, decode::MAX_SQRT_PRICE);
                                let st = crate::rt::guarded(|| sdk::sqrt_price_to_tick_index(q)).ok();
                                if st != Some(crate::model::tick_of_sqrt_price(q)) {
                                    out.push(viol("sdk_tick_math_differs", ev.idx, format!("price {}: program tick {} SDK tick {:?}", q, crate::model::tick_of_sqrt_price(q), st)));
                                    bad = true;
                                    break;
                                }
                            }
                            if bad {
                                break;
                            }
                        }
                    }
                    if sdk::sqrt_price_to_tick_index(pool.sqrt_price) != crate::model::tick_of_sqrt_price(pool.sqrt_price) {
                        out.push(viol("sdk_tick_math_differs", ev.idx, format!("price {}: program tick {} SDK tick {}", pool.sqrt_price, crate::model::tick_of_sqrt_price(pool.sqrt_price), sdk::sqrt_price_to_tick_index(pool.sqrt_price))));
                    }
                }
                _ => {}
            }
        }
        if first_far_violation.is_some() {
            // (real views stop producing before the first far view runs, and far views run only while nothing was reported)
            for v in out.iter_mut() {
                v.detail.push_str(&format!(" [on a copy of the pre-state whose adaptive-fee reference was placed far away ({:?} tick groups for the copies of this transaction), both timestamps = now]", far_dist));
            }
        }
        out
    }
}

trait CurveAmount {
    fn amount_for_curve(&self, l: &Ledger, pool: &Pool, epoch: u64) -> u64;
}

impl CurveAmount for wpix::SwapCall {
    /// what the program hands to its swap loop: with a transfer fee the specified amount is first
    /// reduced (exact-in) or grossed up (exact-out); for fee-less mints it is the amount itself
    fn amount_for_curve(&self, l: &Ledger, pool: &Pool, epoch: u64) -> u64 {
        let (m_in, m_out) = if self.a_to_b { (pool.mint_a, pool.mint_b) } else { (pool.mint_b, pool.mint_a) };
        if self.is_input {
            match sdk_fee(l, &m_in, epoch) {
                Some(f) => sdk::try_apply_transfer_fee(self.amount, f).unwrap_or(self.amount),
                None => self.amount,
            }
        } else {
            match sdk_fee(l, &m_out, epoch) {
                Some(f) => sdk::try_reverse_apply_transfer_fee(self.amount, f).unwrap_or(self.amount),
                None => self.amount,
            }
        }
    }
}
