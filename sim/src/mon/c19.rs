//! C19 — pools exist only with in-bound parameters and over supported token mints.

use crate::decode::{self, AfConstants, MAX_SQRT_PRICE, MIN_SQRT_PRICE};
use crate::rt::Ledger;
use crate::sim::{Coverage, Landed, Monitor, Violation};
use crate::wpix;
use serde_json::json;
use solana_program::pubkey::Pubkey;

pub struct C19;

fn viol(class: &str, idx: usize, detail: String) -> Violation {
    Violation {
        property: "C19",
        class: class.to_string(),
        detail,
        event_idx: idx,
    }
}

/// the published validity rules for adaptive-fee constants, restated
pub fn constants_valid(c: &AfConstants, spacing: u16) -> bool {
    c.filter_period >= 1
        && c.decay_period > c.filter_period
        && c.adaptive_fee_control_factor < 100_000
        && c.reduction_factor < 10_000
        && c.tick_group_size >= 1
        && c.tick_group_size <= spacing
        && spacing % c.tick_group_size == 0
        && (c.max_volatility_accumulator as u64) * (c.tick_group_size as u64) <= u32::MAX as u64
        && c.major_swap_threshold_ticks >= 1
        && (c.major_swap_threshold_ticks as u32) <= 88 * spacing as u32
}

fn scan(l: &Ledger, idx: usize, cov: &mut Coverage, out: &mut Vec<Violation>) {
    let wp = crate::ix::wp();
    for (k, a) in l.accts.iter() {
        if a.owner != wp || a.lamports == 0 {
            continue;
        }
        let d = &a.data;
        if let Some(p) = decode::pool(d) {
            cov.evaluations += 1;
            if p.fee_rate > 60_000 || p.protocol_fee_rate > 2_500 || p.sqrt_price < MIN_SQRT_PRICE || p.sqrt_price > MAX_SQRT_PRICE || p.tick_spacing == 0 || p.mint_a >= p.mint_b {
                out.push(viol("pool_out_of_bounds", idx, format!("pool {}: fee rate {} protocol fee rate {} sqrt_price {} tick spacing {} mints ordered {}", k, p.fee_rate, p.protocol_fee_rate, p.sqrt_price, p.tick_spacing, p.mint_a < p.mint_b)));
            }
            if p.sqrt_price == MIN_SQRT_PRICE || p.sqrt_price == MAX_SQRT_PRICE {
                cov.probe("pool_price_at_protocol_bound");
            }
        } else if let Some(t) = decode::fee_tier(d) {
            if t.default_fee_rate > 60_000 || t.tick_spacing == 0 {
                out.push(viol("fee_tier_out_of_bounds", idx, format!("fee tier {}: rate {} spacing {}", k, t.default_fee_rate, t.tick_spacing)));
            }
        } else if let Some(t) = decode::adaptive_fee_tier(d) {
            if t.default_base_fee_rate > 60_000 || t.tick_spacing == 0 || t.fee_tier_index == t.tick_spacing || !constants_valid(&t.c, t.tick_spacing) {
                out.push(viol("adaptive_fee_tier_out_of_bounds", idx, format!("adaptive fee tier {}: base rate {} spacing {} index {} constants {:?}", k, t.default_base_fee_rate, t.tick_spacing, t.fee_tier_index, t.c)));
            }
        } else if let Some(o) = decode::oracle(d) {
            if let Some(p) = l.data(&o.whirlpool).and_then(decode::pool) {
                if !constants_valid(&o.c, p.tick_spacing) {
                    out.push(viol("oracle_constants_invalid", idx, format!("oracle {} of a pool with spacing {}: {:?}", k, p.tick_spacing, o.c)));
                }
            }
        } else if let Some(c) = decode::config(d) {
            if c.default_protocol_fee_rate > 2_500 {
                out.push(viol("config_out_of_bounds", idx, format!("config {}: default protocol fee rate {}", k, c.default_protocol_fee_rate)));
            }
        }
    }
}

/// strict TLV walk over a Token-2022 mint; None = malformed
fn mint_extensions(d: &[u8]) -> Option<Vec<(u16, Vec<u8>)>> {
    let mut v = Vec::new();
    if d.len() <= 166 {
        return Some(v);
    }
    let t = &d[166..];
    let mut o = 0usize;
    while o < t.len() {
        if t.len() < o + 2 {
            return Some(v); // a single spare byte: end of data
        }
        let ty = u16::from_le_bytes([t[o], t[o + 1]]);
        if ty == 0 {
            return Some(v);
        }
        if t.len() < o + 4 {
            return None;
        }
        let len = u16::from_le_bytes([t[o + 2], t[o + 3]]) as usize;
        if o + 4 + len > t.len() {
            return None;
        }
        v.push((ty, t[o + 4..o + 4 + len].to_vec()));
        o += 4 + len;
    }
    Some(v)
}

fn badge_issued(l: &Ledger, config: &Pubkey, mint: &Pubkey) -> bool {
    let k = crate::ix::pda_token_badge(config, mint);
    match l.get(&k) {
        Some(a) if a.owner == crate::ix::wp() && a.lamports > 0 && decode::is_kind(&a.data, "TokenBadge") && a.data.len() >= 72 => {
            a.data[8..40] == config.to_bytes() && a.data[40..72] == mint.to_bytes()
        }
        _ => false,
    }
}

/// admission predicate written from the statement; returns (admitted, description)
pub fn admitted(l: &Ledger, config: &Pubkey, mint: &Pubkey) -> (bool, String) {
    let Some(a) = l.get(mint) else { return (false, "missing".into()) };
    if a.owner == crate::ix::tok() {
        return (true, "spl-token".into());
    }
    if a.owner != crate::ix::tok22() {
        return (false, "not a mint".into());
    }
    if *mint == spl_token_2022::native_mint::ID {
        return (false, "native-2022".into());
    }
    let Some(m) = decode::mint(&a.data) else { return (false, "unreadable".into()) };
    let badge = badge_issued(l, config, mint);
    let Some(exts) = mint_extensions(&a.data) else { return (false, "malformed-tlv".into()) };
    let desc = format!("exts={:?} freeze={} badge={}", exts.iter().map(|(t, _)| *t).collect::<Vec<_>>(), m.freeze_authority.is_some(), badge);
    if m.freeze_authority.is_some() && !badge {
        return (false, desc);
    }
    for (t, v) in &exts {
        match t {
            1 | 10 | 19 | 18 | 25 | 4 | 16 => {}
            12 | 14 | 3 | 26 => {
                if !badge {
                    return (false, desc);
                }
            }
            6 => {
                if !badge {
                    return (false, desc);
                }
                let state = v.first().cloned().unwrap_or(0);
                if state != 1 && m.freeze_authority.is_none() {
                    return (false, desc);
                }
            }
            _ => return (false, desc),
        }
    }
    (true, desc)
}

impl Monitor for C19 {
    fn name(&self) -> &'static str {
        "C19"
    }
    fn on_landed(&mut self, ev: &Landed, cov: &mut Coverage) -> Vec<Violation> {
        let mut out = Vec::new();
        if ev.out.ok {
            scan(ev.post, ev.idx, cov, &mut out);
            // a setter / initialiser stores exactly what it was asked to store
            for v in ev.ix_views() {
                cov.probe("setter_echo_checked");
                if let Some(d) = crate::mon::setters::echo_mismatch(&v, false) {
                    out.push(viol("setter_does_not_store_its_argument", ev.idx, d));
                }
            }
        }
        // setters and initialisers: outcome classes for coverage
        // a single instruction is judged whether it landed or not; the instructions of a successful multi-instruction
        // transaction are each judged on the state they found (a badge deleted by an earlier instruction of the same
        // transaction is gone for the later ones)
        let mut calls: Vec<(&crate::rt::Ix, &Ledger, bool, Option<u32>)> = Vec::new();
        let views = ev.ix_views();
        if ev.tx.ixs.len() == 1 {
            calls.push((&ev.tx.ixs[0], ev.pre, ev.out.ok, ev.out.custom()));
        } else if ev.out.ok {
            for v in &views {
                calls.push((v.ix, v.pre, true, None));
            }
        }
        for (ixn, pre_l, ok_l, custom_l) in calls {
            if let Some(c) = wpix::decode(ixn) {
                let name = c.name();
                if name.starts_with("set_") || name.starts_with("initialize_") {
                    cov.eval(format!("{}|ok={}|code={:?}", name, ok_l, custom_l));
                }
                // mint admission
                let (mints, config): (Vec<Pubkey>, Option<Pubkey>) = match name {
                    "initialize_pool" | "initialize_pool_v2" | "initialize_pool_with_adaptive_fee" => (vec![c.a("token_mint_a"), c.a("token_mint_b")], Some(c.a("whirlpools_config"))),
                    "initialize_reward" | "initialize_reward_v2" => (vec![c.a("reward_mint")], pre_l.data(&c.a("whirlpool")).and_then(decode::pool).map(|p| p.config)),
                    _ => (vec![], None),
                };
                if let (false, Some(cfg)) = (mints.is_empty(), config) {
                    let v1 = matches!(name, "initialize_pool" | "initialize_reward");
                    let verdicts: Vec<(bool, String)> = mints
                        .iter()
                        .map(|m| {
                            let (ok, d) = admitted(pre_l, &cfg, m);
                            // the v1 instructions take SPL Token mints only
                            if v1 && pre_l.get(m).map(|a| a.owner != crate::ix::tok()).unwrap_or(true) {
                                (false, format!("{} (token-2022 mint offered to a v1 instruction)", d))
                            } else {
                                (ok, d)
                            }
                        })
                        .collect();
                    let all = verdicts.iter().all(|(ok, _)| *ok);
                    for (_, d) in &verdicts {
                        cov.eval(format!("{}|{}|ok={}", name, d, ok_l));
                    }
                    if ok_l && !all {
                        out.push(viol("unsupported_mint_admitted", ev.idx, format!("{} succeeded over mints {:?}", name, verdicts)));
                    } else if !ok_l && all && custom_l == Some(6047) {
                        out.push(viol("supported_mint_refused", ev.idx, format!("{} refused supported mints {:?} as unsupported", name, verdicts)));
                    } else if ok_l {
                        cov.probe("pool_or_reward_created_over_admitted_mints");
                        cov.sample(json!({"ix": name, "mints": verdicts.iter().map(|(_, d)| d.clone()).collect::<Vec<_>>(), "admitted": true}));
                    } else if !all {
                        cov.probe("unsupported_mint_refused");
                    }
                }
            }
        }
        out
    }
}
