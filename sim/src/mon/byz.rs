//! Byzantine client (fault enumeration): C04 — only the designated authority;
//! C15 — accounts must belong to the pool the instruction names.
//! Every successful instruction of the history is replayed on forks of its pre-state with one
//! mutation at a time; every mutation must be rejected.

use crate::decode;
use crate::ix;
use crate::rng::Rng;
use crate::rt::{self, Account, Ix, Ledger, Tx};
use crate::sim::{Coverage, IxView, Landed, Monitor, Violation};
use crate::world::{self, scratch_key};
use crate::wpix::{self, Call};
use serde_json::json;
use solana_program::pubkey::Pubkey;
use std::collections::BTreeMap;

fn exec(l: &Ledger, ixn: Ix) -> rt::TxOutcome {
    let mut f = l.clone();
    rt::exec_tx_simple(&mut f, &Tx { ixs: vec![ixn] })
}

// ---------------------------------------------------------------------------------------------
// C04
// ---------------------------------------------------------------------------------------------

pub struct C04 {
    pub cells: BTreeMap<String, (u64, u64)>,
}

impl C04 {
    pub fn new() -> C04 {
        C04 { cells: BTreeMap::new() }
    }
}

const AUTH_SLOTS: &[&str] = &[
    "position_authority",
    "position_bundle_authority",
    "position_bundle_owner",
    "fee_authority",
    "collect_protocol_fees_authority",
    "reward_authority",
    "reward_emissions_super_authority",
    "delegated_fee_authority",
    "initialize_pool_authority",
    "config_extension_authority",
    "token_badge_authority",
    "authority",
];

fn v04(class: &str, idx: usize, detail: String) -> Violation {
    Violation {
        property: "C04",
        class: class.to_string(),
        detail,
        event_idx: idx,
    }
}

/// the stranger brings funds of their own: the instruction's `token_owner_account_a/b` slots get accounts of the same mints,
/// owned by the stranger and well funded (so that a deposit does not fail merely because the victim's accounts are not theirs)
fn with_own_funds(c: &Call, v: &IxView, f: &mut Ledger, ixn: &mut Ix, attacker: &Pubkey, salt: u64) -> bool {
    let mut n = 0;
    for (j, ps) in ["token_owner_account_a", "token_owner_account_b"].iter().enumerate() {
        let Some(pi) = c.idx(ps) else { continue };
        let cur = v.ix.accounts[pi].pubkey;
        let Some(acc) = v.pre.get(&cur) else { continue };
        if acc.data.len() < 165 || !(acc.owner == ix::tok() || acc.owner == ix::tok22()) {
            continue;
        }
        let mut d = (*acc.data).clone();
        d[32..64].copy_from_slice(attacker.as_ref());
        d[64..72].copy_from_slice(&(u64::MAX / 4).to_le_bytes());
        d[72..76].copy_from_slice(&0u32.to_le_bytes());
        let k = scratch_key(salt, 4200 + j as u64);
        f.put(k, Account::new(acc.lamports, d, acc.owner));
        ixn.accounts[pi].pubkey = k;
        n += 1;
    }
    n > 0
}

fn set_delegate(l: &mut Ledger, token_account: &Pubkey, delegate: &Pubkey, amount: u64) {
    if let Some(a) = l.accts.get_mut(token_account) {
        let mut d = (*a.data).clone();
        if d.len() >= 165 {
            d[72..76].copy_from_slice(&1u32.to_le_bytes());
            d[76..108].copy_from_slice(delegate.as_ref());
            d[121..129].copy_from_slice(&amount.to_le_bytes());
            a.data = std::rc::Rc::new(d);
        }
    }
}

impl C04 {
    fn cell(&mut self, key: String, rejected: bool) {
        let e = self.cells.entry(key).or_insert((0, 0));
        e.0 += 1;
        if rejected {
            e.1 += 1;
        }
    }

    fn mutate(&mut self, v: &IxView, c: &Call, idx: usize, salt: u64, cov: &mut Coverage, out: &mut Vec<Violation>) {
        let name = c.name();
        let attacker = scratch_key(salt, 4001);
        let mut base = v.pre.clone();
        world::fund(&mut base, &attacker, 1 << 40);
        for slot in AUTH_SLOTS {
            let Some(i) = c.idx(slot) else { continue };
            if *slot == "authority" && name != "set_config_feature_flag" {
                continue;
            }
            let Some(m) = v.ix.accounts.get(i) else { continue };
            let right = m.pubkey;
            if *slot == "initialize_pool_authority" {
                // a permission-less tier (authority = default key) is open by design
                let tier = v.pre.data(&c.a("adaptive_fee_tier")).and_then(decode::adaptive_fee_tier);
                if tier.map(|t| t.initialize_pool_authority == Pubkey::default()).unwrap_or(true) {
                    continue;
                }
            }
            // the baseline must succeed on the fork as it is (it did: v is a successful instruction)
            // (a) wrong signer: the attacker's key, signed
            {
                let mut ixn = v.ix.clone();
                ixn.accounts[i].pubkey = attacker;
                ixn.accounts[i].is_signer = true;
                let r = exec(&base, ixn);
                cov.eval(format!("{}|{}|wrong_signer", name, slot));
                self.cell(format!("{} / {} / wrong signer", name, slot), !r.ok);
                if r.ok {
                    out.push(v04("wrong_signer_accepted", idx, format!("{}: succeeded with a stranger's key in the `{}` slot", name, slot)));
                    return;
                }
            }
            // (a') a near miss: the right key with one byte changed - the first, one in the middle, one in the last word, the last
            // (a comparison that stops early or looks at part of the key lets one of them through)
            for pos in [0usize, 15, 24, 31] {
                let mut b = right.to_bytes();
                b[pos] ^= 0x01;
                let near = Pubkey::new_from_array(b);
                let mut ixn = v.ix.clone();
                ixn.accounts[i].pubkey = near;
                ixn.accounts[i].is_signer = true;
                let r = exec(&base, ixn);
                cov.eval(format!("{}|{}|near_miss_key", name, slot));
                self.cell(format!("{} / {} / the right key with byte {} changed", name, slot, pos), !r.ok);
                if r.ok {
                    out.push(v04("wrong_signer_accepted", idx, format!("{}: succeeded for a signer whose key differs from the recorded `{}` in byte {} only", name, slot, pos)));
                    return;
                }
            }
            // (a3) the legitimate holder of THIS position presents the lock record of ANOTHER position of the same pool:
            // the other holder's record must not change without that holder
            if let (Some(li), true) = (c.idx("lock_config"), *slot == "position_authority") {
                if let Some(a) = v.pre.get(&v.ix.accounts[li].pubkey) {
                    if a.owner == ix::wp() && a.data.len() >= 72 {
                        for other_holder in [true, false] {
                            let mut d = (*a.data).clone();
                            d[8..40].copy_from_slice(scratch_key(salt, 4201).as_ref()); // another position
                            if other_holder {
                                d[40..72].copy_from_slice(scratch_key(salt, 4202).as_ref()); // held by somebody else
                            }
                            let fk = scratch_key(salt, 4203);
                            let mut f = base.clone();
                            f.put(fk, Account::new(a.lamports, d.clone(), a.owner));
                            let mut ixn = v.ix.clone();
                            ixn.accounts[li].pubkey = fk;
                            let r = exec(&f, ixn);
                            let label = if other_holder { "lock record of another holder's position" } else { "lock record of another position of the same holder" };
                            cov.eval(format!("{}|lock_config|{}", name, label));
                            self.cell(format!("{} / lock_config / {}", name, label), !r.ok);
                            if r.ok {
                                out.push(v04("foreign_record_changed", idx, format!("{}: succeeded with the {} in the `lock_config` slot", name, label)));
                                return;
                            }
                        }
                    }
                }
            }
            // (a2) a stranger signs and names token accounts of their own as the destination of whatever is paid out
            {
                const PAYOUT_SLOTS: &[&str] = &["token_owner_account_a", "token_owner_account_b", "reward_owner_account", "token_destination_a", "token_destination_b", "destination_token_account"];
                let mut f = base.clone();
                let mut ixn = v.ix.clone();
                ixn.accounts[i].pubkey = attacker;
                ixn.accounts[i].is_signer = true;
                let mut redirected = 0;
                for (n, ps) in PAYOUT_SLOTS.iter().enumerate() {
                    let Some(pi) = c.idx(ps) else { continue };
                    let cur = v.ix.accounts[pi].pubkey;
                    let Some(acc) = v.pre.get(&cur) else { continue };
                    if acc.data.len() < 165 || !(acc.owner == ix::tok() || acc.owner == ix::tok22()) {
                        continue;
                    }
                    // same mint, same encoding, empty, owned by the attacker
                    let mut d = (*acc.data).clone();
                    d[32..64].copy_from_slice(attacker.as_ref());
                    d[64..72].copy_from_slice(&0u64.to_le_bytes());
                    d[72..76].copy_from_slice(&0u32.to_le_bytes()); // no delegate
                    let k = scratch_key(salt, 4100 + n as u64);
                    f.put(k, Account::new(acc.lamports, d, acc.owner));
                    ixn.accounts[pi].pubkey = k;
                    redirected += 1;
                }
                if redirected > 0 {
                    let r = exec(&f, ixn);
                    cov.eval(format!("{}|{}|stranger_with_own_payout_accounts", name, slot));
                    self.cell(format!("{} / {} / stranger signs, payout to the stranger's own accounts", name, slot), !r.ok);
                    if r.ok {
                        out.push(v04("wrong_signer_accepted", idx, format!("{}: succeeded for a stranger who signed as `{}` and named token accounts of their own for the payout", name, slot)));
                        return;
                    }
                }
            }
            // (b) the right key without a signature (only meaningful if the key signs nowhere else in the instruction)
            let signs_elsewhere = v.ix.accounts.iter().enumerate().any(|(j, mm)| j != i && mm.pubkey == right && mm.is_signer);
            if !signs_elsewhere {
                let mut ixn = v.ix.clone();
                ixn.accounts[i].is_signer = false;
                let r = exec(&base, ixn);
                cov.eval(format!("{}|{}|unsigned", name, slot));
                self.cell(format!("{} / {} / right key unsigned", name, slot), !r.ok);
                if r.ok {
                    out.push(v04("missing_signature_accepted", idx, format!("{}: succeeded although `{}` did not sign", name, slot)));
                    return;
                }
            }
            // (b2) rival container: the attacker signs and presents an account of the right type that names the
            // attacker as authority (a config of their own, a sibling adaptive fee tier of the same config and
            // tick spacing, the extension of their own config) while the pool-side accounts stay the victim's
            {
                const TIED: &[&str] = &["whirlpool", "fee_tier", "adaptive_fee_tier", "whirlpools_config_extension", "token_badge"];
                let mut rivals: Vec<(&str, Pubkey, Account)> = Vec::new();
                let cfg_slot = if c.idx("whirlpools_config").is_some() { "whirlpools_config" } else { "config" };
                if matches!(*slot, "fee_authority" | "collect_protocol_fees_authority" | "reward_emissions_super_authority") && TIED.iter().any(|t| c.idx(t).is_some()) {
                    if let Some(a) = c.idx(cfg_slot).and_then(|ci| v.pre.get(&v.ix.accounts[ci].pubkey)) {
                        if a.data.len() == 108 {
                            let mut d = (*a.data).clone();
                            for o in [8usize, 40, 72] {
                                d[o..o + 32].copy_from_slice(attacker.as_ref());
                            }
                            rivals.push((cfg_slot, scratch_key(salt, 4003), Account::new(a.lamports, d, a.owner)));
                        }
                    }
                }
                if matches!(*slot, "delegated_fee_authority" | "initialize_pool_authority") {
                    if let Some(a) = c.idx("adaptive_fee_tier").and_then(|ci| v.pre.get(&v.ix.accounts[ci].pubkey)) {
                        if let Some(t) = decode::adaptive_fee_tier(&a.data) {
                            let mut idx2 = t.fee_tier_index ^ 0x0400;
                            while v.pre.exists(&ix::pda_fee_tier(&t.config, idx2)) {
                                idx2 = idx2.wrapping_add(1);
                            }
                            let mut d = (*a.data).clone();
                            d[40..42].copy_from_slice(&idx2.to_le_bytes());
                            d[44..76].copy_from_slice(attacker.as_ref());
                            d[76..108].copy_from_slice(attacker.as_ref());
                            rivals.push(("adaptive_fee_tier", ix::pda_fee_tier(&t.config, idx2), Account::new(a.lamports, d, a.owner)));
                            // ... and the tier with the SAME index under a config of the attacker's own
                            let rival_cfg = scratch_key(salt, 4013);
                            let mut d2 = (*a.data).clone();
                            d2[8..40].copy_from_slice(rival_cfg.as_ref());
                            d2[44..76].copy_from_slice(attacker.as_ref());
                            d2[76..108].copy_from_slice(attacker.as_ref());
                            rivals.push(("adaptive_fee_tier", ix::pda_fee_tier(&rival_cfg, t.fee_tier_index), Account::new(a.lamports, d2, a.owner)));
                        }
                    }
                }
                if matches!(*slot, "token_badge_authority" | "config_extension_authority") {
                    if let Some(a) = c.idx("whirlpools_config_extension").and_then(|ci| v.pre.get(&v.ix.accounts[ci].pubkey)) {
                        if a.data.len() >= 104 {
                            let rival_cfg = scratch_key(salt, 4003);
                            let mut d = (*a.data).clone();
                            d[8..40].copy_from_slice(rival_cfg.as_ref());
                            d[40..72].copy_from_slice(attacker.as_ref());
                            d[72..104].copy_from_slice(attacker.as_ref());
                            rivals.push(("whirlpools_config_extension", ix::pda_config_extension(&rival_cfg), Account::new(a.lamports, d, a.owner)));
                        }
                    }
                }
                // the attacker's own config AND its extension together (a consistent pair), the victim's badge / mint left in place
                // (only where something of the victim's remains: a token badge; with config and extension both replaced, the
                // authority setters act on nothing but the attacker's own accounts)
                if matches!(*slot, "token_badge_authority" | "config_extension_authority") && c.idx("token_badge").is_some() {
                    let cfg_i = c.idx(cfg_slot);
                    let ext_i = c.idx("whirlpools_config_extension");
                    if let (Some(ci), Some(ei)) = (cfg_i, ext_i) {
                        if let (Some(ca), Some(ea)) = (v.pre.get(&v.ix.accounts[ci].pubkey), v.pre.get(&v.ix.accounts[ei].pubkey)) {
                            if ca.data.len() == 108 && ea.data.len() >= 104 && ea.owner == ix::wp() {
                                let rival_cfg = scratch_key(salt, 4007);
                                let mut cd = (*ca.data).clone();
                                for o in [8usize, 40, 72] {
                                    cd[o..o + 32].copy_from_slice(attacker.as_ref());
                                }
                                let mut ed = (*ea.data).clone();
                                ed[8..40].copy_from_slice(rival_cfg.as_ref());
                                ed[40..72].copy_from_slice(attacker.as_ref());
                                ed[72..104].copy_from_slice(attacker.as_ref());
                                let rival_ext = ix::pda_config_extension(&rival_cfg);
                                let mut f = base.clone();
                                f.put(rival_cfg, Account::new(ca.lamports, cd, ca.owner));
                                f.put(rival_ext, Account::new(ea.lamports, ed, ea.owner));
                                let mut ixn = v.ix.clone();
                                ixn.accounts[i].pubkey = attacker;
                                ixn.accounts[i].is_signer = true;
                                ixn.accounts[ci].pubkey = rival_cfg;
                                ixn.accounts[ei].pubkey = rival_ext;
                                let r = exec(&f, ixn);
                                cov.eval(format!("{}|{}|rival_config_and_extension", name, slot));
                                self.cell(format!("{} / {} / rival config + extension pair naming the attacker", name, slot), !r.ok);
                                if r.ok {
                                    out.push(v04("rival_container_accepted", idx, format!("{}: succeeded for a stranger who signed as `{}` and presented their own config and config extension, acting on the victim's remaining accounts", name, slot)));
                                    return;
                                }
                            }
                        }
                    }
                }
                // the attacker's own config AND a pool of that config together (a consistent pair the attacker is the rightful
                // authority of), while something else the instruction acts on - an oracle, a vault - stays the victim's
                if matches!(*slot, "fee_authority" | "collect_protocol_fees_authority" | "reward_emissions_super_authority") {
                    if let (Some(ci), Some(wi)) = (c.idx(cfg_slot), c.idx("whirlpool")) {
                        let others_left = v.ix.accounts.iter().enumerate().any(|(j, m)| j != ci && j != wi && j != i && m.is_writable && v.pre.get(&m.pubkey).map(|a| a.owner == ix::wp() || a.owner == ix::tok() || a.owner == ix::tok22()).unwrap_or(false));
                        if let (true, Some(ca), Some(pa)) = (others_left, v.pre.get(&v.ix.accounts[ci].pubkey), v.pre.get(&v.ix.accounts[wi].pubkey)) {
                            if ca.data.len() == 108 && pa.data.len() >= 40 && pa.owner == ix::wp() {
                                let rival_cfg = scratch_key(salt, 4011);
                                let rival_pool = scratch_key(salt, 4012);
                                let mut cd = (*ca.data).clone();
                                for o in [8usize, 40, 72] {
                                    cd[o..o + 32].copy_from_slice(attacker.as_ref());
                                }
                                let mut pd = (*pa.data).clone();
                                pd[8..40].copy_from_slice(rival_cfg.as_ref());
                                let mut f = base.clone();
                                f.put(rival_cfg, Account::new(ca.lamports, cd, ca.owner));
                                f.put(rival_pool, Account::new(pa.lamports, pd, pa.owner));
                                let mut ixn = v.ix.clone();
                                ixn.accounts[i].pubkey = attacker;
                                ixn.accounts[i].is_signer = true;
                                ixn.accounts[ci].pubkey = rival_cfg;
                                ixn.accounts[wi].pubkey = rival_pool;
                                let r = exec(&f, ixn);
                                cov.eval(format!("{}|{}|rival_config_and_pool", name, slot));
                                self.cell(format!("{} / {} / rival config + pool pair of the attacker's own", name, slot), !r.ok);
                                if r.ok {
                                    out.push(v04("rival_container_accepted", idx, format!("{}: succeeded for a stranger who signed as `{}` and presented a config and a pool of their own, acting on the victim's remaining accounts", name, slot)));
                                    return;
                                }
                            }
                        }
                    }
                }
                for (kslot, rkey, racct) in rivals {
                    let Some(ki) = c.idx(kslot) else { continue };
                    let mut f = base.clone();
                    f.put(rkey, racct);
                    let mut ixn = v.ix.clone();
                    ixn.accounts[i].pubkey = attacker;
                    ixn.accounts[i].is_signer = true;
                    ixn.accounts[ki].pubkey = rkey;
                    let r = exec(&f, ixn);
                    cov.eval(format!("{}|{}|rival_{}", name, slot, kslot));
                    self.cell(format!("{} / {} / rival {} naming the attacker", name, slot, kslot), !r.ok);
                    if r.ok {
                        out.push(v04("rival_container_accepted", idx, format!("{}: succeeded for a stranger who signed as `{}` and presented their own `{}` account naming them as authority", name, slot, kslot)));
                        return;
                    }
                }
            }
            // (b3) holder of a neighbouring role: the container's *other* authority fields are handed to the attacker
            // (as their owners could do any time); the attacker then signs for this role - must still be rejected
            {
                let neighbours: Option<(&str, usize, &[usize])> = match *slot {
                    "fee_authority" => Some(("whirlpools_config", 8, &[40, 72])),
                    "collect_protocol_fees_authority" => Some(("whirlpools_config", 40, &[8, 72])),
                    "reward_emissions_super_authority" => Some(("whirlpools_config", 72, &[8, 40])),
                    "config_extension_authority" => Some(("whirlpools_config_extension", 40, &[72])),
                    "token_badge_authority" => Some(("whirlpools_config_extension", 72, &[40])),
                    "initialize_pool_authority" => Some(("adaptive_fee_tier", 44, &[76])),
                    "delegated_fee_authority" => Some(("adaptive_fee_tier", 76, &[44])),
                    _ => None,
                };
                if let Some((kslot, own, others)) = neighbours {
                    let kslot = if kslot == "whirlpools_config" && c.idx("whirlpools_config").is_none() { "config" } else { kslot };
                    if let Some(ka) = c.idx(kslot).map(|ci| v.ix.accounts[ci].pubkey) {
                        if let Some(a) = v.pre.get(&ka) {
                            let need = others.iter().chain(std::iter::once(&own)).max().copied().unwrap_or(0) + 32;
                            // only when this slot's key really is the field's value (e.g. the fee authority may sign in the
                            // token-badge slot by design when no extension exists)
                            if a.owner == ix::wp() && a.data.len() >= need && a.data[own..own + 32] == right.to_bytes() {
                                let mut d = (*a.data).clone();
                                for o in others {
                                    d[*o..*o + 32].copy_from_slice(attacker.as_ref());
                                }
                                let mut f = base.clone();
                                f.put(ka, Account::new(a.lamports, d, a.owner));
                                let mut ixn = v.ix.clone();
                                ixn.accounts[i].pubkey = attacker;
                                ixn.accounts[i].is_signer = true;
                                let r = exec(&f, ixn);
                                cov.eval(format!("{}|{}|neighbouring_role_holder", name, slot));
                                self.cell(format!("{} / {} / holder of the neighbouring role in the same {}", name, slot, kslot), !r.ok);
                                if r.ok {
                                    out.push(v04("neighbouring_role_accepted", idx, format!("{}: succeeded for a key that holds only the other authority field(s) of the `{}` account, signing as `{}`", name, kslot, slot)));
                                    return;
                                }
                            }
                        }
                    }
                }
            }
            // (b3'') ... or in the adaptive fee tier the instruction acts on: the tier's initialize-pool authority and its delegated
            // fee authority are handed to the attacker; signing as the config's fee authority must still be refused
            if *slot == "fee_authority" {
                if let Some(ti) = c.idx("adaptive_fee_tier") {
                    let tk = v.ix.accounts[ti].pubkey;
                    if let Some(ta) = v.pre.get(&tk) {
                        if ta.owner == ix::wp() && decode::adaptive_fee_tier(&ta.data).is_some() && ta.data.len() >= 108 {
                            let mut d = (*ta.data).clone();
                            d[44..76].copy_from_slice(attacker.as_ref());
                            d[76..108].copy_from_slice(attacker.as_ref());
                            let mut f = base.clone();
                            f.put(tk, Account::new(ta.lamports, d, ta.owner));
                            let mut ixn = v.ix.clone();
                            ixn.accounts[i].pubkey = attacker;
                            ixn.accounts[i].is_signer = true;
                            let r = exec(&f, ixn);
                            cov.eval(format!("{}|{}|holds_the_tiers_authorities", name, slot));
                            self.cell(format!("{} / {} / holder of both authorities of the adaptive fee tier (not the config's fee authority)", name, slot), !r.ok);
                            if r.ok {
                                out.push(v04("neighbouring_role_accepted", idx, format!("{}: succeeded for a key that is the tier's initialize-pool authority and delegated fee authority but not the config's fee authority, signing as `{}`", name, slot)));
                                return;
                            }
                        }
                    }
                }
            }
            // (b3') the neighbouring role lives in ANOTHER account: the config's authorities (fee, collect, reward super) are all
            // handed to the attacker; the config extension keeps its own recorded authorities - the attacker signing as
            // extension / token-badge authority must still be refused
            if matches!(*slot, "config_extension_authority" | "token_badge_authority") {
                let cfg_slot = if c.idx("whirlpools_config").is_some() { "whirlpools_config" } else { "config" };
                let own = if *slot == "config_extension_authority" { 40usize } else { 72usize };
                if let (Some(ci), Some(ei)) = (c.idx(cfg_slot), c.idx("whirlpools_config_extension")) {
                    if let (Some(ca), Some(ea)) = (v.pre.get(&v.ix.accounts[ci].pubkey), v.pre.get(&v.ix.accounts[ei].pubkey)) {
                        if ca.owner == ix::wp() && ca.data.len() == 108 && ea.owner == ix::wp() && ea.data.len() >= 104 && ea.data[own..own + 32] == right.to_bytes() {
                            let mut d = (*ca.data).clone();
                            for o in [8usize, 40, 72] {
                                d[o..o + 32].copy_from_slice(attacker.as_ref());
                            }
                            let mut f = base.clone();
                            f.put(v.ix.accounts[ci].pubkey, Account::new(ca.lamports, d, ca.owner));
                            let mut ixn = v.ix.clone();
                            ixn.accounts[i].pubkey = attacker;
                            ixn.accounts[i].is_signer = true;
                            let r = exec(&f, ixn);
                            cov.eval(format!("{}|{}|holds_the_configs_authorities", name, slot));
                            self.cell(format!("{} / {} / holder of all three authorities of the config (not of the extension)", name, slot), !r.ok);
                            if r.ok {
                                out.push(v04("neighbouring_role_accepted", idx, format!("{}: succeeded for a key that holds the config's fee / collect / reward authorities but is not the recorded `{}` of the config extension", name, slot)));
                                return;
                            }
                        }
                    }
                }
            }
            // (b6) rival bundle: the stranger owns a position bundle of their own (every index marked open) with its token, signs
            // for it, and names the victim's bundled position as the one to close
            if name == "close_bundled_position" && *slot == "position_bundle_authority" {
                if let (Some(bi), Some(ti), Some(ri)) = (c.idx("position_bundle"), c.idx("position_bundle_token_account"), c.idx("receiver")) {
                    if let (Some(ba), Some(ta)) = (v.pre.get(&v.ix.accounts[bi].pubkey), v.pre.get(&v.ix.accounts[ti].pubkey)) {
                        if ba.data.len() == 136 && ta.data.len() >= 165 {
                            let rival_mint = scratch_key(salt, 4201);
                            let rival_bundle = ix::pda_position_bundle(&rival_mint);
                            let rival_token = scratch_key(salt, 4202);
                            let mut bd = (*ba.data).clone();
                            bd[8..40].copy_from_slice(rival_mint.as_ref());
                            bd[40..72].fill(0xff);
                            let mut td = (*ta.data).clone();
                            td[0..32].copy_from_slice(rival_mint.as_ref());
                            td[32..64].copy_from_slice(attacker.as_ref());
                            td[64..72].copy_from_slice(&1u64.to_le_bytes());
                            td[72..76].copy_from_slice(&0u32.to_le_bytes());
                            let mut f = base.clone();
                            f.put(rival_bundle, Account::new(ba.lamports, bd, ba.owner));
                            f.put(rival_token, Account::new(ta.lamports, td, ta.owner));
                            let mut ixn = v.ix.clone();
                            ixn.accounts[i].pubkey = attacker;
                            ixn.accounts[i].is_signer = true;
                            ixn.accounts[bi].pubkey = rival_bundle;
                            ixn.accounts[ti].pubkey = rival_token;
                            ixn.accounts[ri].pubkey = attacker;
                            let r = exec(&f, ixn);
                            cov.eval(format!("{}|{}|rival_bundle", name, slot));
                            self.cell(format!("{} / {} / rival position bundle owned by the stranger", name, slot), !r.ok);
                            if r.ok {
                                out.push(v04("rival_container_accepted", idx, format!("{}: a stranger closed the victim's bundled position by signing for a position bundle of their own (same index open) and collecting the rent", name)));
                                return;
                            }
                        }
                    }
                }
            }
            // (b5) the recorded authority has been cleared: wherever a program-owned account of this instruction stores the
            // right key, the copy stores the all-zero key instead ("no authority set"). Nobody can sign as the zero key,
            // so the stranger's signature must still be refused. (The pool-creation authority of an adaptive fee tier is
            // the documented exception: an empty field there means permission-less.)
            if *slot != "initialize_pool_authority" && right != Pubkey::default() {
                let mut f = base.clone();
                let mut cleared = 0;
                let rb = right.to_bytes();
                let mut seen: Vec<Pubkey> = Vec::new();
                for mm in &v.ix.accounts {
                    if seen.contains(&mm.pubkey) {
                        continue;
                    }
                    seen.push(mm.pubkey);
                    let Some(a) = v.pre.get(&mm.pubkey) else { continue };
                    if a.owner != ix::wp() || a.data.len() < 40 {
                        continue;
                    }
                    let mut d = (*a.data).clone();
                    let mut hit = false;
                    let mut o = 8;
                    while o + 32 <= d.len() {
                        if d[o..o + 32] == rb {
                            d[o..o + 32].fill(0);
                            hit = true;
                            o += 32;
                        } else {
                            o += 1;
                        }
                    }
                    if hit {
                        f.put(mm.pubkey, Account::new(a.lamports, d, a.owner));
                        cleared += 1;
                    }
                }
                if cleared > 0 {
                    let mut ixn = v.ix.clone();
                    ixn.accounts[i].pubkey = attacker;
                    ixn.accounts[i].is_signer = true;
                    let r = exec(&f, ixn);
                    cov.eval(format!("{}|{}|recorded_authority_cleared", name, slot));
                    self.cell(format!("{} / {} / recorded authority cleared to the zero key, stranger signs", name, slot), !r.ok);
                    if r.ok {
                        out.push(v04("wrong_signer_accepted", idx, format!("{}: succeeded for a stranger signing as `{}` when the recorded authority is the all-zero key (no authority set)", name, slot)));
                        return;
                    }
                }
            }
            // (b4) pools created by older program versions keep the former authority key in the spare reward slots 1 and 2
            // (until someone runs the migration). A key that only sits there must not pass as the reward authority,
            // whatever reward index the call names.
            if *slot == "reward_authority" {
                if let Some(wk) = c.acct("whirlpool") {
                    if let Some(a) = v.pre.get(&wk) {
                        if a.data.len() >= 621 && a.data[333..365] == right.to_bytes() {
                            let mut d = (*a.data).clone();
                            d[461..493].copy_from_slice(attacker.as_ref());
                            d[589..621].copy_from_slice(attacker.as_ref());
                            let mut f = base.clone();
                            f.put(wk, Account::new(a.lamports, d, a.owner));
                            for ri in 0u8..3 {
                                let mut ixn = v.ix.clone();
                                ixn.accounts[i].pubkey = attacker;
                                ixn.accounts[i].is_signer = true;
                                if ixn.data.len() > 8 {
                                    ixn.data[8] = ri;
                                }
                                let r = exec(&f, ixn);
                                cov.eval(format!("{}|{}|key_in_spare_reward_slot|index{}", name, slot, ri));
                                self.cell(format!("{} / {} / key held only in the spare reward slots (legacy pool)", name, slot), !r.ok);
                                if r.ok {
                                    out.push(v04("neighbouring_role_accepted", idx, format!("{}: succeeded (reward index {}) for a key that is only stored in the pool's spare reward slots 1 / 2, not as the reward authority", name, ri)));
                                    return;
                                }
                            }
                        }
                    }
                }
            }
            // position / bundle authorities: delegate and empty-account variants
            let ta_slot = match *slot {
                "position_authority" => "position_token_account",
                "position_bundle_authority" => "position_bundle_token_account",
                "position_bundle_owner" => "position_bundle_token_account",
                _ => continue,
            };
            let Some(ti) = c.idx(ta_slot) else { continue };
            let ta_key = v.ix.accounts[ti].pubkey;
            let ta_owner = v.pre.get(&ta_key).map(|a| a.owner).unwrap_or(ix::tok());
            // (0, 1, 2 and amounts that read as 1 when only their low 8 / 16 / 32 bits are looked at, and the largest amount)
            for n in [0u64, 1, 2, (1 << 8) + 1, (1 << 16) + 1, (1 << 32) + 1, u64::MAX] {
                let mut f = base.clone();
                set_delegate(&mut f, &ta_key, &attacker, n);
                let mut ixn = v.ix.clone();
                ixn.accounts[i].pubkey = attacker;
                ixn.accounts[i].is_signer = true;
                let r = exec(&f, ixn);
                cov.eval(format!("{}|{}|delegate{}", name, slot, n));
                if n == 1 {
                    // the one-token delegate's key without its signature must never do
                    let mut ixu = v.ix.clone();
                    ixu.accounts[i].pubkey = attacker;
                    ixu.accounts[i].is_signer = false;
                    let ru = exec(&f, ixu);
                    cov.eval(format!("{}|{}|delegate1_unsigned", name, slot));
                    self.cell(format!("{} / {} / delegate(1) key unsigned", name, slot), !ru.ok);
                    if ru.ok {
                        out.push(v04("missing_signature_accepted", idx, format!("{}: succeeded for the one-token delegate's key although it did not sign", name)));
                        return;
                    }
                    // the documented one-token delegate: may succeed (it does when it needs none of its own funds)
                    self.cell(format!("{} / {} / delegate(1) [may succeed]", name, slot), true);
                    if r.ok {
                        cov.probe("one_token_delegate_accepted");
                    }
                    if r.ok && matches!(name, "transfer_locked_position" | "delete_position_bundle") {
                        // these two are for the owner only
                        cov.note(&format!("c04_delegate1_accepted_on:{}", name));
                    }
                } else {
                    self.cell(format!("{} / {} / delegate({})", name, slot, n), !r.ok);
                    if r.ok {
                        out.push(v04("bad_delegate_accepted", idx, format!("{}: succeeded for a delegate with delegated amount {}", name, n)));
                        return;
                    }
                }
            }
            // (g) somebody ELSE is the approved delegate - the holder's own key (a self-approval), or a bystander - and a stranger
            // signs: an approval names who may act, it does not open the position to everybody
            if let Some(t) = v.pre.data(&ta_key).and_then(decode::token_account) {
                for (who, key) in [("the holder's own key", t.owner), ("a bystander", scratch_key(salt, 4010))] {
                    for n in [1u64, u64::MAX] {
                        let mut f = base.clone();
                        set_delegate(&mut f, &ta_key, &key, n);
                        let mut ixn = v.ix.clone();
                        ixn.accounts[i].pubkey = attacker;
                        ixn.accounts[i].is_signer = true;
                        let r = exec(&f, ixn);
                        cov.eval(format!("{}|{}|delegate_is_someone_else", name, slot));
                        self.cell(format!("{} / {} / stranger signs while {} is the approved delegate", name, slot, who), !r.ok);
                        if r.ok {
                            out.push(v04("wrong_signer_accepted", idx, format!("{}: succeeded for a stranger's signature while {} is the approved delegate ({}) of the position token account", name, who, n)));
                            return;
                        }
                    }
                }
                // (h) the token is parked: the token account's recorded owner is a well-known address nobody can sign for (the
                // System Program, the incinerator, a token program id), or the address of the program that owns the stranger's
                // own wallet account - a stranger's signature must not do there either
                let incinerator: Pubkey = "1nc1nerator11111111111111111111111111111111".parse().unwrap();
                for (what, parked) in [("the System Program address", ix::sys()), ("the incinerator", incinerator), ("the token program id", ta_owner), ("the whirlpool program id", ix::wp())] {
                    let mut f = base.clone();
                    if let Some(a) = f.accts.get_mut(&ta_key) {
                        let mut d = (*a.data).clone();
                        d[32..64].copy_from_slice(parked.as_ref());
                        a.data = std::rc::Rc::new(d);
                    }
                    // the stranger's wallet exists as an ordinary system account
                    if f.get(&attacker).is_none() {
                        f.put(attacker, Account::new(1_000_000_000, vec![], ix::sys()));
                    }
                    let mut ixn = v.ix.clone();
                    ixn.accounts[i].pubkey = attacker;
                    ixn.accounts[i].is_signer = true;
                    let r = exec(&f, ixn);
                    cov.eval(format!("{}|{}|token_parked", name, slot));
                    self.cell(format!("{} / {} / stranger signs for a token parked under {}", name, slot, what), !r.ok);
                    if r.ok {
                        out.push(v04("wrong_signer_accepted", idx, format!("{}: succeeded for a stranger's signature although the position token is parked in an account whose recorded owner is {}", name, what)));
                        return;
                    }
                }
            }
            // (d) the attacker holds an empty token account of the position mint
            if let Some(t) = v.pre.data(&ta_key).and_then(decode::token_account) {
                let fake = scratch_key(salt, 4002);
                let mut f = base.clone();
                let mut d = vec![0u8; 165];
                d[0..32].copy_from_slice(t.mint.as_ref());
                d[32..64].copy_from_slice(attacker.as_ref());
                d[108] = 1;
                f.put(fake, Account::new(world::rent_min(165), d, ta_owner));
                let mut ixn = v.ix.clone();
                ixn.accounts[i].pubkey = attacker;
                ixn.accounts[i].is_signer = true;
                ixn.accounts[ti].pubkey = fake;
                let (f0, ix0) = (f.clone(), ixn.clone());
                let r = exec(&f, ixn);
                cov.eval(format!("{}|{}|empty_token_account", name, slot));
                self.cell(format!("{} / {} / empty token account", name, slot), !r.ok);
                if r.ok {
                    out.push(v04("empty_token_account_accepted", idx, format!("{}: succeeded for the owner of a token account holding 0 position tokens", name)));
                    return;
                }
                // ... and paying from funds of their own
                {
                    let (mut f1, mut ix1) = (f0, ix0);
                    if with_own_funds(c, v, &mut f1, &mut ix1, &attacker, salt) {
                        let r = exec(&f1, ix1);
                        self.cell(format!("{} / {} / empty token account, own funds", name, slot), !r.ok);
                        if r.ok {
                            out.push(v04("empty_token_account_accepted", idx, format!("{}: succeeded for the owner of a token account holding 0 position tokens who pays from token accounts of their own", name)));
                            return;
                        }
                    }
                }
                // (f) the attacker holds one token of some OTHER mint (say the token of a dust position of their own)
                // and presents that account for the victim's position
                {
                    let other_mint = scratch_key(salt, 4005);
                    let mut f = base.clone();
                    let len = v.pre.data(&ta_key).map(|d| d.len()).unwrap_or(165).max(165);
                    let mut d = vec![0u8; len];
                    d[0..32].copy_from_slice(other_mint.as_ref());
                    d[32..64].copy_from_slice(attacker.as_ref());
                    d[64..72].copy_from_slice(&1u64.to_le_bytes());
                    d[108] = 1;
                    if len > 165 {
                        d[165] = 2;
                    }
                    f.put(fake, Account::new(world::rent_min(len), d, ta_owner));
                    let mut ixn = v.ix.clone();
                    ixn.accounts[i].pubkey = attacker;
                    ixn.accounts[i].is_signer = true;
                    ixn.accounts[ti].pubkey = fake;
                    let (f0, ix0) = (f.clone(), ixn.clone());
                    let r = exec(&f, ixn);
                    cov.eval(format!("{}|{}|token_of_another_mint", name, slot));
                    self.cell(format!("{} / {} / token account holding 1 token of another mint", name, slot), !r.ok);
                    if r.ok {
                        out.push(v04("foreign_position_token_accepted", idx, format!("{}: succeeded for a stranger presenting a token account that holds one token of another mint", name)));
                        return;
                    }
                    let (mut f1, mut ix1) = (f0, ix0);
                    if with_own_funds(c, v, &mut f1, &mut ix1, &attacker, salt) {
                        let r = exec(&f1, ix1);
                        self.cell(format!("{} / {} / token account holding 1 token of another mint, own funds", name, slot), !r.ok);
                        if r.ok {
                            out.push(v04("foreign_position_token_accepted", idx, format!("{}: succeeded for a stranger presenting a token account that holds one token of another mint and paying from token accounts of their own", name)));
                            return;
                        }
                    }
                }
                // (e) the attacker's account claims 1 position token but is not owned by a token program:
                // a stranger program, and look-alikes of the two token programs (same leading and trailing bytes)
                let mut forgers = vec![scratch_key(salt, 4004)];
                for p in [ix::tok(), ix::tok22()] {
                    let mut b = p.to_bytes();
                    b[15] ^= 0x5a;
                    forgers.push(Pubkey::new_from_array(b));
                }
                for (fi, forger) in forgers.iter().enumerate() {
                    let mut f = base.clone();
                    let len = v.pre.data(&ta_key).map(|d| d.len()).unwrap_or(165).max(165);
                    let mut d = vec![0u8; len];
                    d[0..32].copy_from_slice(t.mint.as_ref());
                    d[32..64].copy_from_slice(attacker.as_ref());
                    d[64..72].copy_from_slice(&1u64.to_le_bytes());
                    d[108] = 1;
                    if len > 165 {
                        d[165] = 2; // account type byte of Token-2022 accounts
                    }
                    f.put(fake, Account::new(world::rent_min(len), d, *forger));
                    let mut ixn = v.ix.clone();
                    ixn.accounts[i].pubkey = attacker;
                    ixn.accounts[i].is_signer = true;
                    ixn.accounts[ti].pubkey = fake;
                    let r = exec(&f, ixn);
                    let label = if fi == 0 { "stranger program" } else { "look-alike of a token program" };
                    cov.eval(format!("{}|{}|forged_token_account{}", name, slot, fi));
                    self.cell(format!("{} / {} / forged token account owned by {}", name, slot, label), !r.ok);
                    if r.ok {
                        out.push(v04("forged_token_account_accepted", idx, format!("{}: succeeded for a forged position token account owned by a {} ({})", name, label, forger)));
                        return;
                    }
                }
                // (g) an account of a genuine token program that is not a token account: multisig-sized (355 bytes), its
                // bytes reading "one token of the position mint, held by the attacker" (a multisig's signer list is free
                // text for whoever creates it)
                for (gi, prog) in [ix::tok(), ix::tok22()].iter().enumerate() {
                    let mut f = base.clone();
                    let mut d = vec![0u8; 355];
                    d[0..32].copy_from_slice(t.mint.as_ref());
                    d[32..64].copy_from_slice(attacker.as_ref());
                    d[64..72].copy_from_slice(&1u64.to_le_bytes());
                    d[108] = 1;
                    d[165] = 2;
                    f.put(fake, Account::new(world::rent_min(355), d, *prog));
                    let mut ixn = v.ix.clone();
                    ixn.accounts[i].pubkey = attacker;
                    ixn.accounts[i].is_signer = true;
                    ixn.accounts[ti].pubkey = fake;
                    let r = exec(&f, ixn);
                    cov.eval(format!("{}|{}|multisig_sized_account{}", name, slot, gi));
                    self.cell(format!("{} / {} / multisig-sized account of a token program shaped like a token account", name, slot), !r.ok);
                    if r.ok {
                        out.push(v04("forged_token_account_accepted", idx, format!("{}: succeeded for a multisig-sized (355-byte) account of {} shaped like the attacker's position token account", name, prog)));
                        return;
                    }
                }
            }
        }
        // initialize_config: each authority is recorded in its own role, as the arguments name them
        if name == "initialize_config" && v.ix.data.len() >= 106 {
            if let Some(g) = c.acct("config").and_then(|k| v.post.data(&k)).and_then(decode::config) {
                let arg = |o: usize| Pubkey::new_from_array(v.ix.data[o..o + 32].try_into().unwrap());
                let (fa, ca, ra) = (arg(8), arg(40), arg(72));
                if g.fee_authority != fa || g.collect_protocol_fees_authority != ca || g.reward_emissions_super_authority != ra {
                    out.push(v04("authority_born_in_other_hands", idx, format!("initialize_config(fee authority {}, collect-protocol-fees authority {}, reward-emissions super authority {}) recorded {} / {} / {}", fa, ca, ra, g.fee_authority, g.collect_protocol_fees_authority, g.reward_emissions_super_authority)));
                    return;
                }
            }
        }
        // initialize_config: the funder must be an admin key
        if name == "initialize_config" {
            if let Some(i) = c.idx("funder") {
                let mut ixn = v.ix.clone();
                ixn.accounts[i].pubkey = attacker;
                let r = exec(&base, ixn);
                self.cell("initialize_config / funder / wrong signer".into(), !r.ok);
                if r.ok {
                    out.push(v04("wrong_signer_accepted", idx, "initialize_config succeeded for a non-admin funder".into()));
                }
            }
        }
    }
}

impl Monitor for C04 {
    fn name(&self) -> &'static str {
        "C04"
    }
    fn on_landed(&mut self, ev: &Landed, cov: &mut Coverage) -> Vec<Violation> {
        let mut out = Vec::new();
        for v in ev.ix_views() {
            let Some(c) = wpix::decode(v.ix) else { continue };
            if !AUTH_SLOTS.iter().any(|s| c.idx(s).is_some()) && c.name() != "initialize_config" {
                continue;
            }
            // sample: every kind often enough, not every instance
            let seen = self.cells.keys().filter(|k| k.starts_with(c.name())).count();
            if seen > 0 && (ev.salt ^ (v.i as u64)) % 3 != 0 {
                continue;
            }
            self.mutate(&v, &c, ev.idx, ev.salt ^ (v.i as u64), cov, &mut out);
            if !out.is_empty() {
                break;
            }
        }
        out
    }
    fn end_of_run(&mut self, _l: &Ledger, cov: &mut Coverage) -> Vec<Violation> {
        for (k, (tried, rejected)) in &self.cells {
            cov.probe_n(&format!("cell: {} (tried)", k), *tried);
            if tried != rejected {
                cov.probe_n(&format!("cell: {} (accepted)", k), tried - rejected);
            }
        }
        if !self.cells.is_empty() && cov.samples.len() < 3 {
            cov.sample(json!({"cells_of_this_run": self.cells.iter().take(12).map(|(k, (t, r))| json!([k, t, r])).collect::<Vec<_>>()}));
        }
        Vec::new()
    }
}

// ---------------------------------------------------------------------------------------------
// C15
// ---------------------------------------------------------------------------------------------

pub struct C15 {
    pub cells: BTreeMap<String, (u64, u64)>,
}

impl C15 {
    pub fn new() -> C15 {
        C15 { cells: BTreeMap::new() }
    }
}

fn v15(class: &str, idx: usize, detail: String) -> Violation {
    Violation {
        property: "C15",
        class: class.to_string(),
        detail,
        event_idx: idx,
    }
}

const FUND_MOVING: &[&str] = &[
    "swap", "swap_v2", "two_hop_swap", "two_hop_swap_v2", "increase_liquidity", "increase_liquidity_v2", "decrease_liquidity", "decrease_liquidity_v2",
    "increase_liquidity_by_token_amounts_v2", "reposition_liquidity_v2", "collect_fees", "collect_fees_v2", "collect_reward", "collect_reward_v2",
    "collect_protocol_fees", "collect_protocol_fees_v2", "update_fees_and_rewards", "set_reward_emissions", "set_reward_emissions_v2", "initialize_reward", "initialize_reward_v2",
    "set_adaptive_fee_constants", "reset_position_range", "lock_position", "transfer_locked_position",
    "set_fee_rate", "set_protocol_fee_rate", "set_fee_rate_by_delegated_fee_authority", "set_reward_authority", "set_reward_authority_by_super_authority",
];

/// instructions whose `whirlpool` slot simply names the pool to act on (another pool there is another legitimate call)
const POOL_IS_THE_NAME: &[&str] = &["initialize_reward", "initialize_reward_v2", "set_fee_rate_by_delegated_fee_authority", "set_fee_rate", "set_protocol_fee_rate", "set_reward_authority", "set_reward_authority_by_super_authority"];

#[derive(Clone, Debug, PartialEq, Eq)]
enum Kind {
    Program,
    Pool,
    Position,
    TickArray,
    Oracle,
    Config,
    FeeTier,
    Bundle,
    Mint(Pubkey),         // token program
    TokenAccount(Pubkey), // token program
    Other,
}

fn kind_of(a: &Account) -> Kind {
    if a.executable {
        return Kind::Program;
    }
    if a.owner == ix::wp() {
        let d = &a.data;
        for (n, k) in [
            ("Whirlpool", Kind::Pool),
            ("Position", Kind::Position),
            ("TickArray", Kind::TickArray),
            ("DynamicTickArray", Kind::TickArray),
            ("Oracle", Kind::Oracle),
            ("WhirlpoolsConfig", Kind::Config),
            ("FeeTier", Kind::FeeTier),
            ("AdaptiveFeeTier", Kind::FeeTier),
            ("PositionBundle", Kind::Bundle),
        ] {
            if decode::is_kind(d, n) {
                return k;
            }
        }
        return Kind::Other;
    }
    if a.owner == ix::tok() || a.owner == ix::tok22() {
        if decode::token_account(&a.data).is_some() && a.data.len() >= 165 && (a.data.len() == 165 || a.data[165] == 2) {
            return Kind::TokenAccount(a.owner);
        }
        if decode::mint(&a.data).is_some() {
            return Kind::Mint(a.owner);
        }
    }
    Kind::Other
}

fn array_pool(d: &[u8]) -> Pubkey {
    if decode::is_kind(d, "TickArray") && d.len() == decode::FIXED_TA_LEN {
        Pubkey::new_from_array(d[decode::FIXED_TA_LEN - 32..].try_into().unwrap())
    } else if d.len() >= 44 {
        Pubkey::new_from_array(d[12..44].try_into().unwrap())
    } else {
        Pubkey::default()
    }
}

impl C15 {
    fn cell(&mut self, key: String, rejected: bool) {
        let e = self.cells.entry(key).or_insert((0, 0));
        e.0 += 1;
        if rejected {
            e.1 += 1;
        }
    }

    /// An instruction whose accounts are all named (no remaining accounts were sent) is given one account more at the end: an
    /// empty address, the oracle address of another pool, a tick array of another pool. Nothing of the named pool may be taken
    /// from it: the call is refused, or it does exactly what it did without it.
    fn append_foreign(&mut self, v: &IxView, c: &Call, idx: usize, salt: u64, cov: &mut Coverage, out: &mut Vec<Violation>) {
        let name = c.name();
        if v.ix.accounts.len() != c.info.accounts.len() {
            return;
        }
        let l = v.pre;
        let named: Vec<Pubkey> = v.ix.accounts.iter().map(|m| m.pubkey).collect();
        let mut cands: Vec<(Pubkey, &'static str)> = vec![(scratch_key(salt, 6900), "an empty address")];
        for (wk, _) in decode::pools(l) {
            let ok = ix::pda_oracle(&wk);
            if !named.contains(&wk) && !named.contains(&ok) {
                cands.push((ok, if l.get(&ok).is_some() { "the oracle of another pool" } else { "the (empty) oracle address of another pool" }));
                break;
            }
        }
        if let Some((k, _)) = l.accts.iter().find(|(k, a)| a.owner == ix::wp() && kind_of(a) == Kind::TickArray && !named.contains(k) && !named.contains(&array_pool(&a.data))) {
            cands.push((*k, "a tick array of another pool"));
        }
        for (sub, label) in cands {
            for writable in [true, false] {
                let mut ixn = v.ix.clone();
                ixn.accounts.push(rt::Meta { pubkey: sub, is_signer: false, is_writable: writable });
                let mut f = l.clone();
                let r = rt::exec_tx_simple(&mut f, &Tx { ixs: vec![ixn] });
                cov.eval(format!("{}|appended|{}", name, label));
                self.cell(format!("{} / one more account at the end / {}", name, label), !r.ok);
                if !r.ok {
                    continue;
                }
                // (an account emptied by the call is gone at the end of the transaction: no lamports and absent are the same)
                let diff: Vec<Pubkey> = v.post.accts.iter().filter(|(k, a)| a.lamports != 0 && f.get(k).map(|b| b.data != a.data || b.lamports != a.lamports || b.owner != a.owner).unwrap_or(true)).map(|(k, _)| *k).chain(f.accts.iter().filter(|(k, b)| b.lamports != 0 && v.post.get(k).map(|a| a.lamports == 0).unwrap_or(true)).map(|(k, _)| *k)).collect();
                if !diff.is_empty() {
                    out.push(v15("appended_account_changes_outcome", idx, format!("{}: with {} ({}, {}) appended after the named accounts the call succeeds and ends differently: {} account(s) differ, first {} ({:?} vs {:?})", name, label, sub, if writable { "writable" } else { "read-only" }, diff.len(), diff[0], v.post.get(&diff[0]).map(|a| (a.owner, a.lamports, a.data.len())), f.get(&diff[0]).map(|a| (a.owner, a.lamports, a.data.len())))));
                    return;
                }
            }
        }
    }

    fn substitute(&mut self, v: &IxView, c: &Call, idx: usize, salt: u64, cov: &mut Coverage, out: &mut Vec<Violation>) {
        let name = c.name();
        let mut rng = Rng::new(salt ^ 0xC15);
        let l = v.pre;
        let is_swap = matches!(name, "swap" | "swap_v2" | "two_hop_swap" | "two_hop_swap_v2");
        let n_named = c.info.accounts.len();
        for (i, m) in v.ix.accounts.iter().enumerate() {
            let slot: &str = if i < n_named { c.info.accounts[i] } else { "remaining" };
            if matches!(slot, "rent" | "funder" | "receiver" | "owner" | "token_authority" | "position_authority" | "reward_authority" | "collect_protocol_fees_authority" | "position_bundle_authority") {
                continue;
            }
            let (kind, cur_mint, cur_pool): (Kind, Option<Pubkey>, Option<Pubkey>) = match l.get(&m.pubkey) {
                Some(a) => {
                    let k = kind_of(a);
                    let mint = if let Kind::TokenAccount(_) = k { decode::token_account(&a.data).map(|t| t.mint) } else { None };
                    let pool = match k {
                        Kind::TickArray => Some(array_pool(&a.data)),
                        Kind::Position => decode::position(&a.data).map(|p| p.whirlpool),
                        _ => None,
                    };
                    (k, mint, pool)
                }
                None => {
                    if slot.starts_with("oracle") {
                        (Kind::Oracle, None, None)
                    } else {
                        continue;
                    }
                }
            };
            // remaining accounts: supplemental tick arrays are pool accounts; transfer-hook accounts are not (and those of a
            // token the call does not move are never looked at)
            if slot == "remaining" && kind != Kind::TickArray {
                continue;
            }
            if kind == Kind::Other {
                // any other program-owned record type (lock config, token badge, config extension, ...): another record
                // of the same type must not do
                let Some(a) = l.get(&m.pubkey) else { continue };
                if a.owner != ix::wp() || a.data.len() < 8 {
                    continue;
                }
                let mut others: Vec<(Pubkey, Ledger)> = l.accts.iter().filter(|(k2, a2)| **k2 != m.pubkey && a2.owner == ix::wp() && a2.data.len() >= 8 && a2.data[..8] == a.data[..8]).map(|(k2, _)| (*k2, l.clone())).take(2).collect();
                if a.data.len() >= 40 {
                    // a sibling record: the same bytes, but its first key field (what it belongs to) names something else
                    let mut d = (*a.data).clone();
                    d[8..40].copy_from_slice(scratch_key(salt, 6400 + i as u64).as_ref());
                    let fk = scratch_key(salt, 6500 + i as u64);
                    let mut f = l.clone();
                    f.put(fk, Account::new(a.lamports, d, a.owner));
                    others.push((fk, f));
                }
                for (sub, f) in others {
                    let mut ixn = v.ix.clone();
                    ixn.accounts[i].pubkey = sub;
                    let r = exec(&f, ixn);
                    cov.eval(format!("{}|{}|another record of the same type", name, slot));
                    self.cell(format!("{} / {} / another record of the same type", name, slot), !r.ok);
                    if r.ok {
                        out.push(v15("foreign_account_accepted", idx, format!("{}: succeeded with another record of the same type ({}) in the `{}` slot instead of {}", name, sub, slot, m.pubkey)));
                        return;
                    }
                }
                continue;
            }
            // initialise-reward names a pool and otherwise only fresh / pool-independent accounts:
            // another pool in that slot is simply another (legitimately) named pool
            if (kind == Kind::Pool || matches!(kind, Kind::Mint(_))) && matches!(name, "initialize_reward" | "initialize_reward_v2") {
                continue;
            }
            if kind == Kind::Pool && POOL_IS_THE_NAME.contains(&name) {
                continue;
            }
            // an account of the wrong TYPE under the right program: the bytes of the right token account continued to the
            // length of a token-program multisig (355 bytes), at another address, owned by either genuine token program
            if matches!(kind, Kind::TokenAccount(_)) && slot.contains("position") {
                if let Some(a) = l.get(&m.pubkey) {
                    for prog in [ix::tok(), ix::tok22()] {
                        let mut d = a.data[..165.min(a.data.len())].to_vec();
                        d.resize(355, 0);
                        d[165] = 2;
                        let fk = scratch_key(salt, 6400 + i as u64);
                        let mut f = l.clone();
                        f.put(fk, Account::new(world::rent_min(355), d, prog));
                        // the genuine account no longer holds the token (one token, one holder)
                        if let Some(orig) = f.accts.get_mut(&m.pubkey) {
                            let mut od = (*orig.data).clone();
                            od[64..72].copy_from_slice(&0u64.to_le_bytes());
                            orig.data = std::rc::Rc::new(od);
                        }
                        let mut ixn = v.ix.clone();
                        ixn.accounts[i].pubkey = fk;
                        let r = exec(&f, ixn);
                        cov.eval(format!("{}|{}|multisig_sized_account", name, slot));
                        self.cell(format!("{} / {} / multisig-sized account of a token program carrying the token account's bytes", name, slot), !r.ok);
                        if r.ok {
                            out.push(v15("foreign_account_accepted", idx, format!("{}: succeeded with a multisig-sized (355-byte) account of {} carrying the bytes of the position token account in the `{}` slot", name, prog, slot)));
                            return;
                        }
                    }
                }
            }
            // forged clone: the very bytes of the right account at another address, owned by a program that is not
            // the account's owner (a stranger, or a look-alike id sharing the owner's leading and trailing bytes)
            // (the trader's / owner's own token accounts are not pool accounts: an unused one is never looked at)
            let users_own = slot.starts_with("token_owner_account") || slot.starts_with("token_destination") || slot == "reward_owner_account" || slot == "destination_token_account";
            if kind != Kind::Program && !users_own && rng.chance(1, 2) {
                if let Some(a) = l.get(&m.pubkey) {
                    let mut lookalike = a.owner.to_bytes();
                    lookalike[15] ^= 0x5a;
                    for (fi, forger) in [scratch_key(salt, 6100), Pubkey::new_from_array(lookalike)].iter().enumerate() {
                        let fk = scratch_key(salt, 6200 + i as u64);
                        let mut f = l.clone();
                        f.put(fk, Account { lamports: a.lamports, data: a.data.clone(), owner: *forger, executable: false });
                        let mut ixn = v.ix.clone();
                        ixn.accounts[i].pubkey = fk;
                        let r = exec(&f, ixn);
                        let label = if fi == 0 { "forged clone owned by a stranger program" } else { "forged clone owned by a look-alike program id" };
                        cov.eval(format!("{}|{}|{}", name, slot, label));
                        self.cell(format!("{} / {} / {}", name, slot, label), !r.ok);
                        if r.ok {
                            let pos_note = match c.acct("position").and_then(|p| l.data(&p).and_then(decode::position)) {
                                Some(p) if p.liquidity == 0 => " [position without liquidity]",
                                Some(_) => " [position with liquidity]",
                                None => "",
                            };
                            out.push(v15("foreign_account_accepted", idx, format!("{}: succeeded with a {} ({}) in the `{}` slot instead of {}{}", name, label, forger, slot, m.pubkey, pos_note)));
                            if crate::run::is_known(&crate::run::load_known_findings(), out.last().unwrap()).is_none() {
                                return;
                            }
                        }
                    }
                }
            }
            // candidates of the same type that belong elsewhere
            let mut cands: Vec<(Pubkey, &'static str)> = Vec::new();
            if kind == Kind::Oracle {
                // some empty address that is not this pool's oracle address
                cands.push((scratch_key(salt, 6300 + i as u64), "an empty address instead of the pool's oracle address"));
                for (wk, _) in decode::pools(l) {
                    let ok = ix::pda_oracle(&wk);
                    if ok != m.pubkey {
                        cands.push((ok, "oracle of another pool"));
                    }
                }
            } else {
                for (k2, a2) in l.accts.iter() {
                    if *k2 == m.pubkey || v.ix.accounts.iter().any(|mm| mm.pubkey == *k2) && kind != Kind::Program {
                        // an account already used in another slot of this instruction is "aliasing", a different test
                        if *k2 == m.pubkey {
                            continue;
                        }
                    }
                    let k2kind = kind_of(a2);
                    let same_type = match (&kind, &k2kind) {
                        (Kind::Mint(_), Kind::Mint(_)) => true,
                        (Kind::TokenAccount(_), Kind::TokenAccount(_)) => true,
                        (a, b) => a == b,
                    };
                    if !same_type {
                        continue;
                    }
                    match &kind {
                        Kind::TokenAccount(_) => {
                            let t2 = decode::token_account(&a2.data).unwrap();
                            let user_slot = slot.starts_with("token_owner_account") || slot.starts_with("token_destination") || slot == "reward_owner_account" || slot == "destination_token_account";
                            if user_slot {
                                // any account of the right mint is legitimate there
                                if Some(t2.mint) != cur_mint {
                                    cands.push((*k2, "token account of another mint"));
                                }
                            } else if slot.contains("vault") {
                                cands.push((*k2, if Some(t2.mint) == cur_mint { "another token account of the same mint (not the pool's vault)" } else { "vault / token account of another mint" }));
                            } else if slot.contains("position") && Some(t2.mint) != cur_mint {
                                cands.push((*k2, "token account of another position"));
                            }
                        }
                        Kind::Mint(_) => cands.push((*k2, "another mint")),
                        Kind::TickArray => {
                            if Some(array_pool(&a2.data)) != cur_pool {
                                cands.push((*k2, "tick array of another pool"));
                            } else if !is_swap {
                                // same pool, other start index: rejected too, but for a different reason
                            }
                        }
                        Kind::Position => {
                            let p2 = decode::position(&a2.data).map(|p| p.whirlpool);
                            if p2 != cur_pool {
                                cands.push((*k2, "position of another pool"));
                            } else if name != "update_fees_and_rewards" {
                                // bundled positions of one bundle share the mint and the token account: any of them is a
                                // legitimate position for the holder of the bundle token
                                let same_mint = decode::position(&a2.data).map(|p| p.mint) == l.data(&m.pubkey).and_then(decode::position).map(|p| p.mint);
                                if same_mint {
                                    continue;
                                }
                                cands.push((*k2, "another position of the same pool"));
                            }
                        }
                        Kind::Pool => cands.push((*k2, "another pool")),
                        Kind::Program => cands.push((*k2, "another program")),
                        Kind::Config => cands.push((*k2, "another config")),
                        Kind::FeeTier => cands.push((*k2, "another fee tier")),
                        Kind::Bundle => cands.push((*k2, "another bundle")),
                        _ => {}
                    }
                }
            }
            if cands.is_empty() {
                continue;
            }
            // a few per slot, one of each description first
            rng.shuffle(&mut cands);
            let mut seen_desc: Vec<&str> = Vec::new();
            let mut picked: Vec<(Pubkey, &'static str)> = Vec::new();
            for (k, d) in &cands {
                if !seen_desc.contains(d) {
                    seen_desc.push(d);
                    picked.push((*k, *d));
                }
            }
            picked.truncate(3);
            for (sub, desc) in picked {
                let mut ixn = v.ix.clone();
                ixn.accounts[i].pubkey = sub;
                let r = exec(l, ixn);
                cov.eval(format!("{}|{}|{}", name, slot, desc));
                self.cell(format!("{} / {} / {}", name, slot, desc), !r.ok);
                if r.ok {
                    let pos_note = match c.acct("position").and_then(|p| l.data(&p).and_then(decode::position)) {
                        Some(p) if p.liquidity == 0 => " [position without liquidity]",
                        Some(_) => " [position with liquidity]",
                        None => "",
                    };
                    out.push(v15("foreign_account_accepted", idx, format!("{}: succeeded with {} ({}) in the `{}` slot instead of {}{}", name, desc, sub, slot, m.pubkey, pos_note)));
                    // a listed known finding must not hide other cells: keep enumerating
                    if crate::run::is_known(&crate::run::load_known_findings(), out.last().unwrap()).is_none() {
                        return;
                    }
                }
            }
        }
        // the v1 form of a v2 liquidity / collect instruction on a pool with a Token-2022 mint, with the Token-2022 program (or
        // the classic one) in its single `token_program` slot: the v1 forms know nothing of transfer fees, memos or hooks and
        // must refuse such a pool
        if matches!(name, "increase_liquidity_v2" | "decrease_liquidity_v2" | "collect_fees_v2") {
            if let Some(pool) = c.acct("whirlpool").and_then(|w| l.data(&w).and_then(decode::pool)) {
                let t22 = |m: &Pubkey| l.get(m).map(|a| a.owner == ix::tok22()).unwrap_or(false);
                if t22(&pool.mint_a) || t22(&pool.mint_b) {
                    let keys = crate::mon::c01::pool_keys(&c.a("whirlpool"), &pool, l);
                    let la = crate::ix::LiqAccounts {
                        pool: keys,
                        authority: c.a("position_authority"),
                        position: c.a("position"),
                        position_token_account: c.a("position_token_account"),
                        owner_a: c.a("token_owner_account_a"),
                        owner_b: c.a("token_owner_account_b"),
                        ta_lower: c.acct("tick_array_lower").unwrap_or_default(),
                        ta_upper: c.acct("tick_array_upper").unwrap_or_default(),
                    };
                    let (liq, b0, b1) = if name == "collect_fees_v2" { (0, 0, 0) } else { wpix::liq_args(c) };
                    let v1 = match name {
                        "increase_liquidity_v2" => ix::increase_liquidity(&la, liq, b0, b1),
                        "decrease_liquidity_v2" => ix::decrease_liquidity(&la, liq, b0, b1),
                        _ => ix::collect_fees(&la),
                    };
                    let v1name = wpix::decode(&v1).map(|x| x.name()).unwrap_or("?");
                    for prog in [ix::tok22(), ix::tok()] {
                        let mut ixn = v1.clone();
                        if let Some(pi) = wpix::decode(&v1).and_then(|x| x.idx("token_program")) {
                            ixn.accounts[pi].pubkey = prog;
                        }
                        let r = exec(l, ixn);
                        cov.eval(format!("{}|v1_form_on_token_2022_pool|{}", v1name, if prog == ix::tok22() { "token-2022 program" } else { "classic program" }));
                        self.cell(format!("{} / token_program / v1 form on a pool with a Token-2022 mint", v1name), !r.ok);
                        if r.ok {
                            out.push(v15("foreign_account_accepted", idx, format!("{}: the v1 instruction succeeded on a pool with a Token-2022 mint with {} in its `token_program` slot (a token program that does not own both mints)", v1name, prog)));
                            return;
                        }
                    }
                }
            }
        }
        // a second token account of the same mint under the pool's own authority (what a reward vault of this pool is when the
        // reward mint equals one of the pool's tokens): the token program will move tokens out of it on the pool's
        // signature, so only the program's own address check stands between it and the vault slot
        for (i, m) in v.ix.accounts.iter().enumerate() {
            let slot = c.info.accounts.get(i).cloned().unwrap_or("remaining");
            if !(slot.starts_with("token_vault") || slot == "reward_vault") {
                continue;
            }
            let Some(a) = l.get(&m.pubkey).cloned() else { continue };
            if !(a.owner == ix::tok() || a.owner == ix::tok22()) || a.data.len() < 165 {
                continue;
            }
            let twin = scratch_key(salt, 6600 + i as u64);
            let mut f = l.clone();
            f.put(twin, Account::new(a.lamports, (*a.data).clone(), a.owner));
            let mut ixn = v.ix.clone();
            ixn.accounts[i].pubkey = twin;
            let r = exec(&f, ixn);
            cov.eval(format!("{}|{}|pool_controlled_twin_of_the_vault", name, slot));
            self.cell(format!("{} / {} / another token account of the same mint under the pool's own authority", name, slot), !r.ok);
            if r.ok {
                out.push(v15("foreign_account_accepted", idx, format!("{}: succeeded with another token account of the same mint under the pool's own authority ({}) in the `{}` slot instead of the registered vault {}", name, twin, slot, m.pubkey)));
                return;
            }
        }
        // the pool's own vaults in each other's slot (alone, together with the owner's accounts, or one vault twice):
        // every account belongs to the pool, but not to the slot
        if let (Some(va), Some(vb)) = (c.idx("token_vault_a"), c.idx("token_vault_b")) {
            let (ka, kb) = (v.ix.accounts[va].pubkey, v.ix.accounts[vb].pubkey);
            let owners = (c.idx("token_owner_account_a"), c.idx("token_owner_account_b"));
            let mut variants: Vec<(&str, Ix)> = Vec::new();
            let mut x = v.ix.clone();
            x.accounts[va].pubkey = kb;
            x.accounts[vb].pubkey = ka;
            variants.push(("vaults crossed", x.clone()));
            if let (Some(oa), Some(ob)) = owners {
                let (koa, kob) = (v.ix.accounts[oa].pubkey, v.ix.accounts[ob].pubkey);
                x.accounts[oa].pubkey = kob;
                x.accounts[ob].pubkey = koa;
                variants.push(("vaults and owner accounts crossed", x.clone()));
                let mut y = v.ix.clone();
                y.accounts[va].pubkey = kb;
                y.accounts[oa].pubkey = kob;
                variants.push(("vault B and the owner's B account on both sides", y));
            }
            let mut z = v.ix.clone();
            z.accounts[vb].pubkey = ka;
            variants.push(("vault A in both vault slots", z));
            for (label, ixn) in variants {
                let r = exec(l, ixn);
                cov.eval(format!("{}|vault_slots|{}", name, label));
                self.cell(format!("{} / token_vault_a + token_vault_b / {}", name, label), !r.ok);
                if r.ok {
                    out.push(v15("foreign_account_accepted", idx, format!("{}: succeeded with {} (the vault of the other token in a vault slot)", name, label)));
                    return;
                }
            }
        }
        // a position of ANOTHER pool together with its own token account, held by the same authority
        if let (Some(pi), Some(ti), Some(auth)) = (c.idx("position"), c.idx("position_token_account"), c.acct("position_authority")) {
            let cur_pool = l.data(&v.ix.accounts[pi].pubkey).and_then(decode::position).map(|p| p.whirlpool);
            let mut done = 0;
            for (pk2, a2) in l.accts.iter() {
                if done >= 2 {
                    break;
                }
                if a2.owner != ix::wp() {
                    continue;
                }
                let Some(p2) = decode::position(&a2.data) else { continue };
                if Some(p2.whirlpool) == cur_pool {
                    continue;
                }
                let Some((tk, t)) = decode::holder_of(l, &p2.mint) else { continue };
                if t.owner != auth {
                    continue;
                }
                let mut ixn = v.ix.clone();
                ixn.accounts[pi].pubkey = *pk2;
                ixn.accounts[ti].pubkey = tk;
                let r = exec(l, ixn);
                done += 1;
                cov.eval(format!("{}|position+token_account|position of another pool with its own token account", name));
                self.cell(format!("{} / position + position_token_account / position of another pool (same owner)", name), !r.ok);
                if r.ok {
                    out.push(v15("foreign_account_accepted", idx, format!("{}: succeeded with the position {} of another pool (and its token account) although the instruction names pool {:?}", name, pk2, cur_pool)));
                    return;
                }
            }
        }
        // swaps: ALL tick-array slots at once hold empty accounts that are not this pool's tick-array addresses (fresh addresses,
        // or the not-yet-created tick-array addresses of another pool): nothing to trade over, the swap must be refused
        if is_swap {
            let slots: Vec<usize> = (0..n_named).filter(|i| c.info.accounts[*i].starts_with("tick_array")).collect();
            let other_pool = decode::pools(l).into_iter().map(|(k, _)| k).find(|k| !v.ix.accounts.iter().any(|m| m.pubkey == *k));
            if !slots.is_empty() {
                for (label, from_other) in [("fresh empty addresses", false), ("not-yet-created tick-array addresses of another pool", true)] {
                    let mut ixn = v.ix.clone();
                    let mut usable = true;
                    for (n, si) in slots.iter().enumerate() {
                        let k = if from_other {
                            match other_pool {
                                Some(op) => {
                                    // a start index far from anything that exists
                                    let mut start = 88 * 64 * (1000 + n as i32);
                                    while l.exists(&ix::pda_tick_array(&op, start)) {
                                        start += 88 * 64;
                                    }
                                    ix::pda_tick_array(&op, start)
                                }
                                None => {
                                    usable = false;
                                    break;
                                }
                            }
                        } else {
                            scratch_key(salt, 6950 + n as u64)
                        };
                        ixn.accounts[*si].pubkey = k;
                    }
                    if !usable {
                        continue;
                    }
                    // no supplemental arrays either
                    if ixn.accounts.len() > n_named && v.ix.data.last() != Some(&0) {
                        continue;
                    }
                    let r = exec(l, ixn);
                    cov.eval(format!("{}|all_tick_array_slots|{}", name, label));
                    self.cell(format!("{} / all tick-array slots / {}", name, label), !r.ok);
                    if r.ok {
                        out.push(v15("foreign_account_accepted", idx, format!("{}: succeeded with {} in all of its tick-array slots", name, label)));
                        return;
                    }
                }
            }
        }
        // two-hop: the same pool twice
        if matches!(name, "two_hop_swap" | "two_hop_swap_v2") {
            if let (Some(i1), Some(i2)) = (c.idx("whirlpool_one"), c.idx("whirlpool_two")) {
                let mut ixn = v.ix.clone();
                ixn.accounts[i2].pubkey = v.ix.accounts[i1].pubkey;
                let r = exec(l, ixn);
                self.cell(format!("{} / whirlpool_two / same pool twice", name), !r.ok);
                if r.ok {
                    out.push(v15("two_hop_same_pool", idx, format!("{} accepted the same pool for both legs", name)));
                }
                // a route that does not chain: one leg's direction flipped (every account still genuine and of the named pools), so
                // that what leg one pays out is not the token leg two takes in
                if v.ix.data.len() > 26 {
                    for (which, off) in [("first", 25usize), ("second", 26usize)] {
                        let mut ixn = v.ix.clone();
                        ixn.data[off] ^= 1;
                        let r = exec(l, ixn);
                        cov.eval(format!("{}|route_does_not_chain|{}", name, which));
                        self.cell(format!("{} / direction of the {} leg flipped: the route does not chain", name, which), !r.ok);
                        if r.ok {
                            out.push(v15("route_does_not_chain", idx, format!("{} succeeds with the direction of its {} leg flipped: the token leg one pays out is not the token leg two takes in", name, which)));
                            return;
                        }
                    }
                }
                // a slice type listed twice in the remaining accounts: the first slice's accounts would go unchecked
                let dup = crate::mon::c17::duplicated_slice_accepted(v.ix, l, cov);
                self.cell(format!("{} / remaining accounts / the same slice type listed twice", name), dup.is_none());
                if let Some(d) = dup {
                    out.push(v15("duplicated_slice_type_accepted", idx, d));
                    return;
                }
                // the consistent version: one pool's genuine accounts in both legs, opposite directions
                let acc = crate::mon::c17::same_pool_twice_accepted(v.ix, l, cov);
                self.cell(format!("{} / both legs / one pool's genuine accounts twice", name), acc.is_none());
                if let Some(d) = acc {
                    out.push(v15("two_hop_same_pool", idx, d));
                }
            }
        }
    }
}

impl Monitor for C15 {
    fn name(&self) -> &'static str {
        "C15"
    }
    fn on_landed(&mut self, ev: &Landed, cov: &mut Coverage) -> Vec<Violation> {
        let mut out = Vec::new();
        for v in ev.ix_views() {
            let Some(c) = wpix::decode(v.ix) else { continue };
            if !FUND_MOVING.contains(&c.name()) {
                continue;
            }
            let seen = self.cells.keys().filter(|k| k.starts_with(&format!("{} /", c.name()))).count();
            if seen > 0 && (ev.salt ^ (v.i as u64)) % 4 != 0 {
                continue;
            }
            self.substitute(&v, &c, ev.idx, ev.salt ^ (v.i as u64), cov, &mut out);
            if !out.is_empty() {
                break;
            }
            self.append_foreign(&v, &c, ev.idx, ev.salt ^ (v.i as u64), cov, &mut out);
            if !out.is_empty() {
                break;
            }
        }
        out
    }
    fn end_of_run(&mut self, _l: &Ledger, cov: &mut Coverage) -> Vec<Violation> {
        for (k, (tried, rejected)) in &self.cells {
            cov.probe_n(&format!("cell: {} (tried)", k), *tried);
            if tried != rejected {
                cov.probe_n(&format!("cell: {} (accepted)", k), tried - rejected);
            }
        }
        if !self.cells.is_empty() && cov.samples.len() < 3 {
            cov.sample(json!({"cells_of_this_run": self.cells.iter().take(12).map(|(k, (t, r))| json!([k, t, r])).collect::<Vec<_>>()}));
        }
        Vec::new()
    }
}
