//! C08 — liquidity converts to token amounts exactly: up on deposit, down on withdrawal
//! (instruction level: balances, bounds, max/min edges on forks, add-then-remove probe).

use crate::decode::{self, Pool, Position};
use crate::model;
use crate::rt::{self, Ledger, Tx};
use crate::sim::{Coverage, IxView, Landed, Monitor, Violation};
use crate::world::token_amount;
use crate::wpix::{self, Call};
use num_bigint::BigUint;
use num_traits::{ToPrimitive, Zero};
use serde_json::json;
use solana_program::pubkey::Pubkey;

pub struct C08;

fn viol(class: &str, idx: usize, detail: String) -> Violation {
    Violation {
        property: "C08",
        class: class.to_string(),
        detail,
        event_idx: idx,
    }
}

fn plain(l: &Ledger, p: &Pool) -> bool {
    l.get(&p.mint_a).map(|a| a.owner == crate::ix::tok()).unwrap_or(false) && l.get(&p.mint_b).map(|a| a.owner == crate::ix::tok()).unwrap_or(false)
}

fn delta(pre: &Ledger, post: &Ledger, k: &Pubkey) -> i128 {
    token_amount(post, k) as i128 - token_amount(pre, k) as i128
}

fn region(pool: &Pool, lo: i32, hi: i32) -> &'static str {
    let shifted = pool.tick_current_index + 1 <= decode::MAX_TICK && pool.sqrt_price == model::sqrt_price_of_tick(pool.tick_current_index + 1);
    if pool.tick_current_index < lo {
        if shifted && pool.tick_current_index + 1 == lo { "below(shifted-at-lower)" } else { "below" }
    } else if pool.tick_current_index < hi {
        if pool.sqrt_price == model::sqrt_price_of_tick(lo) { "inside(at-lower)" } else { "inside" }
    } else if shifted && pool.tick_current_index + 1 == hi {
        "above(shifted-at-upper)"
    } else if pool.sqrt_price == model::sqrt_price_of_tick(hi) {
        "above(at-upper)"
    } else {
        "above"
    }
}

/// smallest amount whose value after the token program's transfer fee is at least `need` (None: beyond u64)
fn fee_included(l: &Ledger, mint: &Pubkey, epoch: u64, need: u128) -> Option<u64> {
    if need > u64::MAX as u128 {
        return None;
    }
    let g = |x: u64| -> u128 { (x - crate::world::transfer_fee_of(l, mint, epoch, x).min(x)) as u128 };
    if g(u64::MAX) < need {
        return None;
    }
    let (mut lo, mut hi) = (need as u64, u64::MAX);
    while lo < hi {
        let mid = lo + (hi - lo) / 2;
        if g(mid) >= need {
            hi = mid;
        } else {
            lo = mid + 1;
        }
    }
    Some(lo)
}

/// Liquidity instructions on pools whose mints are Token-2022 (transfer fee, transfer hook, ...): what reaches or leaves
/// the vault is the exact amount; the caller's maximum bounds what is taken from them, the minimum what arrives.
#[allow(clippy::too_many_arguments)]
fn token_2022_pool(name: &str, c: &Call, v: &IxView, x: &Ctx, epoch: u64, idx: usize, cov: &mut Coverage, out: &mut Vec<Violation>) {
    let (lo, hi) = (x.pre_pos.lower, x.pre_pos.upper);
    let by_amounts = name == "increase_liquidity_by_token_amounts_v2";
    let inc = name.starts_with("increase");
    let (liq, bound_a, bound_b) = if by_amounts {
        let mut r = c.args();
        let _ = r.u8();
        (x.post_pos.liquidity.wrapping_sub(x.pre_pos.liquidity), r.u64(), r.u64())
    } else {
        wpix::liq_args(c)
    };
    let (ea, eb) = model::liquidity_amounts(liq, x.pre_pool.tick_current_index, x.pre_pool.sqrt_price, lo, hi, inc);
    let (ea_i, eb_i) = (ea.to_i128().unwrap_or(i128::MAX), eb.to_i128().unwrap_or(i128::MAX));
    let fee_a = crate::world::transfer_fee_params(v.pre, &x.pre_pool.mint_a, epoch).is_some();
    let fee_b = crate::world::transfer_fee_params(v.pre, &x.pre_pool.mint_b, epoch).is_some();
    cov.eval(format!("{}|token2022|{}|fee_a={}|fee_b={}", name, region(&x.pre_pool, lo, hi), fee_a, fee_b));
    cov.probe("token_2022_pool_liquidity_change_checked");
    if c.a("token_owner_account_a") == x.pre_pool.vault_a || c.a("token_owner_account_b") == x.pre_pool.vault_b {
        return;
    }
    if inc {
        if x.vault_a < ea_i || x.vault_b < eb_i {
            out.push(viol("token_amounts", idx, format!("{} L={} on {}..{}: the vaults received {} / {} but the exact rounded-up cost is {} / {}", name, liq, lo, hi, x.vault_a, x.vault_b, ea, eb)));
            return;
        }
        // not more than the smallest amount that covers the cost after the transfer fee
        for (side, mint, debit, need) in [("A", x.pre_pool.mint_a, -x.owner_a, ea_i), ("B", x.pre_pool.mint_b, -x.owner_b, eb_i)] {
            match fee_included(v.pre, &mint, epoch, need.max(0) as u128) {
                Some(s) if debit == s as i128 => {}
                Some(s) => out.push(viol("token_amounts", idx, format!("{} L={}: the owner was debited {} of token {} but the smallest amount that leaves the exact cost {} after the transfer fee is {}", name, liq, debit, side, need, s))),
                None => out.push(viol("token_amounts", idx, format!("{} L={}: succeeded although no u64 amount of token {} covers the cost {}", name, liq, side, need))),
            }
        }
        if -x.owner_a > bound_a as i128 || -x.owner_b > bound_b as i128 {
            out.push(viol("token_max_exceeded", idx, format!("{}: the owner was debited {} / {} which exceeds the caller's maximum {} / {}", name, -x.owner_a, -x.owner_b, bound_a, bound_b)));
        }
        if by_amounts && liq < u128::MAX && out.is_empty() {
            let (na, nb) = model::liquidity_amounts(liq + 1, x.pre_pool.tick_current_index, x.pre_pool.sqrt_price, lo, hi, true);
            let fits = |mint: &Pubkey, need: &BigUint, max: u64| need.to_u128().and_then(|n| fee_included(v.pre, mint, epoch, n)).map(|s| s <= max).unwrap_or(false);
            if fits(&x.pre_pool.mint_a, &na, bound_a) && fits(&x.pre_pool.mint_b, &nb, bound_b) {
                out.push(viol("not_largest_liquidity", idx, format!("derived liquidity {} but {} would also fit the maxima {} / {} (cost before transfer fees {} / {})", liq, liq + 1, bound_a, bound_b, na, nb)));
            }
        }
    } else {
        if -x.vault_a != ea_i || -x.vault_b != eb_i {
            out.push(viol("token_amounts", idx, format!("{} L={} on {}..{}: the vaults paid {} / {} but the exact rounded-down proceeds are {} / {}", name, liq, lo, hi, -x.vault_a, -x.vault_b, ea, eb)));
            return;
        }
        if x.owner_a < bound_a as i128 || x.owner_b < bound_b as i128 {
            out.push(viol("token_min_subceeded", idx, format!("{}: the owner received {} / {} which is below the caller's minimum {} / {}", name, x.owner_a, x.owner_b, bound_a, bound_b)));
        }
    }
    // "for both the Anchor and the Pinocchio implementation": the Anchor implementation of the same instruction (still in the
    // tree), on a copy of the same state, moves the same amounts into / out of the vaults and the owner's accounts - also
    // with the bounds set exactly to what just moved (the tightest maxima / minima that can hold)
    if out.is_empty() && !by_amounts && rt::has_anchor_twin(v.ix) {
        let mut variants: Vec<(&str, rt::Ix)> = vec![("as sent", v.ix.clone())];
        if v.ix.data.len() >= 40 {
            let mut t = v.ix.clone();
            let (ba, bb) = if inc { ((-x.owner_a).max(0) as u64, (-x.owner_b).max(0) as u64) } else { (x.owner_a.max(0) as u64, x.owner_b.max(0) as u64) };
            t.data[24..32].copy_from_slice(&ba.to_le_bytes());
            t.data[32..40].copy_from_slice(&bb.to_le_bytes());
            variants.push(("with the bounds set to what the live instruction moved", t));
        }
        for (label, ixn) in variants {
            let (ao, apost) = rt::exec_ix_anchor_twin(v.pre, &ixn, &rt::ExecOpts::default());
            cov.probe("anchor_implementation_evaluated_on_token_2022_pools");
            if !ao.ok() {
                out.push(viol("token_amounts", idx, format!("Anchor implementation of {} L={} ({}) fails ({:#x}) where the live instruction succeeded moving {} / {} (owner) and {} / {} (vaults)", name, liq, label, ao.code, x.owner_a, x.owner_b, x.vault_a, x.vault_b)));
                return;
            }
            let amt_of = |k: &Pubkey| -> Option<i128> {
                apost.iter().find(|a| a.key == *k).filter(|a| a.data.len() >= 72).map(|a| u64::from_le_bytes(a.data[64..72].try_into().unwrap()) as i128 - token_amount(v.pre, k) as i128)
            };
            let got = (amt_of(&c.a("token_owner_account_a")), amt_of(&c.a("token_owner_account_b")), amt_of(&x.pre_pool.vault_a), amt_of(&x.pre_pool.vault_b));
            if got != (Some(x.owner_a), Some(x.owner_b), Some(x.vault_a), Some(x.vault_b)) {
                out.push(viol("token_amounts", idx, format!("Anchor implementation of {} L={} ({}) moves {:?} / {:?} (owner) and {:?} / {:?} (vaults); the live instruction moved {} / {} and {} / {}", name, liq, label, got.0, got.1, got.2, got.3, x.owner_a, x.owner_b, x.vault_a, x.vault_b)));
                return;
            }
        }
    }
}

struct Ctx<'a> {
    c: &'a Call<'a>,
    pool_key: Pubkey,
    pre_pool: Pool,
    pos_key: Pubkey,
    pre_pos: Position,
    post_pos: Position,
    owner_a: i128,
    owner_b: i128,
    vault_a: i128,
    vault_b: i128,
}

fn ctx<'a>(c: &'a Call<'a>, v: &IxView) -> Option<Ctx<'a>> {
    let pool_key = c.a("whirlpool");
    let pre_pool = v.pre.data(&pool_key).and_then(decode::pool)?;
    let pos_key = c.a("position");
    let pre_pos = v.pre.data(&pos_key).and_then(decode::position)?;
    let post_pos = v.post.data(&pos_key).and_then(decode::position)?;
    Some(Ctx {
        c,
        pool_key,
        owner_a: delta(v.pre, v.post, &c.a("token_owner_account_a")),
        owner_b: delta(v.pre, v.post, &c.a("token_owner_account_b")),
        vault_a: delta(v.pre, v.post, &pre_pool.vault_a),
        vault_b: delta(v.pre, v.post, &pre_pool.vault_b),
        pre_pool,
        pos_key,
        pre_pos,
        post_pos,
    })
}

fn fork_expect(v: &IxView, data: Vec<u8>, expect_ok: bool, expect_code: u32, what: &str, idx: usize, out: &mut Vec<Violation>) {
    let mut ix2 = v.ix.clone();
    ix2.data = data;
    let mut fork = v.pre.clone();
    let r = rt::exec_tx_simple(&mut fork, &Tx { ixs: vec![ix2] });
    // the statement requires failure, not a particular error code
    let _ = expect_code;
    let good = if expect_ok { r.ok } else { !r.ok };
    if !good {
        out.push(viol("bound_edge", idx, format!("{}: ok={} code={:?} but expected ok={} code={}", what, r.ok, r.custom(), expect_ok, expect_code)));
    }
}

/// By-token-amounts deposits on copies of the state in which the pool's price sits at the edges of the position's range (one and
/// two units inside either bound, on the bounds, in the middle) and the maxima sit at the edges of what the derivation can
/// hold: the smallest token-A (token-B) maximum whose one-sided liquidity reaches 2^64 and 2^128, its neighbours, the largest
/// u64. Whatever is derived there is still the largest liquidity whose cost fits both maxima, and is charged at its exact cost.
fn by_amounts_price_edge_probes(v: &IxView, c: &Call, x: &Ctx, idx: usize, salt: u64, cov: &mut Coverage, out: &mut Vec<Violation>) {
    let (lo, hi) = (x.pre_pos.lower, x.pre_pos.upper);
    if lo >= hi {
        return;
    }
    let (pl, pu) = (model::sqrt_price_of_tick(lo), model::sqrt_price_of_tick(hi));
    let mid_t = lo + (hi - lo) / 2;
    let states: [(u128, i32, &str); 7] = [
        (pu - 1, hi - 1, "one-below-upper"),
        (pu - 2, hi - 1, "two-below-upper"),
        (pl + 1, lo, "one-above-lower"),
        (pl, lo, "on-lower"),
        (pu, hi, "on-upper"),
        (pl - 1, lo - 1, "one-below-lower"),
        (model::sqrt_price_of_tick(mid_t), mid_t, "middle"),
    ];
    let mut rng = crate::rng::Rng::new(salt ^ 0xC08E);
    let one = BigUint::from(1u8);
    let two128 = model::two64() * model::two64();
    for (p, t, label) in states {
        if p < crate::decode::MIN_SQRT_PRICE || p > crate::decode::MAX_SQRT_PRICE {
            continue;
        }
        // edges of the maxima
        let mut cand_a: Vec<u64> = vec![u64::MAX, 1 << 63, 1_000_000_000_000_000_000, rng.next_u64() | 1];
        let mut cand_b: Vec<u64> = vec![u64::MAX, 1 << 63, 1_000_000_000_000_000_000, rng.next_u64() | 1];
        if t >= lo && t < hi && p < pu {
            // one-sided liquidity from A alone: max_a * pu * p / (2^64 * (pu - p))
            for lim in [two128.clone(), model::two64()] {
                let num = &lim * model::two64() * model::bu(pu - p);
                let den = model::bu(pu) * model::bu(p);
                let th = (&num + &den - &one) / &den;
                for cnd in [&th - &one, th.clone(), &th + &one, &th * BigUint::from(2u8) + BigUint::from(3u8), &th + BigUint::from(rng.below(1 << 20))] {
                    if let Some(m) = model::to_u64(&cnd) {
                        if m > 0 {
                            cand_a.push(m);
                        }
                    }
                }
            }
        }
        if t >= lo && p > pl {
            // one-sided liquidity from B alone: max_b * 2^64 / (min(p, pu) - pl)
            let top = p.min(pu);
            for lim in [two128.clone(), model::two64()] {
                let th = (&lim * model::bu(top - pl) + model::two64() - &one) / model::two64();
                for cnd in [&th - &one, th.clone(), &th + &one] {
                    if let Some(m) = model::to_u64(&cnd) {
                        if m > 0 {
                            cand_b.push(m);
                        }
                    }
                }
            }
        }
        for _ in 0..5 {
            let max_a = *rng.pick(&cand_a);
            let max_b = *rng.pick(&cand_b);
            let mut fork = v.pre.clone();
            let Some(pa) = fork.get(&x.pool_key).cloned() else { return };
            let mut pd = (*pa.data).clone();
            pd[65..81].copy_from_slice(&p.to_le_bytes());
            pd[81..85].copy_from_slice(&t.to_le_bytes());
            fork.put(x.pool_key, rt::Account { lamports: pa.lamports, data: std::rc::Rc::new(pd), owner: pa.owner, executable: false });
            let mut seen: Vec<Pubkey> = Vec::new();
            for (k, amt) in [(c.a("token_owner_account_a"), u64::MAX), (c.a("token_owner_account_b"), u64::MAX), (x.pre_pool.vault_a, 0u64), (x.pre_pool.vault_b, 0u64)] {
                if seen.contains(&k) {
                    return;
                }
                seen.push(k);
                let Some(a) = fork.get(&k).cloned() else { return };
                if a.data.len() < 72 {
                    return;
                }
                let mut dd = (*a.data).clone();
                dd[64..72].copy_from_slice(&amt.to_le_bytes());
                fork.put(k, rt::Account { lamports: a.lamports, data: std::rc::Rc::new(dd), owner: a.owner, executable: false });
            }
            let mut ix2 = v.ix.clone();
            ix2.data[9..17].copy_from_slice(&max_a.to_le_bytes());
            ix2.data[17..25].copy_from_slice(&max_b.to_le_bytes());
            ix2.data[25..41].copy_from_slice(&crate::decode::MIN_SQRT_PRICE.to_le_bytes());
            ix2.data[41..57].copy_from_slice(&crate::decode::MAX_SQRT_PRICE.to_le_bytes());
            let r = rt::exec_tx_simple(&mut fork, &Tx { ixs: vec![ix2] });
            let cost = |l: u128| model::liquidity_amounts(l, t, p, lo, hi, true);
            cov.eval(format!("by_token_amounts_price_edge|{}|ok={}", label, r.ok));
            if !r.ok {
                let code = r.ix_outcomes.last().map(|o| o.code).unwrap_or(0);
                let (a1, b1) = cost(1);
                if (code == 6012 || code == crate::rt::ERR_PANIC) && a1 <= BigUint::from(max_a) && b1 <= BigUint::from(max_b) {
                    out.push(viol("refused_although_liquidity_fits", idx, format!("(copy of the state, price {} tick {} = {} of the range {}..{}) increase_liquidity_by_token_amounts_v2 with maxima {} / {} {} although one unit of liquidity costs {} / {} and fits", p, t, label, lo, hi, max_a, max_b, if code == 6012 { "is refused as liquidity zero" } else { "dies in a panic" }, a1, b1)));
                    return;
                }
                continue;
            }
            cov.probe("by_token_amounts_price_edge_landed");
            let Some(post_pos) = fork.data(&x.pos_key).and_then(decode::position) else { continue };
            let liq = post_pos.liquidity.wrapping_sub(x.pre_pos.liquidity);
            let (ea, eb) = cost(liq);
            let va = fork.data(&x.pre_pool.vault_a).and_then(decode::token_account).map(|t| t.amount).unwrap_or(0);
            let vb = fork.data(&x.pre_pool.vault_b).and_then(decode::token_account).map(|t| t.amount).unwrap_or(0);
            let at = format!("(copy of the state, price {} tick {} = {} of the range {}..{}, maxima {} / {})", p, t, label, lo, hi, max_a, max_b);
            if BigUint::from(va) != ea || BigUint::from(vb) != eb {
                out.push(viol("token_amounts", idx, format!("{} derived L={}: the vaults received {} / {} but the exact rounded-up cost is {} / {}", at, liq, va, vb, ea, eb)));
                return;
            }
            if ea > BigUint::from(max_a) || eb > BigUint::from(max_b) {
                out.push(viol("token_max_exceeded", idx, format!("{} derived liquidity {} costs {} / {}", at, liq, ea, eb)));
                return;
            }
            if liq < u128::MAX {
                let (na, nb) = cost(liq + 1);
                if na <= BigUint::from(max_a) && nb <= BigUint::from(max_b) {
                    out.push(viol("not_largest_liquidity", idx, format!("{} derived liquidity {} but {} would also fit (cost {} / {})", at, liq, liq + 1, na, nb)));
                    return;
                }
            }
        }
    }
}

impl Monitor for C08 {
    fn name(&self) -> &'static str {
        "C08"
    }
    fn on_landed(&mut self, ev: &Landed, cov: &mut Coverage) -> Vec<Violation> {
        let mut out = Vec::new();
        // "the result is the largest liquidity whose cost fits both maxima": a by-token-amounts deposit that is refused as
        // "liquidity zero" (or dies in a panic) although one unit of liquidity would fit the caller's maxima at the
        // current price is not that
        if !ev.out.ok && ev.tx.ixs.len() == 1 && ev.fail_cpi.is_none() {
            if let Some(c) = wpix::decode(&ev.tx.ixs[0]) {
                let code = ev.out.ix_outcomes.last().map(|o| o.code).unwrap_or(0);
                if c.name() == "increase_liquidity_by_token_amounts_v2" && (code == 6012 || code == crate::rt::ERR_PANIC) {
                    if let (Some(pool), Some(pos)) = (ev.pre.data(&c.a("whirlpool")).and_then(decode::pool), ev.pre.data(&c.a("position")).and_then(decode::position)) {
                        let mut r = c.args();
                        let _ = r.u8();
                        let (max_a, max_b, min_p, max_p) = (r.u64(), r.u64(), r.u128(), r.u128());
                        if plain(ev.pre, &pool) && pos.whirlpool == c.a("whirlpool") && pos.lower < pos.upper && pool.sqrt_price >= min_p && pool.sqrt_price <= max_p {
                            let (a1, b1) = model::liquidity_amounts(1, pool.tick_current_index, pool.sqrt_price, pos.lower, pos.upper, true);
                            let reg = region(&pool, pos.lower, pos.upper);
                            cov.eval(format!("by_token_amounts_refused|{}|code={:#x}|one_unit_fits={}", reg, code.min(0xffff), a1 <= BigUint::from(max_a) && b1 <= BigUint::from(max_b)));
                            if a1 <= BigUint::from(max_a) && b1 <= BigUint::from(max_b) {
                                out.push(viol("refused_although_liquidity_fits", ev.idx, format!("increase_liquidity_by_token_amounts_v2 with maxima {} / {} on {}..{} at tick {} price {} ({}) {} although one unit of liquidity costs {} / {} and fits", max_a, max_b, pos.lower, pos.upper, pool.tick_current_index, pool.sqrt_price, reg, if code == 6012 { "is refused as liquidity zero" } else { "dies in a panic" }, a1, b1)));
                                return out;
                            }
                        }
                    }
                }
            }
        }
        for v in ev.ix_views() {
            let Some(c) = wpix::decode(v.ix) else { continue };
            let name = c.name();
            match name {
                "increase_liquidity" | "increase_liquidity_v2" | "decrease_liquidity" | "decrease_liquidity_v2" => {
                    let Some(x) = ctx(&c, &v) else { continue };
                    if !plain(v.pre, &x.pre_pool) {
                        if name.ends_with("_v2") {
                            token_2022_pool(name, &c, &v, &x, ev.clock.epoch, ev.idx, cov, &mut out);
                        }
                        continue;
                    }
                    let inc = name.starts_with("increase");
                    let (liq, bound_a, bound_b) = wpix::liq_args(&c);
                    let (lo, hi) = (x.pre_pos.lower, x.pre_pos.upper);
                    let (ea, eb) = model::liquidity_amounts(liq, x.pre_pool.tick_current_index, x.pre_pool.sqrt_price, lo, hi, inc);
                    let reg = region(&x.pre_pool, lo, hi);
                    cov.eval(format!("{}|{}|sp={}|Lbits={}|a0={}|b0={}", name, reg, x.pre_pool.tick_spacing, (128 - liq.leading_zeros()) / 8, ea.is_zero(), eb.is_zero()));
                    if reg.contains("shifted") {
                        cov.probe("liquidity_change_in_shifted_state");
                    }
                    if reg.contains("at-") {
                        cov.probe("liquidity_change_with_price_on_bound");
                    }
                    let sign: i128 = if inc { 1 } else { -1 };
                    let (ea_i, eb_i) = (ea.to_i128().unwrap_or(i128::MAX), eb.to_i128().unwrap_or(i128::MAX));
                    let dl = if inc { x.post_pos.liquidity.wrapping_sub(x.pre_pos.liquidity) } else { x.pre_pos.liquidity.wrapping_sub(x.post_pos.liquidity) };
                    if dl != liq {
                        out.push(viol("position_liquidity_delta", ev.idx, format!("{} of {} changed the position's liquidity by {}", name, liq, dl)));
                    }
                    let aliased = c.a("token_owner_account_a") == x.pre_pool.vault_a || c.a("token_owner_account_b") == x.pre_pool.vault_b;
                    if !aliased && (x.vault_a != sign * ea_i || x.vault_b != sign * eb_i || x.owner_a != -sign * ea_i || x.owner_b != -sign * eb_i) {
                        out.push(viol(
                            "token_amounts",
                            ev.idx,
                            format!("{} L={} on {}..{} at tick {} price {} ({}): vault deltas {} / {}, owner deltas {} / {}, exact amounts ({}) {} / {}",
                                name, liq, lo, hi, x.pre_pool.tick_current_index, x.pre_pool.sqrt_price, reg, x.vault_a, x.vault_b, x.owner_a, x.owner_b,
                                if inc { "rounded up" } else { "rounded down" }, ea, eb),
                        ));
                    }
                    if inc && (ea > BigUint::from(bound_a) || eb > BigUint::from(bound_b)) {
                        out.push(viol("token_max_exceeded", ev.idx, format!("deposit {} / {} exceeds the caller's maximum {} / {}", ea, eb, bound_a, bound_b)));
                    }
                    if !inc && (ea < BigUint::from(bound_a) || eb < BigUint::from(bound_b)) {
                        out.push(viol("token_min_subceeded", ev.idx, format!("withdrawal {} / {} is below the caller's minimum {} / {}", ea, eb, bound_a, bound_b)));
                    }
                    // bound edges on forks (sampled)
                    if ev.salt % 3 == 0 && ea_i < u64::MAX as i128 && eb_i < u64::MAX as i128 {
                        cov.probe("bound_edge_forks");
                        let (a, b) = (ea_i as u64, eb_i as u64);
                        let mk = |ba: u64, bb: u64| -> Vec<u8> {
                            let mut d = v.ix.data.clone();
                            d[24..32].copy_from_slice(&ba.to_le_bytes());
                            d[32..40].copy_from_slice(&bb.to_le_bytes());
                            d
                        };
                        if inc {
                            fork_expect(&v, mk(a, b), true, 0, "token_max = exact cost", ev.idx, &mut out);
                            if a > 0 {
                                fork_expect(&v, mk(a - 1, b), false, 6017, "token_max_a = cost - 1", ev.idx, &mut out);
                            }
                            if b > 0 {
                                fork_expect(&v, mk(a, b - 1), false, 6017, "token_max_b = cost - 1", ev.idx, &mut out);
                            }
                        } else {
                            fork_expect(&v, mk(a, b), true, 0, "token_min = exact proceeds", ev.idx, &mut out);
                            if a < u64::MAX {
                                fork_expect(&v, mk(a + 1, b), false, 6018, "token_min_a = proceeds + 1", ev.idx, &mut out);
                            }
                            if b < u64::MAX {
                                fork_expect(&v, mk(a, b + 1), false, 6018, "token_min_b = proceeds + 1", ev.idx, &mut out);
                            }
                        }
                    }
                    // u64 boundary on a fork: the liquidity whose exact cost just exceeds what a u64 can pay must be refused,
                    // the largest liquidity whose cost still fits is charged exactly (or refused, e.g. for lack of funds)
                    if inc && ev.salt % 5 == 2 {
                        for side_b in [false, true] {
                            // per-unit cost as a fraction n/d of one liquidity unit
                            let (pl, pu) = (model::sqrt_price_of_tick(lo), model::sqrt_price_of_tick(hi));
                            let p = x.pre_pool.sqrt_price;
                            let t = x.pre_pool.tick_current_index;
                            let (n, d): (BigUint, BigUint) = if side_b {
                                if t < lo { continue }
                                let top = if t < hi { p } else { pu };
                                (model::bu(top - pl), model::two64())
                            } else {
                                if t >= hi { continue }
                                let bot = if t < lo { pl } else { p };
                                (model::two64() * model::bu(pu - bot), model::bu(pu) * model::bu(bot))
                            };
                            if n.is_zero() { continue }
                            // smallest L with ceil(L*n/d) > u64::MAX, i.e. L*n > (2^64 - 1) * d
                            let lim = model::bu(u64::MAX as u128) * &d;
                            let l_over = &lim / &n + BigUint::from(1u8);
                            // ... and the liquidity whose exact cost is just above 2^128 (a cost that would read as a small number
                            // if only its low 64 or 128 bits were kept)
                            let lim128 = model::bu(u128::MAX) * &d;
                            let l_wrap = &lim128 / &n + BigUint::from(1u8);
                            let l_wrap2 = &l_wrap + (&d / &n) * BigUint::from(1000u32) + BigUint::from(7u8);
                            let mut cands: Vec<(&str, BigUint)> = vec![("over", l_over.clone()), ("fit", &l_over - BigUint::from(1u8)), ("wrap128", l_wrap), ("wrap128+", l_wrap2)];
                            if !side_b {
                                // liquidity at which an intermediate product of the token-A conversion (liquidity x price distance)
                                // reaches 2^128 or 2^192: whatever the cost is there, it is charged exactly or refused
                                let bot = if t < lo { pl } else { p };
                                let w = model::bu(pu - bot);
                                for (label, bits) in [("prod128", 128usize), ("prod192", 192usize)] {
                                    let th = ((BigUint::from(1u8) << bits) + &w - BigUint::from(1u8)) / &w;
                                    cands.push((label, th.clone()));
                                    cands.push((label, &th + BigUint::from(1 + ev.salt % (1 << 20))));
                                }
                            }
                            if side_b {
                                // liquidity whose token-B cost has a chosen fractional part (in 64ths of a bit: only the top bit,
                                // only the lowest bit, all ones, the middle bit, none): L * n = pattern (mod 2^64)
                                if let Some(n64) = model::to_u128(&(&n % model::two64())) {
                                    let n64 = n64 as u64;
                                    if n64 != 0 {
                                        let g = n64.trailing_zeros();
                                        let odd = n64 >> g;
                                        // inverse of an odd number modulo 2^64 (Newton)
                                        let mut inv: u64 = odd;
                                        for _ in 0..6 {
                                            inv = inv.wrapping_mul(2u64.wrapping_sub(odd.wrapping_mul(inv)));
                                        }
                                        for (label, pat) in [("frac_top_bit", 1u64 << 63), ("frac_one", 1u64), ("frac_all_ones", u64::MAX), ("frac_mid_bit", 1u64 << 32), ("frac_zero", 0u64)] {
                                            if g > 0 && pat & ((1u64 << g) - 1) != 0 {
                                                continue;
                                            }
                                            let modulus_bits = 64 - g;
                                            let mut l0 = (pat >> g).wrapping_mul(inv);
                                            if modulus_bits < 64 {
                                                l0 &= (1u64 << modulus_bits) - 1;
                                            }
                                            let step = if modulus_bits < 64 { BigUint::from(1u128 << modulus_bits) } else { model::two64() };
                                            let k = BigUint::from(ev.salt % 5);
                                            cands.push((label, BigUint::from(l0) + step * k));
                                        }
                                    }
                                }
                            }
                            for (which, lbig) in cands {
                                let Some(l) = model::to_u128(&lbig) else { continue };
                                if l == 0 { continue }
                                let mut d2 = v.ix.data.clone();
                                d2[8..24].copy_from_slice(&l.to_le_bytes());
                                d2[24..32].copy_from_slice(&u64::MAX.to_le_bytes());
                                d2[32..40].copy_from_slice(&u64::MAX.to_le_bytes());
                                let mut ix2 = v.ix.clone();
                                ix2.data = d2;
                                let mut fork = v.pre.clone();
                                // on the copy the owner can pay any amount and the vaults can take it (a deposit of nearly 2^64
                                // must not be refused for lack of funds or for overflowing the vault's balance)
                                let mut base_amt: std::collections::BTreeMap<Pubkey, u64> = std::collections::BTreeMap::new();
                                for (k, amt) in [(c.a("token_owner_account_a"), u64::MAX), (c.a("token_owner_account_b"), u64::MAX), (x.pre_pool.vault_a, 0u64), (x.pre_pool.vault_b, 0u64)] {
                                    if let Some(a) = fork.get(&k).cloned() {
                                        if a.data.len() >= 72 && !base_amt.contains_key(&k) {
                                            let mut dd = (*a.data).clone();
                                            dd[64..72].copy_from_slice(&amt.to_le_bytes());
                                            fork.put(k, rt::Account { lamports: a.lamports, data: std::rc::Rc::new(dd), owner: a.owner, executable: false });
                                            base_amt.insert(k, amt);
                                        }
                                    }
                                }
                                let start = fork.clone();
                                let r = rt::exec_tx_simple(&mut fork, &Tx { ixs: vec![ix2] });
                                if r.ok && which == "fit" {
                                    cov.probe("u64_boundary_largest_fitting_deposit_landed");
                                }
                                cov.eval(format!("u64_boundary|{}|side_b={}|{}|ok={}", name, side_b, which, r.ok));
                                cov.probe("u64_boundary_forks");
                                if which.starts_with("frac") {
                                    cov.probe(if r.ok { "fraction_pattern_deposit_landed" } else { "fraction_pattern_deposit_refused" });
                                }
                                let (xa, xb) = model::liquidity_amounts(l, t, p, lo, hi, true);
                                if r.ok {
                                    let va = delta(&start, &fork, &x.pre_pool.vault_a);
                                    let vb = delta(&start, &fork, &x.pre_pool.vault_b);
                                    if BigUint::from(va.max(0) as u128) != xa || BigUint::from(vb.max(0) as u128) != xb {
                                        out.push(viol("token_amounts", ev.idx, format!("{} L={} on {}..{} at tick {} price {} succeeded and moved {} / {} into the vaults, but its exact rounded-up cost is {} / {} (u64 boundary probe)", name, l, lo, hi, t, p, va, vb, xa, xb)));
                                    }
                                }
                            }
                        }
                    }
                    // the Anchor implementation of the same instruction (still in the tree, reference for fee updates) on a copy:
                    // it must move the same exact amounts
                    if ev.salt % 3 == 1 && rt::has_anchor_twin(v.ix) {
                        let (ao, apost) = rt::exec_ix_anchor_twin(v.pre, v.ix, &rt::ExecOpts::default());
                        cov.probe("anchor_implementation_evaluated");
                        if ao.ok() {
                            let amt_of = |k: &Pubkey| -> Option<i128> {
                                apost.iter().find(|a| a.key == *k).filter(|a| a.data.len() >= 72).map(|a| u64::from_le_bytes(a.data[64..72].try_into().unwrap()) as i128 - token_amount(v.pre, k) as i128)
                            };
                            if let (Some(va), Some(vb)) = (amt_of(&x.pre_pool.vault_a), amt_of(&x.pre_pool.vault_b)) {
                                if !aliased && (va != sign * ea_i || vb != sign * eb_i) {
                                    out.push(viol("token_amounts", ev.idx, format!("Anchor implementation of {} L={} on {}..{} at tick {} price {} ({}): vault deltas {} / {}, exact amounts ({}) {} / {}",
                                        name, liq, lo, hi, x.pre_pool.tick_current_index, x.pre_pool.sqrt_price, reg, va, vb, if inc { "rounded up" } else { "rounded down" }, ea, eb)));
                                }
                            }
                        } else {
                            out.push(viol("token_amounts", ev.idx, format!("Anchor implementation of {} L={} fails ({:#x}) where the live instruction succeeded", name, liq, ao.code)));
                        }
                    }
                    // liquidity amounts at and beyond the signed 128-bit limit on a copy: if such a call goes through at all,
                    // it must have changed the position by exactly that amount and moved its exact cost
                    if ev.salt % 5 == 3 {
                        for l in [1u128 << 127, (1u128 << 127) + liq, u128::MAX - liq + 1, u128::MAX] {
                            let mut d2 = v.ix.data.clone();
                            d2[8..24].copy_from_slice(&l.to_le_bytes());
                            let (b0, b1) = if inc { (u64::MAX, u64::MAX) } else { (0u64, 0u64) };
                            d2[24..32].copy_from_slice(&b0.to_le_bytes());
                            d2[32..40].copy_from_slice(&b1.to_le_bytes());
                            let mut ix2 = v.ix.clone();
                            ix2.data = d2;
                            let mut fork = v.pre.clone();
                            let r = rt::exec_tx_simple(&mut fork, &Tx { ixs: vec![ix2] });
                            cov.probe("huge_liquidity_forks");
                            cov.eval(format!("huge_liquidity|{}|ok={}", name, r.ok));
                            if r.ok {
                                let q = fork.data(&x.pos_key).and_then(decode::position).map(|q| q.liquidity).unwrap_or(0);
                                let moved = if inc { q.wrapping_sub(x.pre_pos.liquidity) } else { x.pre_pos.liquidity.wrapping_sub(q) };
                                let (xa, xb) = model::liquidity_amounts(l, x.pre_pool.tick_current_index, x.pre_pool.sqrt_price, lo, hi, inc);
                                let (va, vb) = (delta(v.pre, &fork, &x.pre_pool.vault_a), delta(v.pre, &fork, &x.pre_pool.vault_b));
                                if moved != l || BigUint::from(va.unsigned_abs()) != xa || BigUint::from(vb.unsigned_abs()) != xb || (inc && (q < x.pre_pos.liquidity)) || (!inc && (q > x.pre_pos.liquidity)) {
                                    out.push(viol("position_liquidity_delta", ev.idx, format!("{} with liquidity amount {} succeeds: the position went {} -> {}, the vaults moved {} / {} (exact amounts for that liquidity: {} / {})", name, l, x.pre_pos.liquidity, q, va, vb, xa, xb)));
                                    break;
                                }
                            }
                        }
                    }
                    // the same deposit on copies whose pool sits on a protocol price bound: the floor in its shifted-tick state (the
                    // tick one below the lowest tick, as a swap down to the floor leaves it), the floor itself, the ceiling. The
                    // position is then entirely on one side; with a funded owner and no maximum the deposit goes through and moves
                    // exactly the one-sided cost (when that cost fits a u64)
                    if inc && ev.salt % 7 == 3 && liq > 0 {
                        for (p_b, t_b, label) in [(decode::MIN_SQRT_PRICE, decode::MIN_TICK - 1, "floor, shifted tick"), (decode::MIN_SQRT_PRICE, decode::MIN_TICK, "floor"), (decode::MAX_SQRT_PRICE, decode::MAX_TICK, "ceiling")] {
                            let (xa, xb) = model::liquidity_amounts(liq, t_b, p_b, lo, hi, true);
                            if model::to_u64(&xa).is_none() || model::to_u64(&xb).is_none() {
                                continue;
                            }
                            let mut fork = v.pre.clone();
                            let Some(pa) = fork.get(&x.pool_key).cloned() else { break };
                            let mut pd = (*pa.data).clone();
                            pd[65..81].copy_from_slice(&p_b.to_le_bytes());
                            pd[81..85].copy_from_slice(&t_b.to_le_bytes());
                            // nothing is in range at a bound
                            pd[49..65].copy_from_slice(&0u128.to_le_bytes());
                            fork.put(x.pool_key, rt::Account { lamports: pa.lamports, data: std::rc::Rc::new(pd), owner: pa.owner, executable: false });
                            let mut seen: Vec<Pubkey> = Vec::new();
                            let mut usable = true;
                            for (k, amt) in [(c.a("token_owner_account_a"), u64::MAX), (c.a("token_owner_account_b"), u64::MAX), (x.pre_pool.vault_a, 0u64), (x.pre_pool.vault_b, 0u64)] {
                                let Some(a) = fork.get(&k).cloned() else { usable = false; break };
                                if seen.contains(&k) || a.data.len() < 72 {
                                    usable = false;
                                    break;
                                }
                                seen.push(k);
                                let mut dd = (*a.data).clone();
                                dd[64..72].copy_from_slice(&amt.to_le_bytes());
                                fork.put(k, rt::Account { lamports: a.lamports, data: std::rc::Rc::new(dd), owner: a.owner, executable: false });
                            }
                            if !usable {
                                break;
                            }
                            let mut ix2 = v.ix.clone();
                            ix2.data[24..32].copy_from_slice(&u64::MAX.to_le_bytes());
                            ix2.data[32..40].copy_from_slice(&u64::MAX.to_le_bytes());
                            let start = fork.clone();
                            let r = rt::exec_tx_simple(&mut fork, &Tx { ixs: vec![ix2] });
                            cov.probe("deposits_with_the_pool_on_a_price_bound");
                            cov.eval(format!("price_bound|{}|{}|ok={}", name, label, r.ok));
                            let (va, vb) = (delta(&start, &fork, &x.pre_pool.vault_a), delta(&start, &fork, &x.pre_pool.vault_b));
                            if !r.ok {
                                out.push(viol("refused_on_a_price_bound", ev.idx, format!("{} L={} on {}..{} is refused ({:?}) on a copy whose pool sits on the {} (price {} tick {}), although it costs {} / {} there and the owner is funded", name, liq, lo, hi, r.custom(), label, p_b, t_b, xa, xb)));
                                break;
                            }
                            if BigUint::from(va.max(0) as u128) != xa || BigUint::from(vb.max(0) as u128) != xb {
                                out.push(viol("token_amounts", ev.idx, format!("{} L={} on {}..{} with the pool on the {} (price {} tick {}) moved {} / {} into the vaults but costs {} / {}", name, liq, lo, hi, label, p_b, t_b, va, vb, xa, xb)));
                                break;
                            }
                        }
                    }
                    // add-then-remove on a fork at the unchanged price
                    if inc && ev.salt % 4 == 1 {
                        let mut fork = v.post.clone();
                        let mut ix2 = v.ix.clone();
                        let dname = if name == "increase_liquidity" { "decrease_liquidity" } else { "decrease_liquidity_v2" };
                        let mut d = wpix::ix_disc(dname).to_vec();
                        d.extend_from_slice(&liq.to_le_bytes());
                        d.extend_from_slice(&0u64.to_le_bytes());
                        d.extend_from_slice(&0u64.to_le_bytes());
                        if name.ends_with("v2") {
                            d.push(0);
                        }
                        ix2.data = d;
                        let pa = token_amount(&fork, &c.a("token_owner_account_a"));
                        let pb = token_amount(&fork, &c.a("token_owner_account_b"));
                        let r = rt::exec_tx_simple(&mut fork, &Tx { ixs: vec![ix2] });
                        if r.ok {
                            cov.probe("add_then_remove_probes");
                            let back_a = token_amount(&fork, &c.a("token_owner_account_a")) as i128 - pa as i128;
                            let back_b = token_amount(&fork, &c.a("token_owner_account_b")) as i128 - pb as i128;
                            if back_a > ea_i || back_b > eb_i || ea_i - back_a > 1 || eb_i - back_b > 1 {
                                out.push(viol("add_then_remove", ev.idx, format!("adding L={} cost {} / {}, removing it at the unchanged price returned {} / {}", liq, ea, eb, back_a, back_b)));
                            }
                        }
                    }
                    if out.is_empty() {
                        cov.sample(json!({"ix": name, "liquidity": liq.to_string(), "range": [lo, hi], "tick": x.pre_pool.tick_current_index, "sqrt_price": x.pre_pool.sqrt_price.to_string(),
                            "region": reg, "exact_a": ea.to_string(), "exact_b": eb.to_string(), "vault_delta": [x.vault_a.to_string(), x.vault_b.to_string()]}));
                    }
                }
                "increase_liquidity_by_token_amounts_v2" => {
                    let Some(x) = ctx(&c, &v) else { continue };
                    if !plain(v.pre, &x.pre_pool) {
                        token_2022_pool(name, &c, &v, &x, ev.clock.epoch, ev.idx, cov, &mut out);
                        continue;
                    }
                    let mut r = c.args();
                    let _variant = r.u8();
                    let max_a = r.u64();
                    let max_b = r.u64();
                    let (lo, hi) = (x.pre_pos.lower, x.pre_pos.upper);
                    let liq = x.post_pos.liquidity.wrapping_sub(x.pre_pos.liquidity);
                    let reg = region(&x.pre_pool, lo, hi);
                    cov.eval(format!("{}|{}|sp={}|Lbits={}", name, reg, x.pre_pool.tick_spacing, (128 - liq.leading_zeros()) / 8));
                    let cost = |l: u128| model::liquidity_amounts(l, x.pre_pool.tick_current_index, x.pre_pool.sqrt_price, lo, hi, true);
                    let (ea, eb) = cost(liq);
                    let (ea_i, eb_i) = (ea.to_i128().unwrap_or(i128::MAX), eb.to_i128().unwrap_or(i128::MAX));
                    if x.vault_a != ea_i || x.vault_b != eb_i || x.owner_a != -ea_i || x.owner_b != -eb_i {
                        out.push(viol("token_amounts", ev.idx, format!("{} derived L={} on {}..{} ({}): vault deltas {} / {} but exact rounded-up cost {} / {}", name, liq, lo, hi, reg, x.vault_a, x.vault_b, ea, eb)));
                    }
                    if ea > BigUint::from(max_a) || eb > BigUint::from(max_b) {
                        out.push(viol("token_max_exceeded", ev.idx, format!("derived liquidity {} costs {} / {} which exceeds the maxima {} / {}", liq, ea, eb, max_a, max_b)));
                    }
                    if liq < u128::MAX {
                        let (na, nb) = cost(liq + 1);
                        if na <= BigUint::from(max_a) && nb <= BigUint::from(max_b) {
                            out.push(viol("not_largest_liquidity", ev.idx, format!("derived liquidity {} but {} would also fit the maxima {} / {} (cost {} / {})", liq, liq + 1, max_a, max_b, na, nb)));
                        }
                    }
                    if out.is_empty() && ev.salt % 3 != 0 {
                        by_amounts_price_edge_probes(&v, &c, &x, ev.idx, ev.salt, cov, &mut out);
                    }
                }
                "reposition_liquidity_v2" => {
                    let Some(x) = ctx(&c, &v) else { continue };
                    if !plain(v.pre, &x.pre_pool) {
                        continue;
                    }
                    let mut r = c.args();
                    let new_lo = r.i32();
                    let new_hi = r.i32();
                    let _variant = r.u8();
                    let new_liq = r.u128();
                    let (old_a, old_b) = model::liquidity_amounts(x.pre_pos.liquidity, x.pre_pool.tick_current_index, x.pre_pool.sqrt_price, x.pre_pos.lower, x.pre_pos.upper, false);
                    let (new_a, new_b) = model::liquidity_amounts(new_liq, x.pre_pool.tick_current_index, x.pre_pool.sqrt_price, new_lo, new_hi, true);
                    cov.eval(format!("{}|{}->{}|sp={}", name, region(&x.pre_pool, x.pre_pos.lower, x.pre_pos.upper), region(&x.pre_pool, new_lo, new_hi), x.pre_pool.tick_spacing));
                    let net_a = new_a.to_i128().unwrap_or(i128::MAX) - old_a.to_i128().unwrap_or(i128::MAX);
                    let net_b = new_b.to_i128().unwrap_or(i128::MAX) - old_b.to_i128().unwrap_or(i128::MAX);
                    if x.vault_a != net_a || x.vault_b != net_b || x.owner_a != -net_a || x.owner_b != -net_b {
                        out.push(viol("token_amounts", ev.idx, format!("reposition {}..{} L={} -> {}..{} L={}: vault deltas {} / {} but exact (new cost up - old proceeds down) = {} / {}", x.pre_pos.lower, x.pre_pos.upper, x.pre_pos.liquidity, new_lo, new_hi, new_liq, x.vault_a, x.vault_b, net_a, net_b)));
                    }
                    if x.post_pos.liquidity != new_liq || x.post_pos.lower != new_lo || x.post_pos.upper != new_hi {
                        out.push(viol("position_liquidity_delta", ev.idx, "reposition did not leave the requested range / liquidity".into()));
                    }
                    // the caller's bounds: minimum for what the existing range returns, maximum for what the new range costs
                    let (min_a, min_b, max_a, max_b) = (r.u64(), r.u64(), r.u64(), r.u64());
                    if new_a > BigUint::from(max_a) || new_b > BigUint::from(max_b) {
                        out.push(viol("token_max_exceeded", ev.idx, format!("reposition: the new range costs {} / {} which exceeds the caller's maximum {} / {}", new_a, new_b, max_a, max_b)));
                    }
                    if old_a < BigUint::from(min_a) || old_b < BigUint::from(min_b) {
                        out.push(viol("token_min_subceeded", ev.idx, format!("reposition: the existing range returns {} / {} which is below the caller's minimum {} / {}", old_a, old_b, min_a, min_b)));
                    }
                    if out.is_empty() && ev.salt % 2 == 0 {
                        if let (Some(oa), Some(ob), Some(na), Some(nb)) = (model::to_u64(&old_a), model::to_u64(&old_b), model::to_u64(&new_a), model::to_u64(&new_b)) {
                            cov.probe("reposition_bound_edge_forks");
                            let mk = |mia: u64, mib: u64, maa: u64, mab: u64| -> Vec<u8> {
                                let mut d = v.ix.data.clone();
                                d[33..41].copy_from_slice(&mia.to_le_bytes());
                                d[41..49].copy_from_slice(&mib.to_le_bytes());
                                d[49..57].copy_from_slice(&maa.to_le_bytes());
                                d[57..65].copy_from_slice(&mab.to_le_bytes());
                                d
                            };
                            fork_expect(&v, mk(oa, ob, na, nb), true, 0, "reposition with min = exact proceeds, max = exact cost", ev.idx, &mut out);
                            if na > 0 {
                                fork_expect(&v, mk(oa, ob, na - 1, nb), false, 6017, "reposition new_range_token_max_a = cost - 1", ev.idx, &mut out);
                            }
                            if nb > 0 {
                                fork_expect(&v, mk(oa, ob, na, nb - 1), false, 6017, "reposition new_range_token_max_b = cost - 1", ev.idx, &mut out);
                            }
                            if oa < u64::MAX {
                                fork_expect(&v, mk(oa + 1, ob, na, nb), false, 6018, "reposition existing_range_token_min_a = proceeds + 1", ev.idx, &mut out);
                            }
                            if ob < u64::MAX {
                                fork_expect(&v, mk(oa, ob + 1, na, nb), false, 6018, "reposition existing_range_token_min_b = proceeds + 1", ev.idx, &mut out);
                            }
                            // nothing moves, the maximum still holds: a new-range liquidity chosen so that the new range costs, in one
                            // token, exactly what the existing range releases (net transfer zero) - with that token's maximum one
                            // below the cost the call must still be refused
                            for side_b in [false, true] {
                                let target = if side_b { ob } else { oa };
                                if target == 0 {
                                    continue;
                                }
                                let cost_x = |l: u128| -> BigUint {
                                    let (ca, cb) = model::liquidity_amounts(l, x.pre_pool.tick_current_index, x.pre_pool.sqrt_price, new_lo, new_hi, true);
                                    if side_b { cb } else { ca }
                                };
                                let (mut lo_l, mut hi_l) = (0u128, 1u128 << 110);
                                if cost_x(hi_l) < BigUint::from(target) {
                                    continue;
                                }
                                while lo_l < hi_l {
                                    let mid = lo_l + (hi_l - lo_l) / 2;
                                    if cost_x(mid) >= BigUint::from(target) { hi_l = mid } else { lo_l = mid + 1 }
                                }
                                if lo_l == 0 || cost_x(lo_l) != BigUint::from(target) {
                                    continue;
                                }
                                let (ca, cb) = model::liquidity_amounts(lo_l, x.pre_pool.tick_current_index, x.pre_pool.sqrt_price, new_lo, new_hi, true);
                                if model::to_u64(&ca).is_none() || model::to_u64(&cb).is_none() {
                                    continue;
                                }
                                let mut fork = v.pre.clone();
                                for k in [c.a("token_owner_account_a"), c.a("token_owner_account_b")] {
                                    if let Some(a) = fork.get(&k).cloned() {
                                        if a.data.len() >= 72 && k != x.pre_pool.vault_a && k != x.pre_pool.vault_b {
                                            let mut dd = (*a.data).clone();
                                            dd[64..72].copy_from_slice(&(u64::MAX / 2).to_le_bytes());
                                            fork.put(k, rt::Account { lamports: a.lamports, data: std::rc::Rc::new(dd), owner: a.owner, executable: false });
                                        }
                                    }
                                }
                                for (label, max_x, expect_ok) in [("one below the cost", target - 1, false), ("equal to the cost", target, true)] {
                                    let mut ix2 = v.ix.clone();
                                    ix2.data[17..33].copy_from_slice(&lo_l.to_le_bytes());
                                    ix2.data[33..41].copy_from_slice(&0u64.to_le_bytes());
                                    ix2.data[41..49].copy_from_slice(&0u64.to_le_bytes());
                                    let (ma, mb) = if side_b { (u64::MAX, max_x) } else { (max_x, u64::MAX) };
                                    ix2.data[49..57].copy_from_slice(&ma.to_le_bytes());
                                    ix2.data[57..65].copy_from_slice(&mb.to_le_bytes());
                                    let mut f2 = fork.clone();
                                    let r = rt::exec_tx_simple(&mut f2, &Tx { ixs: vec![ix2] });
                                    cov.probe("reposition_zero_net_transfer_forks");
                                    if r.ok != expect_ok && (r.ok || r.custom() == Some(6017)) {
                                        out.push(viol("bound_edge", ev.idx, format!("reposition to {}..{} with liquidity {} costs {} of token {} - exactly what the existing range releases, so nothing of it moves - and with that token's maximum {} ({}) the call {} (code {:?})", new_lo, new_hi, lo_l, target, if side_b { "B" } else { "A" }, max_x, label, if r.ok { "goes through" } else { "is refused" }, r.custom())));
                                        break;
                                    }
                                }
                            }
                            let net_dir = |n: i128| if n > 0 { "owner_pays" } else if n < 0 { "owner_receives" } else { "zero" };
                            cov.eval(format!("reposition_edges|a={}|b={}", net_dir(net_a), net_dir(net_b)));
                        }
                    }
                }
                _ => {}
            }
        }
        let _ = (&self, BigUint::zero());
        out
    }
}
