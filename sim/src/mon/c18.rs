//! C18 — positions are opened, closed, re-ranged, locked and bundled only consistently.
//! A rule-based reference model evaluated on the pre-state of every landed instruction.

use crate::decode::{self, Pool, Position, MAX_TICK, MIN_TICK};
use crate::gen::{max_usable, min_usable};
use crate::model;
use crate::rt::Ledger;
use crate::sim::{Coverage, Landed, Monitor, Violation};
use crate::wpix::{self, Call};
use serde_json::json;
use solana_program::pubkey::Pubkey;

pub struct C18;

fn viol(class: &str, idx: usize, detail: String) -> Violation {
    Violation {
        property: "C18",
        class: class.to_string(),
        detail,
        event_idx: idx,
    }
}

/// the statement's rule for ranges: returns the resolved (lower, upper) when acceptable
pub fn model_range(pool: &Pool, lower: i32, upper: i32) -> Option<(i32, i32)> {
    let sp = pool.tick_spacing as i32;
    let fro = pool.tick_spacing >= 32768;
    let (mut lo, mut hi) = (lower, upper);
    let lo_s = lower == i32::MIN;
    let hi_s = upper == i32::MAX;
    if !fro && (lo_s || hi_s) {
        if lo_s && hi_s {
            return None;
        }
        let p = pool.sqrt_price;
        let t0 = model::tick_of_sqrt_price(p);
        if lo_s {
            // smallest usable tick whose price is at or above the current price
            let anchor = if model::sqrt_price_of_tick(t0) == p { t0 } else { t0 + 1 };
            let snapped = anchor + (sp - anchor.rem_euclid(sp)) % sp;
            if snapped > MAX_TICK {
                return None;
            }
            lo = snapped;
        }
        if hi_s {
            // largest usable tick whose price is at or below the current price
            let snapped = t0 - t0.rem_euclid(sp);
            if snapped < MIN_TICK {
                return None;
            }
            hi = snapped;
        }
    }
    let usable = |t: i32| t >= MIN_TICK && t <= MAX_TICK && t % sp == 0;
    if !usable(lo) || !usable(hi) || lo >= hi {
        return None;
    }
    if fro && (lo != min_usable(pool.tick_spacing) || hi != max_usable(pool.tick_spacing)) {
        return None;
    }
    Some((lo, hi))
}

fn is_empty(p: &Position) -> bool {
    p.liquidity == 0 && p.fee_owed_a == 0 && p.fee_owed_b == 0 && p.rewards.iter().all(|r| r.amount_owed == 0)
}

fn frozen(l: &Ledger, token_account: &Pubkey) -> bool {
    l.data(token_account).and_then(decode::token_account).map(|t| t.state == 2).unwrap_or(false)
}

/// Active probe on copies of the ledger: a position that has just been locked (or handed over while locked) must refuse
/// withdrawal and re-ranging, whatever legal encoding its frozen token account has: as it is, re-homed to a bare
/// base-length token account, re-homed to an account carrying the ImmutableOwner extension (associated-account style).
fn probe_locked(post: &Ledger, position: &Pubkey, token_account: &Pubkey, salt: u64, idx: usize, cov: &mut Coverage, out: &mut Vec<Violation>) {
    let Some(p) = post.data(position).and_then(decode::position) else { return };
    let Some(pool) = post.data(&p.whirlpool).and_then(decode::pool) else { return };
    let Some(ta) = post.get(token_account).cloned() else { return };
    let Some(t) = decode::token_account(&ta.data) else { return };
    if t.state != 2 || t.amount != 1 {
        return;
    }
    let holder = t.owner;
    let keys = crate::mon::c01::pool_keys(&p.whirlpool, &pool, post);
    let find_owned = |mint: &Pubkey| -> Option<Pubkey> {
        post.accts.iter().find(|(_, a)| (a.owner == crate::ix::tok() || a.owner == crate::ix::tok22()) && a.data.len() >= 165 && a.data[..32] == mint.to_bytes() && a.data[32..64] == holder.to_bytes()).map(|(k, _)| *k)
    };
    let (Some(oa), Some(ob)) = (find_owned(&pool.mint_a), find_owned(&pool.mint_b)) else {
        cov.note("c18_locked_probe_skipped_holder_has_no_token_accounts");
        return;
    };
    let sp = pool.tick_spacing;
    let arr = |tk: i32| crate::ix::pda_tick_array(&p.whirlpool, crate::gen::ta_start(tk, sp));
    let mut encodings: Vec<(&str, Ledger, Pubkey)> = vec![("as it is", post.clone(), *token_account)];
    if ta.owner == crate::ix::tok22() {
        for (label, len) in [("bare base-length account", 165usize), ("account with ImmutableOwner", 170usize)] {
            if ta.data.len() == len {
                continue;
            }
            let mut d = ta.data[..165].to_vec();
            if len > 165 {
                d.push(2); // account type
                d.extend_from_slice(&7u16.to_le_bytes()); // ImmutableOwner
                d.extend_from_slice(&0u16.to_le_bytes());
            }
            let mut f = post.clone();
            let k = crate::world::scratch_key(salt, 8100 + len as u64);
            f.put(k, crate::rt::Account::new(crate::world::rent_min(len), d, ta.owner));
            // the original no longer holds the token
            if let Some(a) = f.accts.get_mut(token_account) {
                let mut od = (*a.data).clone();
                od[64..72].copy_from_slice(&0u64.to_le_bytes());
                a.data = std::rc::Rc::new(od);
            }
            encodings.push((label, f, k));
        }
    }
    {
        // not the token at all: a second, empty and unfrozen token account of the position mint that the holder owns
        let mut d = ta.data[..165].to_vec();
        d[64..72].copy_from_slice(&0u64.to_le_bytes());
        d[108] = 1; // initialised, not frozen
        let mut d2 = d.clone();
        if ta.data.len() > 165 {
            d2.extend_from_slice(&ta.data[165..]);
        }
        let mut f = post.clone();
        let k = crate::world::scratch_key(salt, 8190);
        f.put(k, crate::rt::Account::new(crate::world::rent_min(d2.len()), d2, ta.owner));
        encodings.push(("second, empty and unfrozen token account of the position mint", f, k));
    }
    {
        // not a token account at all: the frozen account's bytes, thawed, at another address under a program that is not a
        // token program (a stranger, a look-alike of the token program's id) - the real account keeps the token
        let mut d = ta.data.to_vec();
        d[108] = 1;
        let mut lookalike = ta.owner.to_bytes();
        lookalike[15] ^= 0x5a;
        for (n, (label, prog)) in [("thawed look-alike of the token account under a stranger program", crate::world::scratch_key(salt, 8201)), ("thawed look-alike of the token account under a look-alike of the token program id", Pubkey::new_from_array(lookalike))].into_iter().enumerate() {
            let mut f = post.clone();
            let k = crate::world::scratch_key(salt, 8210 + n as u64);
            f.put(k, crate::rt::Account::new(crate::world::rent_min(d.len()), d.clone(), prog));
            encodings.push((label, f, k));
        }
    }
    // "a locked position can still add liquidity": each of the three deposit instructions, sent by the holder through the
    // frozen token account, must go through whenever the very same deposit goes through on a copy where the token account is
    // merely not frozen
    {
        let la = crate::ix::LiqAccounts { pool: keys.clone(), authority: holder, position: *position, position_token_account: *token_account, owner_a: oa, owner_b: ob, ta_lower: arr(p.lower), ta_upper: arr(p.upper) };
        let small = 1 + (salt % 1000) as u128;
        let mut deposits: Vec<(&str, crate::rt::Ix)> = vec![("increase_liquidity_by_token_amounts_v2", crate::ix::increase_liquidity_by_token_amounts_v2(&la, 1_000 + (salt % 100_000), 1_000 + (salt % 77_777), decode::MIN_SQRT_PRICE, decode::MAX_SQRT_PRICE))];
        if keys.prog_a == crate::ix::tok() && keys.prog_b == crate::ix::tok() {
            deposits.push(("increase_liquidity", crate::ix::increase_liquidity(&la, small, u64::MAX, u64::MAX)));
        }
        for (what, ixn) in deposits {
            let mut frozen_copy = post.clone();
            let r_frozen = crate::rt::exec_tx_simple(&mut frozen_copy, &crate::rt::Tx { ixs: vec![ixn.clone()] });
            if r_frozen.ok {
                cov.probe("locked_position_small_deposit_accepted");
                continue;
            }
            let mut thawed = post.clone();
            if let Some(a) = thawed.accts.get_mut(token_account) {
                let mut od = (*a.data).clone();
                od[108] = 1;
                // ... and carries no delegate: an approval given before the lock (it cannot be revoked on a frozen account)
                // does not take the holder's own right to add liquidity away
                od[72..76].copy_from_slice(&0u32.to_le_bytes());
                a.data = std::rc::Rc::new(od);
            }
            let r_thawed = crate::rt::exec_tx_simple(&mut thawed, &crate::rt::Tx { ixs: vec![ixn] });
            cov.eval(format!("locked_probe|{}|frozen_ok=false|thawed_ok={}", what, r_thawed.ok));
            if r_thawed.ok {
                out.push(viol("locked_position_operation_refused", idx, format!("{} is refused ({:?}) on the locked position {} although the same deposit goes through when its token account is not frozen (and carries no delegate): adding liquidity must stay possible", what, r_frozen.custom(), position)));
                return;
            }
        }
    }
    // "a locked position can still add liquidity": a small deposit by the holder through the frozen token account must go
    // through whenever the very same deposit goes through on a copy where the token account is merely not frozen
    {
        let la = crate::ix::LiqAccounts { pool: keys.clone(), authority: holder, position: *position, position_token_account: *token_account, owner_a: oa, owner_b: ob, ta_lower: arr(p.lower), ta_upper: arr(p.upper) };
        let small = 1 + (salt % 1000) as u128;
        let mut frozen_copy = post.clone();
        let r_frozen = crate::rt::exec_tx_simple(&mut frozen_copy, &crate::rt::Tx { ixs: vec![crate::ix::increase_liquidity_v2(&la, small, u64::MAX, u64::MAX)] });
        if !r_frozen.ok {
            let mut thawed = post.clone();
            if let Some(a) = thawed.accts.get_mut(token_account) {
                let mut od = (*a.data).clone();
                od[108] = 1;
                // ... and carries no delegate: an approval given before the lock (it cannot be revoked on a frozen account)
                // does not take the holder's own right to add liquidity away
                od[72..76].copy_from_slice(&0u32.to_le_bytes());
                a.data = std::rc::Rc::new(od);
            }
            let r_thawed = crate::rt::exec_tx_simple(&mut thawed, &crate::rt::Tx { ixs: vec![crate::ix::increase_liquidity_v2(&la, small, u64::MAX, u64::MAX)] });
            cov.eval(format!("locked_probe|small deposit|frozen_ok=false|thawed_ok={}", r_thawed.ok));
            if r_thawed.ok {
                out.push(viol("locked_position_operation_refused", idx, format!("increase_liquidity_v2 of {} is refused ({:?}) on the locked position {} although the same deposit goes through when its token account is not frozen (and carries no delegate): adding liquidity must stay possible", small, r_frozen.custom(), position)));
                return;
            }
        } else {
            cov.probe("locked_position_small_deposit_accepted");
        }
    }
    for (label, f, tk) in encodings {
        let la = crate::ix::LiqAccounts { pool: keys.clone(), authority: holder, position: *position, position_token_account: tk, owner_a: oa, owner_b: ob, ta_lower: arr(p.lower), ta_upper: arr(p.upper) };
        let (nlo, nhi) = (p.lower, p.upper + sp as i32);
        let rep = crate::ix::RepositionAccounts { liq: la.clone(), funder: holder, new_ta_lower: arr(nlo), new_ta_upper: arr(nhi) };
        let attempts: Vec<(&str, crate::rt::Ix)> = vec![
            ("decrease_liquidity", crate::ix::decrease_liquidity(&la, p.liquidity, 0, 0)),
            ("decrease_liquidity_v2", crate::ix::decrease_liquidity_v2(&la, p.liquidity.min(1).max(1), 0, 0)),
            ("reposition_liquidity_v2", crate::ix::reposition_liquidity_v2(&rep, nlo, nhi, p.liquidity, 0, 0, u64::MAX, u64::MAX)),
        ];
        // adding stays allowed on a locked position - but an "addition" of 2^128 - x must not take liquidity away
        for amount in [u128::MAX - p.liquidity + 1, u128::MAX, (1u128 << 127) + 1] {
            let mut ff = f.clone();
            let r = crate::rt::exec_tx_simple(&mut ff, &crate::rt::Tx { ixs: vec![crate::ix::increase_liquidity_v2(&la, amount, u64::MAX, u64::MAX)] });
            cov.probe("locked_position_probes");
            cov.eval(format!("locked_probe|increase_liquidity_v2 of a wrapping amount|{}|ok={}", label, r.ok));
            if r.ok {
                let q = ff.data(position).and_then(decode::position).map(|q| q.liquidity).unwrap_or(0);
                if q < p.liquidity {
                    out.push(viol("locked_position_withdrawn", idx, format!("increase_liquidity_v2 with liquidity amount {} succeeds on the locked position {} and takes its liquidity from {} to {}", amount, position, p.liquidity, q)));
                    return;
                }
            }
        }
        for (what, ixn) in attempts {
            if what == "decrease_liquidity" && (keys.prog_a != crate::ix::tok() || keys.prog_b != crate::ix::tok()) {
                continue;
            }
            let mut ff = f.clone();
            let r = crate::rt::exec_tx_simple(&mut ff, &crate::rt::Tx { ixs: vec![ixn] });
            cov.probe("locked_position_probes");
            cov.eval(format!("locked_probe|{}|{}|ok={}", what, label, r.ok));
            if r.ok {
                out.push(viol("locked_position_withdrawn", idx, format!("{} succeeds on the locked position {} when its frozen token is held in a {} ({} bytes)", what, position, label, ff.data(&tk).map(|d| d.len()).unwrap_or(0))));
                return;
            }
        }
    }
}

fn bit(bitmap: &[u8; 32], i: u16) -> bool {
    i < 256 && bitmap[(i / 8) as usize] & (1 << (i % 8)) != 0
}

fn open_args(c: &Call) -> (Option<u16>, i32, i32) {
    let mut r = c.args();
    match c.name() {
        "open_position" => {
            r.u8();
            (None, r.i32(), r.i32())
        }
        "open_position_with_metadata" => {
            r.u8();
            r.u8();
            (None, r.i32(), r.i32())
        }
        "open_bundled_position" => {
            let i = r.u16();
            (Some(i), r.i32(), r.i32())
        }
        _ => (None, r.i32(), r.i32()),
    }
}

impl Monitor for C18 {
    fn name(&self) -> &'static str {
        "C18"
    }
    fn on_landed(&mut self, ev: &Landed, cov: &mut Coverage) -> Vec<Violation> {
        // a position closed by an earlier instruction of the same transaction is gone for the later ones: no instruction may
        // succeed on what the close left behind
        if ev.out.ok && ev.tx.ixs.len() > 1 {
            let views = ev.ix_views();
            let mut closed: Vec<Pubkey> = Vec::new();
            for v in &views {
                if let Some(c) = wpix::decode(v.ix) {
                    if let Some(pk) = c.acct("position").or_else(|| c.acct("bundled_position")) {
                        if closed.contains(&pk) {
                            return vec![viol("closed_position_used", ev.idx, format!("{} succeeds on position {} although an earlier instruction of the same transaction closed it", c.name(), pk))];
                        }
                        if matches!(c.name(), "close_position" | "close_bundled_position" | "close_position_with_token_extensions") {
                            closed.push(pk);
                            cov.probe("position_closed_inside_a_longer_transaction");
                        }
                    }
                }
            }
        }
        let mut out = Vec::new();
        // single-instruction transactions: the outcome of the instruction is the outcome of the transaction
        let views: Vec<(usize, &crate::rt::Ix, &Ledger, Option<&Ledger>, bool, Option<u32>)> = if ev.out.ok {
            ev.ix_views().into_iter().map(|v| (v.i, v.ix, v.pre, Some(v.post), true, None)).collect::<Vec<_>>()
        } else if ev.tx.ixs.len() == 1 && ev.fail_cpi.is_none() {
            vec![(0, &ev.tx.ixs[0], ev.pre, None, false, ev.out.custom())]
        } else {
            Vec::new()
        };
        // global bundle invariants after every transaction that went through: while a position bundle exists its token exists
        // (supply 1), and its bitmap marks as many indexes as there are bundled position accounts of that bundle
        if ev.out.ok {
            let touched: Vec<Pubkey> = ev.tx.ixs.iter().flat_map(|i| i.accounts.iter().map(|m| m.pubkey)).collect();
            let mut seen: Vec<Pubkey> = Vec::new();
            for k in &touched {
                if seen.contains(k) {
                    continue;
                }
                seen.push(*k);
                // the bundle itself, or a position (whose mint may be a bundle mint)
                let bundle_key = if ev.post.data(k).and_then(decode::position_bundle).is_some() || ev.pre.data(k).and_then(decode::position_bundle).is_some() {
                    Some(*k)
                } else if let Some(p) = ev.pre.data(k).and_then(decode::position).or_else(|| ev.post.data(k).and_then(decode::position)) {
                    Some(crate::ix::pda_position_bundle(&p.mint))
                } else {
                    None
                };
                let Some(bk) = bundle_key else { continue };
                let Some(b) = ev.post.get(&bk).filter(|a| a.lamports > 0).and_then(|a| decode::position_bundle(&a.data)) else { continue };
                let marked: u32 = b.bitmap.iter().map(|x| x.count_ones()).sum();
                let existing = ev.post.accts.iter().filter(|(_, a)| a.owner == crate::ix::wp() && a.lamports > 0 && a.data.len() == decode::POSITION_LEN).filter_map(|(_, a)| decode::position(&a.data)).filter(|p| p.mint == b.mint).count() as u32;
                let supply = ev.post.data(&b.mint).and_then(decode::mint).map(|m| m.supply);
                cov.probe("bundle_invariants_checked");
                if marked != existing {
                    out.push(viol("bundle_bitmap", ev.idx, format!("after `{}` the bitmap of bundle {} marks {} open positions but {} bundled position accounts exist", ev.tag, bk, marked, existing)));
                }
                if supply != Some(1) {
                    out.push(viol("bundle_token", ev.idx, format!("after `{}` the position bundle {} exists but the supply of its token is {:?}", ev.tag, bk, supply)));
                }
            }
            if !out.is_empty() {
                return out;
            }
        }
        for (_i, ixn, pre, post, ok, code) in views {
            let Some(c) = wpix::decode(ixn) else { continue };
            let name = c.name();
            match name {
                "open_position" | "open_position_with_metadata" | "open_position_with_token_extensions" | "open_bundled_position" => {
                    let Some(pool) = pre.data(&c.a("whirlpool")).and_then(decode::pool) else { continue };
                    let (bidx, lo, hi) = open_args(&c);
                    let m = model_range(&pool, lo, hi);
                    let sentinel = lo == i32::MIN || hi == i32::MAX;
                    cov.eval(format!("{}|range_valid={}|sentinel={}|fro={}|ok={}", name, m.is_some(), sentinel, pool.tick_spacing >= 32768, ok));
                    if sentinel && m.is_some() && ok {
                        cov.probe("one_sided_bound_resolved");
                    }
                    let pos_key = if name == "open_bundled_position" { c.a("bundled_position") } else { c.a("position") };
                    if ok {
                        let Some((mlo, mhi)) = m else {
                            out.push(viol("invalid_range_accepted", ev.idx, format!("{} accepted the range {}..{} on a pool with spacing {} at price {}", name, lo, hi, pool.tick_spacing, pool.sqrt_price)));
                            continue;
                        };
                        let post = post.unwrap();
                        let Some(p) = post.data(&pos_key).and_then(decode::position) else {
                            out.push(viol("position_not_created", ev.idx, format!("{} succeeded but there is no position account", name)));
                            continue;
                        };
                        if p.lower != mlo || p.upper != mhi {
                            out.push(viol("resolved_range", ev.idx, format!("{} with {}..{} at price {} (spacing {}) stored {}..{} but the rule gives {}..{}", name, lo, hi, pool.sqrt_price, pool.tick_spacing, p.lower, p.upper, mlo, mhi)));
                        }
                        if p.liquidity != 0 || !is_empty(&p) || p.fee_growth_checkpoint_a != 0 || p.fee_growth_checkpoint_b != 0 || p.whirlpool != c.a("whirlpool") {
                            out.push(viol("fresh_position_not_clean", ev.idx, format!("{} created a position with non-zero state", name)));
                        }
                        if let Some(i) = bidx {
                            // bundle bitmap
                            let pre_b = pre.data(&c.a("position_bundle")).and_then(decode::position_bundle);
                            let post_b = post.data(&c.a("position_bundle")).and_then(decode::position_bundle);
                            if let (Some(pb), Some(qb)) = (pre_b, post_b) {
                                if bit(&pb.bitmap, i) || !bit(&qb.bitmap, i) || i >= 256 {
                                    out.push(viol("bundle_bitmap", ev.idx, format!("open_bundled_position index {}: bit before {} after {}", i, bit(&pb.bitmap, i), bit(&qb.bitmap, i))));
                                }
                                let mut exp = pb.bitmap;
                                if i < 256 {
                                    exp[(i / 8) as usize] |= 1 << (i % 8);
                                }
                                if exp != qb.bitmap {
                                    out.push(viol("bundle_bitmap", ev.idx, "open_bundled_position changed other bits of the bitmap".into()));
                                }
                            }
                        } else {
                            // exactly one position token, no remaining mint authority, held by the owner
                            let mint_k = c.a("position_mint");
                            let mint = post.data(&mint_k).and_then(decode::mint);
                            let ta = post.data(&c.a("position_token_account")).and_then(decode::token_account);
                            match (mint, ta) {
                                (Some(mi), Some(t)) => {
                                    if mi.supply != 1 || mi.mint_authority.is_some() {
                                        out.push(viol("position_mint", ev.idx, format!("{}: position mint supply {} authority {:?} decimals {}", name, mi.supply, mi.mint_authority, mi.decimals)));
                                    }
                                    if t.amount != 1 || t.mint != mint_k || t.owner != c.a("owner") {
                                        out.push(viol("position_token", ev.idx, format!("{}: token account amount {} owner {} (expected {})", name, t.amount, t.owner, c.a("owner"))));
                                    }
                                    if p.mint != mint_k {
                                        out.push(viol("position_token", ev.idx, "position does not name its mint".into()));
                                    }
                                }
                                _ => out.push(viol("position_mint", ev.idx, format!("{}: mint or token account missing", name))),
                            }
                        }
                        if out.is_empty() {
                            cov.sample(json!({"ix": name, "requested": [lo, hi], "stored": [p.lower, p.upper], "spacing": pool.tick_spacing, "sqrt_price": pool.sqrt_price.to_string()}));
                        }
                    } else if m.is_some() && matches!(code, Some(6010) | Some(6054)) {
                        out.push(viol("valid_range_rejected", ev.idx, format!("{} rejected the range {}..{} (spacing {}, price {}) with {:?}", name, lo, hi, pool.tick_spacing, pool.sqrt_price, code)));
                    }
                    if let Some(i) = bidx {
                        if ok && i >= 256 {
                            out.push(viol("bundle_index", ev.idx, format!("bundle index {} accepted", i)));
                        }
                    }
                }
                "close_position" | "close_position_with_token_extensions" | "close_bundled_position" => {
                    let pos_key = if name == "close_bundled_position" { c.a("bundled_position") } else { c.a("position") };
                    let Some(p) = pre.data(&pos_key).and_then(decode::position) else { continue };
                    let ta = if name == "close_bundled_position" { c.a("position_bundle_token_account") } else { c.a("position_token_account") };
                    let locked = name != "close_bundled_position" && frozen(pre, &ta);
                    cov.eval(format!("{}|empty={}|locked={}|ok={}", name, is_empty(&p), locked, ok));
                    if ok {
                        if !is_empty(&p) {
                            out.push(viol("non_empty_position_closed", ev.idx, format!("{} closed a position with liquidity {} fees {} / {} rewards {:?}", name, p.liquidity, p.fee_owed_a, p.fee_owed_b, p.rewards.iter().map(|r| r.amount_owed).collect::<Vec<_>>())));
                        }
                        if locked {
                            out.push(viol("locked_position_closed", ev.idx, format!("{} closed a locked position", name)));
                        }
                        let post = post.unwrap();
                        if post.get(&pos_key).map(|a| a.lamports != 0 && !a.data.is_empty()).unwrap_or(false) {
                            out.push(viol("closed_position_still_exists", ev.idx, format!("{} left the position account in place", name)));
                        }
                        if name == "close_bundled_position" {
                            let i = c.args().u16();
                            if let (Some(pb), Some(qb)) = (pre.data(&c.a("position_bundle")).and_then(decode::position_bundle), post.data(&c.a("position_bundle")).and_then(decode::position_bundle)) {
                                let mut exp = pb.bitmap;
                                if i < 256 {
                                    exp[(i / 8) as usize] &= !(1 << (i % 8));
                                }
                                if !bit(&pb.bitmap, i) || exp != qb.bitmap {
                                    out.push(viol("bundle_bitmap", ev.idx, format!("close_bundled_position index {}: bitmap not updated exactly", i)));
                                }
                            }
                        }
                    } else if is_empty(&p) && !locked && code == Some(6005) {
                        out.push(viol("empty_position_not_closable", ev.idx, format!("{} refused an empty position as not empty", name)));
                    }
                }
                "reset_position_range" => {
                    let Some(p) = pre.data(&c.a("position")).and_then(decode::position) else { continue };
                    // the range rules are those of the pool the position belongs to, whatever pool account is passed
                    let Some(pool) = pre.data(&p.whirlpool).and_then(decode::pool) else { continue };
                    if c.a("whirlpool") != p.whirlpool {
                        cov.eval(format!("{}|foreign_pool_passed|ok={}", name, ok));
                        if ok {
                            out.push(viol("reset_accepted", ev.idx, format!("reset of a position of pool {} accepted with pool {} in the whirlpool slot", p.whirlpool, c.a("whirlpool"))));
                        }
                    }
                    let mut r = c.args();
                    let (lo, hi) = (r.i32(), r.i32());
                    // a reset takes explicit bounds: sentinels are not resolved here
                    let usable = |t: i32| t >= MIN_TICK && t <= MAX_TICK && t % pool.tick_spacing as i32 == 0;
                    let fro_ok = pool.tick_spacing < 32768 || (lo == min_usable(pool.tick_spacing) && hi == max_usable(pool.tick_spacing));
                    let valid = usable(lo) && usable(hi) && lo < hi && fro_ok;
                    let same = lo == p.lower && hi == p.upper;
                    let locked = frozen(pre, &c.a("position_token_account"));
                    cov.eval(format!("{}|empty={}|valid={}|same={}|locked={}|ok={}", name, is_empty(&p), valid, same, locked, ok));
                    if ok {
                        if !is_empty(&p) || !valid || same || locked {
                            out.push(viol("reset_accepted", ev.idx, format!("reset to {}..{} accepted with empty={} valid={} same={} locked={}", lo, hi, is_empty(&p), valid, same, locked)));
                        }
                        if let Some(q) = post.unwrap().data(&c.a("position")).and_then(decode::position) {
                            if q.lower != lo || q.upper != hi || q.fee_growth_checkpoint_a != 0 || q.fee_growth_checkpoint_b != 0 || q.rewards.iter().any(|x| x.growth_inside_checkpoint != 0) || q.liquidity != 0 {
                                out.push(viol("reset_state", ev.idx, format!("after the reset: range {}..{} checkpoints {} / {} liquidity {}", q.lower, q.upper, q.fee_growth_checkpoint_a, q.fee_growth_checkpoint_b, q.liquidity)));
                            }
                        }
                    } else if is_empty(&p) && valid && !same && matches!(code, Some(6005) | Some(6060) | Some(6010) | Some(6054)) {
                        out.push(viol("legal_reset_rejected", ev.idx, format!("reset of an empty position to the valid new range {}..{} rejected with {:?}", lo, hi, code)));
                    }
                }
                "lock_position" => {
                    let Some(p) = pre.data(&c.a("position")).and_then(decode::position) else { continue };
                    let was = frozen(pre, &c.a("position_token_account"));
                    cov.eval(format!("{}|liquidity={}|already_locked={}|ok={}", name, p.liquidity > 0, was, ok));
                    if ok {
                        if p.liquidity == 0 || was {
                            out.push(viol("lock_accepted", ev.idx, format!("lock accepted with liquidity {} already_locked {}", p.liquidity, was)));
                        }
                        let post = post.unwrap();
                        if !frozen(post, &c.a("position_token_account")) {
                            out.push(viol("lock_state", ev.idx, "locked position's token account is not frozen".into()));
                        }
                        match post.data(&c.a("lock_config")).and_then(decode::lock_config) {
                            Some(lc) if lc.position == c.a("position") && lc.whirlpool == p.whirlpool => {}
                            _ => cov.note("c18_lock_config_missing_or_inconsistent"),
                        }
                        cov.probe("position_locked");
                        if out.is_empty() {
                            probe_locked(post, &c.a("position"), &c.a("position_token_account"), ev.salt, ev.idx, cov, &mut out);
                        }
                    } else if p.liquidity > 0 && !was && code == Some(6058) {
                        out.push(viol("lockable_position_rejected", ev.idx, "position with liquidity refused as not lockable".into()));
                    }
                }
                "decrease_liquidity" | "decrease_liquidity_v2" | "reposition_liquidity_v2" => {
                    if name == "reposition_liquidity_v2" {
                        // re-ranging: only to a valid range (explicit bounds), leaving exactly that range behind
                        if let Some(pool) = pre.data(&c.a("whirlpool")).and_then(decode::pool) {
                            let mut r = c.args();
                            let (lo, hi) = (r.i32(), r.i32());
                            let usable = |t: i32| t >= MIN_TICK && t <= MAX_TICK && t % pool.tick_spacing as i32 == 0;
                            let fro_ok = pool.tick_spacing < 32768 || (lo == min_usable(pool.tick_spacing) && hi == max_usable(pool.tick_spacing));
                            let valid = usable(lo) && usable(hi) && lo < hi && fro_ok;
                            let before = pre.data(&c.a("position")).and_then(decode::position);
                            let same = before.as_ref().map(|p| p.lower == lo && p.upper == hi).unwrap_or(false);
                            let shares_a_bound = before.as_ref().map(|p| (p.lower == lo) != (p.upper == hi)).unwrap_or(false);
                            cov.eval(format!("{}|new_range_valid={}|same={}|shares_a_bound={}|ok={}", name, valid, same, shares_a_bound, ok));
                            if ok && same {
                                out.push(viol("same_range_accepted", ev.idx, format!("reposition_liquidity_v2 accepted the position's own range {}..{} as the new range", lo, hi)));
                            }
                            if !ok && valid && !same && code == Some(6060) {
                                out.push(viol("legal_reposition_rejected", ev.idx, format!("reposition_liquidity_v2 to the different valid range {}..{} (from {:?}) rejected as the same range", lo, hi, before.as_ref().map(|p| (p.lower, p.upper)))));
                            }
                            if !ok && same && valid && code == Some(6060) {
                                cov.probe("reposition_to_same_range_refused");
                            }
                            if ok && shares_a_bound {
                                cov.probe("reposition_keeping_one_bound");
                            }
                            if ok && !valid {
                                out.push(viol("invalid_range_accepted", ev.idx, format!("reposition_liquidity_v2 accepted the new range {}..{} on a pool with spacing {}", lo, hi, pool.tick_spacing)));
                            }
                            if ok {
                                if let Some(q) = post.unwrap().data(&c.a("position")).and_then(decode::position) {
                                    if q.lower != lo || q.upper != hi {
                                        out.push(viol("resolved_range", ev.idx, format!("reposition to {}..{} left the range {}..{}", lo, hi, q.lower, q.upper)));
                                    }
                                }
                            }
                        }
                    }
                    let locked = frozen(pre, &c.a("position_token_account"));
                    if locked {
                        cov.eval(format!("{}|locked|ok={}", name, ok));
                        cov.probe("withdrawal_attempt_on_locked_position");
                        if ok {
                            out.push(viol("locked_position_withdrawn", ev.idx, format!("{} succeeded on a locked position", name)));
                        }
                    }
                }
                "increase_liquidity" | "increase_liquidity_v2" | "collect_fees" | "collect_fees_v2" | "collect_reward" | "collect_reward_v2" => {
                    if frozen(pre, &c.a("position_token_account")) {
                        cov.eval(format!("{}|locked|ok={}", name, ok));
                        if ok {
                            cov.probe("locked_position_added_to_or_collected");
                        } else if code == Some(6059) {
                            out.push(viol("locked_position_operation_refused", ev.idx, format!("{} refused on a locked position although adding and collecting stay allowed", name)));
                        }
                    }
                }
                "transfer_locked_position" => {
                    let was = frozen(pre, &c.a("position_token_account"));
                    cov.eval(format!("{}|locked={}|ok={}", name, was, ok));
                    if ok {
                        if !was {
                            out.push(viol("unlocked_position_transferred", ev.idx, "transfer_locked_position moved a position that is not locked".into()));
                        }
                        let post = post.unwrap();
                        let d = post.data(&c.a("destination_token_account")).and_then(decode::token_account);
                        match d {
                            Some(t) if t.amount == 1 && t.state == 2 => {
                                if let Some(lc) = post.data(&c.a("lock_config")).and_then(decode::lock_config) {
                                    if lc.position_owner != t.owner {
                                        cov.note("c18_lock_config_owner_not_updated");
                                    }
                                }
                                cov.probe("locked_position_transferred");
                                if out.is_empty() {
                                    probe_locked(post, &c.a("position"), &c.a("destination_token_account"), ev.salt, ev.idx, cov, &mut out);
                                }
                            }
                            _ => out.push(viol("transfer_locked_state", ev.idx, "destination does not hold the frozen position token".into())),
                        }
                    }
                }
                "delete_position_bundle" => {
                    let Some(b) = pre.data(&c.a("position_bundle")).and_then(decode::position_bundle) else { continue };
                    let empty = b.bitmap.iter().all(|x| *x == 0);
                    cov.eval(format!("{}|empty={}|ok={}", name, empty, ok));
                    if ok && !empty {
                        out.push(viol("non_empty_bundle_deleted", ev.idx, "a bundle with open positions was deleted".into()));
                    }
                    if !ok && empty && code == Some(6046) {
                        out.push(viol("empty_bundle_not_deletable", ev.idx, "an empty bundle was refused as not deletable".into()));
                    }
                    // "the bundle can be deleted only when none is open" - for every way of being non-empty: on copies whose
                    // bitmap marks one position (first, last, somewhere), 255 of them, or all 256, the deletion must be refused
                    if ev.tx.ixs.len() == 1 && (ev.salt % 2 == 0) {
                        let bk = c.a("position_bundle");
                        if let Some(acc) = pre.get(&bk).cloned() {
                            let off = acc.data.len().saturating_sub(32 + 64).max(40);
                            // the bitmap follows the discriminator and the bundle mint
                            let off = if acc.data.len() >= 72 { 40 } else { off };
                            let mut patterns: Vec<(&str, [u8; 32])> = Vec::new();
                            let mut one = [0u8; 32];
                            one[0] = 1;
                            patterns.push(("only the first index", one));
                            let mut last = [0u8; 32];
                            last[31] = 0x80;
                            patterns.push(("only the last index", last));
                            let mut some = [0u8; 32];
                            some[(ev.salt % 32) as usize] = 1 << (ev.salt % 8);
                            patterns.push(("one index somewhere", some));
                            let mut all_but_one = [0xffu8; 32];
                            all_but_one[(ev.salt % 32) as usize] ^= 1 << (ev.salt % 8);
                            patterns.push(("255 of the 256 indexes", all_but_one));
                            patterns.push(("all 256 indexes", [0xffu8; 32]));
                            for (label, bm) in patterns {
                                let mut f = pre.clone();
                                let mut d = (*acc.data).clone();
                                if d.len() < off + 32 {
                                    break;
                                }
                                d[off..off + 32].copy_from_slice(&bm);
                                f.put(bk, crate::rt::Account::new(acc.lamports, d, acc.owner));
                                let r = crate::rt::exec_tx_simple(&mut f, ev.tx);
                                cov.probe("bundle_deletion_on_copies_with_open_positions");
                                if r.ok {
                                    out.push(viol("non_empty_bundle_deleted", ev.idx, format!("delete_position_bundle goes through on a copy of the bundle whose bitmap marks {} as open", label)));
                                    break;
                                }
                            }
                        }
                    }
                }
                _ => {}
            }
            // bitmap marks exactly the open bundled positions (bits set, plus a few probes)
            if ok {
                if let (Some(bk), Some(post)) = (c.acct("position_bundle"), post) {
                    if let Some(b) = post.data(&bk).and_then(decode::position_bundle) {
                        let mut idxs: Vec<u16> = (0..256u16).filter(|i| bit(&b.bitmap, *i)).collect();
                        idxs.extend([0u16, 7, 8, 255, (ev.salt % 256) as u16]);
                        for i in idxs {
                            let exists = post.data(&crate::ix::pda_bundled_position(&b.mint, i)).and_then(decode::position).is_some();
                            if exists != bit(&b.bitmap, i) {
                                out.push(viol("bundle_bitmap", ev.idx, format!("bundle {}: bit {} is {} but the bundled position account {}", bk, i, bit(&b.bitmap, i), if exists { "exists" } else { "does not exist" })));
                                break;
                            }
                        }
                    }
                }
            }
        }
        out
    }
}
