//! "A setter stores what it was asked to store": for every landed initialiser / setter of a parameter, the account
//! field after the instruction equals the instruction's argument (or, for pool creation, the fee tier's preset). Used
//! by C19 (parameters) and C14 (adaptive-fee constants reach the oracle unaltered, so that swaps are charged by the
//! constants that were configured). The comparison is between instruction bytes and account bytes only.

use crate::decode::{self, AfConstants};
use crate::sim::IxView;
use crate::wpix;
use solana_program::pubkey::Pubkey;

fn constants_from(r: &mut decode::Rd) -> AfConstants {
    AfConstants {
        filter_period: r.u16(),
        decay_period: r.u16(),
        reduction_factor: r.u16(),
        adaptive_fee_control_factor: r.u32(),
        max_volatility_accumulator: r.u32(),
        tick_group_size: r.u16(),
        major_swap_threshold_ticks: r.u16(),
    }
}

/// Some(description) when the stored state does not echo the request. `adaptive_only`: only the adaptive-fee family.
pub fn echo_mismatch(v: &IxView, adaptive_only: bool) -> Option<String> {
    let c = wpix::decode(v.ix)?;
    let name = c.name();
    let pool = |k: &str| v.post.data(&c.a(k)).and_then(decode::pool);
    let tier = |k: &str| v.post.data(&c.a(k)).and_then(decode::adaptive_fee_tier);
    let mut r = c.args();
    match name {
        "initialize_adaptive_fee_tier" => {
            let (idx, sp) = (r.u16(), r.u16());
            let (ipa, dfa) = (r.key(), r.key());
            let base = r.u16();
            let k = constants_from(&mut r);
            let t = tier("adaptive_fee_tier")?;
            if t.fee_tier_index != idx || t.tick_spacing != sp || t.initialize_pool_authority != ipa || t.delegated_fee_authority != dfa || t.default_base_fee_rate != base || t.c != k || t.config != c.a("whirlpools_config") {
                return Some(format!("initialize_adaptive_fee_tier asked for index {} spacing {} base rate {} constants {:?} but the tier stores index {} spacing {} base rate {} constants {:?}", idx, sp, base, k, t.fee_tier_index, t.tick_spacing, t.default_base_fee_rate, t.c));
            }
        }
        "set_preset_adaptive_fee_constants" => {
            let k = constants_from(&mut r);
            let t = tier("adaptive_fee_tier")?;
            if t.c != k {
                return Some(format!("set_preset_adaptive_fee_constants asked for {:?} but the tier stores {:?}", k, t.c));
            }
        }
        "set_adaptive_fee_constants" => {
            let before = v.pre.data(&c.a("oracle")).and_then(decode::oracle)?;
            let after = v.post.data(&c.a("oracle")).and_then(decode::oracle)?;
            let mut k = before.c.clone();
            macro_rules! opt {
                ($f:ident, $read:ident) => {
                    if r.u8() == 1 {
                        k.$f = r.$read();
                    }
                };
            }
            opt!(filter_period, u16);
            opt!(decay_period, u16);
            opt!(reduction_factor, u16);
            opt!(adaptive_fee_control_factor, u32);
            opt!(max_volatility_accumulator, u32);
            opt!(tick_group_size, u16);
            opt!(major_swap_threshold_ticks, u16);
            if after.c != k {
                return Some(format!("set_adaptive_fee_constants should leave {:?} but the oracle stores {:?}", k, after.c));
            }
        }
        "initialize_pool_with_adaptive_fee" => {
            let price = r.u128();
            let enable = if r.u8() == 1 { r.u64() } else { 0 };
            let t = v.pre.data(&c.a("adaptive_fee_tier")).and_then(decode::adaptive_fee_tier)?;
            let p = pool("whirlpool")?;
            let o = v.post.data(&c.a("oracle")).and_then(decode::oracle)?;
            if o.c != t.c || o.whirlpool != c.a("whirlpool") || o.trade_enable_timestamp != enable || p.fee_rate != t.default_base_fee_rate || p.tick_spacing != t.tick_spacing || u16::from_le_bytes(p.fee_tier_index_seed) != t.fee_tier_index || p.sqrt_price != price {
                return Some(format!("initialize_pool_with_adaptive_fee from a tier with base rate {} spacing {} constants {:?} (price {}, enable time {}) created a pool with fee rate {} spacing {} price {} and an oracle with constants {:?}, enable time {}", t.default_base_fee_rate, t.tick_spacing, t.c, price, enable, p.fee_rate, p.tick_spacing, p.sqrt_price, o.c, o.trade_enable_timestamp));
            }
        }
        "set_default_base_fee_rate" => {
            let x = r.u16();
            if tier("adaptive_fee_tier")?.default_base_fee_rate != x {
                return Some(format!("set_default_base_fee_rate({}) left {}", x, tier("adaptive_fee_tier")?.default_base_fee_rate));
            }
        }
        "set_delegated_fee_authority" => {
            if tier("adaptive_fee_tier")?.delegated_fee_authority != c.a("new_delegated_fee_authority") {
                return Some("set_delegated_fee_authority did not store the new authority".into());
            }
        }
        "set_initialize_pool_authority" => {
            if tier("adaptive_fee_tier")?.initialize_pool_authority != c.a("new_initialize_pool_authority") {
                return Some("set_initialize_pool_authority did not store the new authority".into());
            }
        }
        "set_fee_rate_by_delegated_fee_authority" => {
            let x = r.u16();
            if pool("whirlpool")?.fee_rate != x {
                return Some(format!("set_fee_rate_by_delegated_fee_authority({}) left fee rate {}", x, pool("whirlpool")?.fee_rate));
            }
        }
        _ if adaptive_only => {}
        "set_fee_rate" => {
            let x = r.u16();
            if pool("whirlpool")?.fee_rate != x {
                return Some(format!("set_fee_rate({}) left fee rate {}", x, pool("whirlpool")?.fee_rate));
            }
        }
        "set_protocol_fee_rate" => {
            let x = r.u16();
            if pool("whirlpool")?.protocol_fee_rate != x {
                return Some(format!("set_protocol_fee_rate({}) left protocol fee rate {}", x, pool("whirlpool")?.protocol_fee_rate));
            }
        }
        "set_default_fee_rate" => {
            let x = r.u16();
            let t = v.post.data(&c.a("fee_tier")).and_then(decode::fee_tier)?;
            if t.default_fee_rate != x {
                return Some(format!("set_default_fee_rate({}) left {}", x, t.default_fee_rate));
            }
        }
        "set_default_protocol_fee_rate" => {
            let x = r.u16();
            let g = v.post.data(&c.a("whirlpools_config")).and_then(decode::config)?;
            if g.default_protocol_fee_rate != x {
                return Some(format!("set_default_protocol_fee_rate({}) left {}", x, g.default_protocol_fee_rate));
            }
        }
        "initialize_config_extension" => {
            // born for the named config, under the fee authority that created it (not under whoever paid the rent)
            let d = v.post.data(&c.a("config_extension"))?;
            if d.len() >= 104 {
                let (cfg, a1, a2) = (Pubkey::new_from_array(d[8..40].try_into().ok()?), Pubkey::new_from_array(d[40..72].try_into().ok()?), Pubkey::new_from_array(d[72..104].try_into().ok()?));
                let fa = c.a("fee_authority");
                if cfg != c.a("config") || a1 != fa || a2 != fa {
                    return Some(format!("initialize_config_extension by fee authority {} (rent paid by {}) created an extension of config {} with authorities {} / {}", fa, c.a("funder"), cfg, a1, a2));
                }
            }
        }
        "initialize_fee_tier" => {
            let (sp, rate) = (r.u16(), r.u16());
            let t = v.post.data(&c.a("fee_tier")).and_then(decode::fee_tier)?;
            if t.tick_spacing != sp || t.default_fee_rate != rate || t.config != c.a("config") {
                return Some(format!("initialize_fee_tier(spacing {}, rate {}) stored spacing {} rate {}", sp, rate, t.tick_spacing, t.default_fee_rate));
            }
        }
        "initialize_pool" | "initialize_pool_v2" => {
            if name == "initialize_pool" {
                let _bump = r.u8();
            }
            let sp = r.u16();
            let price = r.u128();
            let t = v.pre.data(&c.a("fee_tier")).and_then(decode::fee_tier)?;
            let g = v.pre.data(&c.a("whirlpools_config")).and_then(decode::config)?;
            let p = pool("whirlpool")?;
            if p.tick_spacing != sp || p.sqrt_price != price || p.fee_rate != t.default_fee_rate || p.protocol_fee_rate != g.default_protocol_fee_rate || p.config != c.a("whirlpools_config") || p.mint_a != c.a("token_mint_a") || p.mint_b != c.a("token_mint_b") || p.vault_a != c.a("token_vault_a") || p.vault_b != c.a("token_vault_b") || p.liquidity != 0 || p.tick_current_index != crate::model::tick_of_sqrt_price(price) {
                return Some(format!("{}(spacing {}, price {}) from a tier with rate {} under a config with default protocol rate {} created a pool with spacing {} price {} tick {} fee rate {} protocol fee rate {} liquidity {}", name, sp, price, t.default_fee_rate, g.default_protocol_fee_rate, p.tick_spacing, p.sqrt_price, p.tick_current_index, p.fee_rate, p.protocol_fee_rate, p.liquidity));
            }
        }
        "set_fee_authority" | "set_collect_protocol_fees_authority" | "set_reward_emissions_super_authority" => {
            let g = v.post.data(&c.a("whirlpools_config")).and_then(decode::config)?;
            let (stored, want): (Pubkey, Pubkey) = match name {
                "set_fee_authority" => (g.fee_authority, c.a("new_fee_authority")),
                "set_collect_protocol_fees_authority" => (g.collect_protocol_fees_authority, c.a("new_collect_protocol_fees_authority")),
                _ => (g.reward_emissions_super_authority, c.a("new_reward_emissions_super_authority")),
            };
            if stored != want {
                return Some(format!("{} did not store the new authority", name));
            }
        }
        "set_reward_authority" | "set_reward_authority_by_super_authority" => {
            let p = pool("whirlpool")?;
            if Pubkey::new_from_array(p.rewards[0].extension) != c.a("new_reward_authority") {
                return Some(format!("{} did not store the new reward authority", name));
            }
        }
        _ => {}
    }
    None
}
