//! C01 — pool solvency: every outstanding claim on a vault can always be paid, in any order,
//! and nobody extracts value by trading back and forth alone.

use crate::decode::{self, Pool};
use crate::gen::ta_start;
use crate::ix::{self, LiqAccounts, PoolKeys};
use crate::model;
use crate::rng::Rng;
use crate::rt::{self, Ledger, Tx, TxOutcome};
use crate::sim::{Coverage, Landed, Monitor, Violation};
use crate::world::{self, put_token_account, scratch_key, token_amount};
use num_bigint::BigUint;
use serde_json::json;
use solana_program::pubkey::Pubkey;

pub struct C01 {
    /// run the drain on every n-th landed transaction (1 = always)
    pub every: u64,
}

fn viol(class: &str, idx: usize, detail: String) -> Violation {
    Violation {
        property: "C01",
        class: class.to_string(),
        detail,
        event_idx: idx,
    }
}

pub fn pool_keys(wk: &Pubkey, p: &Pool, l: &Ledger) -> PoolKeys {
    let prog = |m: &Pubkey| l.get(m).map(|a| a.owner).unwrap_or(ix::tok());
    PoolKeys {
        config: p.config,
        whirlpool: *wk,
        mint_a: p.mint_a,
        mint_b: p.mint_b,
        vault_a: p.vault_a,
        vault_b: p.vault_b,
        prog_a: prog(&p.mint_a),
        prog_b: prog(&p.mint_b),
        tick_spacing: p.tick_spacing,
        fee_tier_index: u16::from_le_bytes(p.fee_tier_index_seed),
        oracle: ix::pda_oracle(wk),
    }
}

fn run1(l: &mut Ledger, ixn: rt::Ix) -> TxOutcome {
    rt::exec_tx_simple(l, &Tx { ixs: vec![ixn] })
}

/// did the instruction fail because a token transfer lacked funds?
fn insufficient_funds(o: &TxOutcome) -> bool {
    if o.ok {
        return false;
    }
    o.ix_outcomes
        .last()
        .map(|io| {
            io.cpis.iter().any(|c| {
                (c.program_id == ix::tok() || c.program_id == ix::tok22()) && c.result == 1
            })
        })
        .unwrap_or(false)
}

fn is_plain_pool(l: &Ledger, p: &Pool) -> bool {
    l.get(&p.mint_a).map(|a| a.owner == ix::tok()).unwrap_or(false)
        && l.get(&p.mint_b).map(|a| a.owner == ix::tok()).unwrap_or(false)
}

/// Withdraw everything, collect everything, in a random order, on a fork.
pub fn drain(post: &Ledger, wk: &Pubkey, salt: u64, idx: usize, cov: &mut Coverage) -> Vec<Violation> {
    let mut out = Vec::new();
    let mut l = post.clone();
    let Some(pool) = l.data(wk).and_then(decode::pool) else { return out };
    if !is_plain_pool(&l, &pool) {
        return out;
    }
    let pk = pool_keys(wk, &pool, &l);
    let mut rng = Rng::new(salt ^ 0xD4A1);
    let mut positions = decode::positions_of_pool(&l, wk);
    if positions.is_empty() && pool.protocol_fee_owed_a == 0 && pool.protocol_fee_owed_b == 0 {
        return out;
    }
    rng.shuffle(&mut positions);
    let protocol_at = rng.idx(positions.len() + 1);
    let cfg = l.data(&pool.config).and_then(decode::config);
    let mut step = 0u64;
    let mut total_claim_a = BigUint::from(0u32);
    let mut total_claim_b = BigUint::from(0u32);
    let vault_a0 = token_amount(&l, &pool.vault_a);
    let vault_b0 = token_amount(&l, &pool.vault_b);
    let mut do_protocol = |l: &mut Ledger, out: &mut Vec<Violation>, cov: &mut Coverage| {
        if let Some(cfg) = &cfg {
            let da = scratch_key(salt, 9001);
            let db = scratch_key(salt, 9002);
            put_token_account(l, &da, &pool.mint_a, &cfg.collect_protocol_fees_authority, 0);
            put_token_account(l, &db, &pool.mint_b, &cfg.collect_protocol_fees_authority, 0);
            if !l.exists(&cfg.collect_protocol_fees_authority) {
                world::fund(l, &cfg.collect_protocol_fees_authority, 1 << 30);
            }
            let o = run1(l, ix::collect_protocol_fees(&pk, &cfg.collect_protocol_fees_authority, &da, &db));
            if insufficient_funds(&o) {
                out.push(viol("drain_insufficient_funds", idx, format!("collect_protocol_fees during a drain of pool {} failed for lack of funds", wk)));
            } else if !o.ok {
                cov.note(&format!("drain_step_failed:collect_protocol_fees:{:#x}", o.code()));
            }
        }
    };
    for (i, (pos_key, p)) in positions.iter().enumerate() {
        if i == protocol_at {
            do_protocol(&mut l, &mut out, cov);
        }
        let Some((holder_key, holder)) = decode::holder_of(&l, &p.mint) else {
            cov.note("drain_position_without_holder");
            continue;
        };
        if holder.state == 2 {
            // frozen = locked position: cannot be withdrawn by design (C18)
            cov.note("drain_skipped_locked_position");
            continue;
        }
        step += 1;
        let oa = scratch_key(salt, 100 + step);
        let ob = scratch_key(salt, 200 + step);
        put_token_account(&mut l, &oa, &pool.mint_a, &holder.owner, 0);
        put_token_account(&mut l, &ob, &pool.mint_b, &holder.owner, 0);
        if !l.exists(&holder.owner) {
            world::fund(&mut l, &holder.owner, 1 << 30);
        }
        let la = LiqAccounts {
            pool: pk.clone(),
            authority: holder.owner,
            position: *pos_key,
            position_token_account: holder_key,
            owner_a: oa,
            owner_b: ob,
            ta_lower: ix::pda_tick_array(wk, ta_start(p.lower, pool.tick_spacing)),
            ta_upper: ix::pda_tick_array(wk, ta_start(p.upper, pool.tick_spacing)),
        };
        let mut seq: Vec<(&str, rt::Ix)> = Vec::new();
        if p.liquidity > 0 {
            seq.push(("update_fees_and_rewards", ix::update_fees_and_rewards(wk, pos_key, &la.ta_lower, &la.ta_upper)));
            let d = if rng.chance(1, 2) {
                ix::decrease_liquidity(&la, p.liquidity, 0, 0)
            } else {
                ix::decrease_liquidity_v2(&la, p.liquidity, 0, 0)
            };
            seq.push(("decrease_liquidity", d));
        }
        seq.push(("collect_fees", if rng.chance(1, 2) { ix::collect_fees(&la) } else { ix::collect_fees_v2(&la) }));
        for (name, ixn) in seq {
            let o = run1(&mut l, ixn);
            if insufficient_funds(&o) {
                out.push(viol(
                    "drain_insufficient_funds",
                    idx,
                    format!("{} of position {} ({}..{}, L={}) during a drain of pool {} failed for lack of funds (vaults {} / {})",
                        name, pos_key, p.lower, p.upper, p.liquidity, wk, token_amount(&l, &pool.vault_a), token_amount(&l, &pool.vault_b)),
                ));
                return out;
            } else if !o.ok {
                cov.note(&format!("drain_step_failed:{}:{:#x}", name, o.code()));
                // "every position can be fully withdrawn and its fees collected": the only refusal a holder meets for a reason
                // that is not the pool's is a clock that reads earlier than the pool's last update (InvalidTimestamp)
                // (or, when the clock reads a negative time, cannot be converted at all: InvalidTimestampConversion)
                if o.code() != 6022 && o.code() != 6021 {
                    out.push(viol(
                        "drain_step_refused",
                        idx,
                        format!("{} of position {} ({}..{}, L={}) by its holder during a drain of pool {} is refused with {:#x} ({:?}): the claim cannot be paid out", name, pos_key, p.lower, p.upper, p.liquidity, wk, o.code(), o.custom()),
                    ));
                    return out;
                }
            }
        }
        total_claim_a += BigUint::from(token_amount(&l, &oa));
        total_claim_b += BigUint::from(token_amount(&l, &ob));
    }
    if protocol_at >= positions.len() {
        do_protocol(&mut l, &mut out, cov);
    }
    let _ = (total_claim_a, total_claim_b, vault_a0, vault_b0);
    cov.probe("drains_completed");
    let dust_a = token_amount(&l, &pool.vault_a);
    let dust_b = token_amount(&l, &pool.vault_b);
    cov.probe_n("drain_residual_dust_units", dust_a.saturating_add(dust_b).min(1 << 20));
    out
}

/// Arithmetic form: vault >= protocol owed + sum of stored fee owed + sum of withdrawable amounts.
fn arithmetic(post: &Ledger, wk: &Pubkey, idx: usize) -> Vec<Violation> {
    let mut out = Vec::new();
    let Some(pool) = post.data(wk).and_then(decode::pool) else { return out };
    if !is_plain_pool(post, &pool) {
        return out;
    }
    let mut need_a = BigUint::from(pool.protocol_fee_owed_a);
    let mut need_b = BigUint::from(pool.protocol_fee_owed_b);
    for (_, p) in decode::positions_of_pool(post, wk) {
        need_a += BigUint::from(p.fee_owed_a);
        need_b += BigUint::from(p.fee_owed_b);
        if p.liquidity > 0 {
            let (a, b) = model::liquidity_amounts(p.liquidity, pool.tick_current_index, pool.sqrt_price, p.lower, p.upper, false);
            need_a += a;
            need_b += b;
        }
    }
    let va = BigUint::from(token_amount(post, &pool.vault_a));
    let vb = BigUint::from(token_amount(post, &pool.vault_b));
    if va < need_a || vb < need_b {
        out.push(viol("vault_below_claims", idx, format!("pool {}: vault A {} vs claims {}, vault B {} vs claims {}", wk, va, need_a, vb, need_b)));
    }
    out
}

/// Token conservation per mint: sum of token-account amounts = supply.
fn conservation(post: &Ledger, idx: usize) -> Vec<Violation> {
    use std::collections::BTreeMap;
    let mut sums: BTreeMap<Pubkey, u128> = BTreeMap::new();
    for (_, a) in post.accts.iter() {
        if (a.owner == ix::tok() || a.owner == ix::tok22()) && a.data.len() >= 165 {
            if let Some(t) = decode::token_account(&a.data) {
                *sums.entry(t.mint).or_insert(0) += t.amount as u128;
            }
        }
    }
    let mut out = Vec::new();
    for (m, s) in sums {
        if let Some(mi) = post.data(&m).and_then(decode::mint) {
            // Token-2022 withheld fees live in accounts/mint, not in `amount`; plain mints only
            if post.get(&m).map(|a| a.owner == ix::tok()).unwrap_or(false) && mi.supply as u128 != s {
                out.push(viol("token_conservation", idx, format!("mint {} supply {} but token accounts hold {}", m, mi.supply, s)));
            }
        }
    }
    out
}

/// A party that only swaps back and forth (alone, frozen clock) must not end up ahead.
fn no_extraction(post: &Ledger, wk: &Pubkey, salt: u64, idx: usize, cov: &mut Coverage) -> Vec<Violation> {
    let mut out = Vec::new();
    let mut l = post.clone();
    let Some(pool0) = l.data(wk).and_then(decode::pool) else { return out };
    if !is_plain_pool(&l, &pool0) || pool0.liquidity == 0 {
        return out;
    }
    let pk = pool_keys(wk, &pool0, &l);
    let mut rng = Rng::new(salt ^ 0xE87A);
    let trader = scratch_key(salt, 7000);
    world::fund(&mut l, &trader, 1 << 30);
    let ta = scratch_key(salt, 7001);
    let tb = scratch_key(salt, 7002);
    let start: u64 = 1 << 62;
    put_token_account(&mut l, &ta, &pool0.mint_a, &trader, start);
    put_token_account(&mut l, &tb, &pool0.mint_b, &trader, start);
    let n = 2 + rng.below(5);
    let mut done = 0;
    let mut log = Vec::new();
    for i in 0..n {
        let Some(pool) = l.data(wk).and_then(decode::pool) else { break };
        let a_to_b = if i == 0 { rng.chance(1, 2) } else { rng.chance(1, 3) == (i % 2 == 0) };
        let is_input = rng.chance(1, 2);
        let bits = (128 - pool.liquidity.leading_zeros()).saturating_sub(rng.below(16) as u32).clamp(2, 60);
        let amount = rng.log_u64(bits);
        // stay within the first arrays: limit a few hundred ticks away
        let dt = 1 + rng.below(60 * pool.tick_spacing as u64) as i32;
        let t = if a_to_b { pool.tick_current_index - dt } else { pool.tick_current_index + dt };
        let limit = model::sqrt_price_of_tick(t.clamp(decode::MIN_TICK, decode::MAX_TICK));
        let sa = ix::SwapAccounts {
            pool: pk.clone(),
            authority: trader,
            owner_a: ta,
            owner_b: tb,
            tick_arrays: crate::gen::swap_tick_arrays(&pool, wk, a_to_b),
        };
        let args = ix::SwapArgs {
            amount,
            other_amount_threshold: if is_input { 0 } else { u64::MAX },
            sqrt_price_limit: limit,
            amount_specified_is_input: is_input,
            a_to_b,
        };
        let o = run1(&mut l, if rng.chance(1, 2) { ix::swap(&sa, &args) } else { ix::swap_v2(&sa, &args, &[]) });
        if o.ok {
            done += 1;
            log.push(json!({"a_to_b": a_to_b, "exact_in": is_input, "amount": amount}));
        }
    }
    if done == 0 {
        return out;
    }
    let a1 = token_amount(&l, &ta);
    let b1 = token_amount(&l, &tb);
    cov.probe("round_trip_probes");
    if a1 >= start && b1 >= start && (a1 > start || b1 > start) {
        out.push(viol("value_extracted_by_swapping", idx, format!("after {} swaps alone on pool {} the trader holds A {:+} B {:+}: {:?}", done, wk, a1 as i128 - start as i128, b1 as i128 - start as i128, log)));
    }
    out
}

/// An LP that adds and removes liquidity (alone) must not end up ahead.
fn lp_round_trip(post: &Ledger, wk: &Pubkey, salt: u64, idx: usize, cov: &mut Coverage) -> Vec<Violation> {
    let mut out = Vec::new();
    let mut l = post.clone();
    let Some(pool) = l.data(wk).and_then(decode::pool) else { return out };
    if !is_plain_pool(&l, &pool) {
        return out;
    }
    let pk = pool_keys(wk, &pool, &l);
    let mut rng = Rng::new(salt ^ 0x1F77);
    let lp = scratch_key(salt, 7100);
    world::fund(&mut l, &lp, 1 << 34);
    let ta = scratch_key(salt, 7101);
    let tb = scratch_key(salt, 7102);
    let start: u64 = 1 << 62;
    put_token_account(&mut l, &ta, &pool.mint_a, &lp, start);
    put_token_account(&mut l, &tb, &pool.mint_b, &lp, start);
    let (lo, hi) = crate::gen::pick_range(&mut rng, &l, wk, &pool);
    let sp = pool.tick_spacing;
    let (sl, su) = (ta_start(lo, sp), ta_start(hi, sp));
    if !l.exists(&ix::pda_tick_array(wk, sl)) || !l.exists(&ix::pda_tick_array(wk, su)) {
        return out; // only existing arrays: keeps lamport flows out of the picture
    }
    let mint = scratch_key(salt, 7103);
    let (oix, pkeys) = ix::open_position(wk, &lp, &lp, &mint, lo, hi);
    if !run1(&mut l, oix).ok {
        return out;
    }
    let la = LiqAccounts {
        pool: pk,
        authority: lp,
        position: pkeys.position,
        position_token_account: pkeys.token_account,
        owner_a: ta,
        owner_b: tb,
        ta_lower: ix::pda_tick_array(wk, sl),
        ta_upper: ix::pda_tick_array(wk, su),
    };
    // one deposit, or the same liquidity split into many dust deposits (whatever each rounding gives away adds up)
    let split: u128 = if rng.chance(1, 2) { 1 } else { 4 + rng.below(13) as u128 };
    let bits = *rng.pick(&[4u32, 8, 12, 20, 40]);
    let lot = if split == 1 { rng.log_u128(80) } else { 1 + rng.log_u128(bits) };
    let liq = lot * split;
    for _ in 0..split {
        let inc = if rng.chance(1, 2) { ix::increase_liquidity(&la, lot, u64::MAX, u64::MAX) } else { ix::increase_liquidity_v2(&la, lot, u64::MAX, u64::MAX) };
        if !run1(&mut l, inc).ok {
            return out;
        }
    }
    if split > 1 {
        cov.probe("lp_round_trip_split_into_dust_deposits");
    }
    let (a_mid, b_mid) = (token_amount(&l, &ta), token_amount(&l, &tb));
    let dec = if rng.chance(1, 2) { ix::decrease_liquidity(&la, liq, 0, 0) } else { ix::decrease_liquidity_v2(&la, liq, 0, 0) };
    let o = run1(&mut l, dec);
    if !o.ok {
        if insufficient_funds(&o) {
            out.push(viol("drain_insufficient_funds", idx, format!("removing the liquidity {} just added to {}..{} failed for lack of funds", liq, lo, hi)));
        }
        return out;
    }
    let _ = run1(&mut l, ix::collect_fees(&la));
    let (a1, b1) = (token_amount(&l, &ta), token_amount(&l, &tb));
    cov.probe("lp_round_trip_probes");
    if a1 > start || b1 > start {
        out.push(viol("value_extracted_by_lp_round_trip", idx, format!("add then remove L={} on {}..{} returned A {:+} B {:+}", liq, lo, hi, a1 as i128 - start as i128, b1 as i128 - start as i128)));
    }
    let _ = (a_mid, b_mid);
    out
}

/// Solvency under integer-limit liquidity amounts, on copies: right after a liquidity instruction landed, the same
/// caller tries deposits whose exact cost sits just above 2^64 / 2^128, deposits of 2^127 and more, and withdrawals
/// of 2^128 - x. A correct program refuses them; if one goes through, the pool must still cover every claim.
fn integer_limit_probe(v: &crate::sim::IxView, salt: u64, idx: usize, cov: &mut Coverage) -> Vec<Violation> {
    let mut out = Vec::new();
    let Some(c) = crate::wpix::decode(v.ix) else { return out };
    let name = c.name();
    if !matches!(name, "increase_liquidity" | "increase_liquidity_v2" | "decrease_liquidity" | "decrease_liquidity_v2") {
        return out;
    }
    let wk = c.a("whirlpool");
    let (Some(pool), Some(pos)) = (v.post.data(&wk).and_then(decode::pool), v.post.data(&c.a("position")).and_then(decode::position)) else { return out };
    if !is_plain_pool(v.post, &pool) {
        return out;
    }
    let v2 = name.ends_with("v2");
    let x = 1 + (salt >> 8) % 1_000_000;
    let mut tries: Vec<(&str, u128, bool)> = Vec::new();
    for l in model::limit_liquidities(pool.tick_current_index, pool.sqrt_price, pos.lower, pos.upper) {
        tries.push(("deposit with a cost just above 2^64 / 2^128", l, true));
    }
    tries.push(("deposit of 2^127 + x", (1u128 << 127) + x as u128, true));
    tries.push(("deposit of 2^128 - x", u128::MAX - x as u128 + 1, true));
    tries.push(("withdrawal of 2^128 - x", u128::MAX - x as u128 + 1, false));
    tries.push(("withdrawal of 2^127 + x", (1u128 << 127) + x as u128, false));
    for (what, l, inc) in tries {
        let iname = match (inc, v2) {
            (true, true) => "increase_liquidity_v2",
            (true, false) => "increase_liquidity",
            (false, true) => "decrease_liquidity_v2",
            (false, false) => "decrease_liquidity",
        };
        let mut d = crate::wpix::ix_disc(iname).to_vec();
        d.extend_from_slice(&l.to_le_bytes());
        let (b0, b1) = if inc { (u64::MAX, u64::MAX) } else { (0u64, 0u64) };
        d.extend_from_slice(&b0.to_le_bytes());
        d.extend_from_slice(&b1.to_le_bytes());
        if v2 {
            // the original's description of the remaining accounts (transfer-hook slices) follows the three numbers
            if v.ix.data.len() > 40 {
                d.extend_from_slice(&v.ix.data[40..]);
            } else {
                d.push(0);
            }
        }
        let mut ix2 = v.ix.clone();
        ix2.data = d;
        let mut fork = v.post.clone();
        let r = run1(&mut fork, ix2);
        cov.probe("integer_limit_liquidity_probes");
        cov.eval(format!("integer_limit|{}|{}|ok={}", iname, what, r.ok));
        if r.ok {
            cov.probe("integer_limit_liquidity_amount_accepted");
            let mut vs = arithmetic(&fork, &wk, idx);
            if vs.is_empty() {
                vs = drain(&fork, &wk, salt, idx, cov);
            }
            for mut x in vs {
                x.detail = format!("after a {} ({} with liquidity amount {}) went through on a copy: {}", what, iname, l, x.detail);
                out.push(x);
            }
            if !out.is_empty() {
                return out;
            }
        }
    }
    out
}

impl Monitor for C01 {
    fn name(&self) -> &'static str {
        "C01"
    }
    fn on_landed(&mut self, ev: &Landed, cov: &mut Coverage) -> Vec<Violation> {
        let mut out = Vec::new();
        // an injected CPI failure must fail the transaction and leave the ledger untouched
        let fired = ev.out.ix_outcomes.iter().any(|o| o.injected_fired);
        if fired {
            cov.probe("injected_cpi_failure_landed");
            if ev.out.ok {
                out.push(viol("cpi_error_swallowed", ev.idx, format!("a CPI of `{}` failed but the transaction succeeded", ev.tag)));
            } else if ev.pre != ev.post {
                out.push(viol("failed_tx_changed_state", ev.idx, "a failed transaction changed the ledger".into()));
            }
        }
        if !ev.out.ok {
            return out;
        }
        out.extend(conservation(ev.post, ev.idx));
        let pools = decode::pools(ev.post);
        for (wk, pool) in &pools {
            // only pools this transaction touched
            let touched = ev.tx.ixs.iter().any(|i| i.accounts.iter().any(|m| m.pubkey == *wk || m.pubkey == pool.vault_a || m.pubkey == pool.vault_b));
            if !touched {
                continue;
            }
            let kind = ev.tx.ixs.last().and_then(crate::wpix::decode).map(|c| c.name()).unwrap_or("other");
            let npos = decode::positions_of_pool(ev.post, wk).len();
            cov.eval(format!(
                "{}|pos={}|L0={}|owed={}|sp={}|bound={}",
                kind,
                npos.min(6),
                pool.liquidity == 0,
                pool.protocol_fee_owed_a > 0 || pool.protocol_fee_owed_b > 0,
                pool.tick_spacing,
                pool.sqrt_price == decode::MIN_SQRT_PRICE || pool.sqrt_price == decode::MAX_SQRT_PRICE
            ));
            out.extend(arithmetic(ev.post, wk, ev.idx));
            if ev.salt % self.every == 0 {
                out.extend(drain(ev.post, wk, ev.salt, ev.idx, cov));
            }
            if ev.salt % 5 == 1 {
                out.extend(no_extraction(ev.post, wk, ev.salt, ev.idx, cov));
            }
            if ev.salt % 7 == 2 {
                out.extend(lp_round_trip(ev.post, wk, ev.salt, ev.idx, cov));
            }
            if ev.salt % 6 == 4 && out.is_empty() {
                for v in ev.ix_views() {
                    if v.ix.accounts.iter().any(|m| m.pubkey == *wk) {
                        out.extend(integer_limit_probe(&v, ev.salt, ev.idx, cov));
                    }
                }
            }
            if out.is_empty() && npos > 0 {
                cov.sample(json!({"after": kind, "pool": wk.to_string(), "positions": npos, "vault_a": token_amount(ev.post, &pool.vault_a), "vault_b": token_amount(ev.post, &pool.vault_b),
                    "protocol_owed": [pool.protocol_fee_owed_a, pool.protocol_fee_owed_b], "check": "drain on fork (random order) + arithmetic claim bound + conservation"}));
            }
        }
        out
    }
}
