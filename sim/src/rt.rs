//! Runtime stub: ledger, BPF-loader input buffer (de)serialisation, program dispatch,
//! CPI with privilege checks, syscall seams (clock, rent, logs, return data), fault points.
//!
//! Everything is thread-local: one simulated world per worker thread.

use solana_program::account_info::AccountInfo;
use solana_program::instruction::Instruction as SolInstruction;
use solana_program::program_error::ProgramError;
use solana_program::pubkey::Pubkey;
use std::cell::RefCell;
use std::collections::BTreeMap;
use std::rc::Rc;

pub const MAX_PERMITTED_DATA_INCREASE: usize = 10_240;
pub const NON_DUP_MARKER: u8 = 0xFF;

pub const ERR_PANIC: u64 = 0xFFFF_0000_0000_0001;
pub const ERR_RUNTIME: u64 = 0xFFFF_0000_0000_0002;
pub const ERR_INJECTED_CPI: u64 = 0xFFFF_0000_0000_0003;
pub const ERR_ROUTING_MISMATCH: u64 = 0xFFFF_0000_0000_0004;

pub fn system_program_id() -> Pubkey {
    solana_program::system_program::ID
}
pub fn metaplex_program_id() -> Pubkey {
    solana_program::pubkey!("metaqbxxUerdq28cj1RbAWkYQm3ybzjb6a8bt518x1s")
}
pub fn hook_program_id() -> Pubkey {
    // simulator-owned transfer-hook stub program
    solana_program::pubkey!("Hook111111111111111111111111111111111111111")
}

// ---------------------------------------------------------------------------------------------
// Ledger
// ---------------------------------------------------------------------------------------------

#[derive(Clone, Debug, PartialEq, Eq)]
pub struct Account {
    pub lamports: u64,
    pub data: Rc<Vec<u8>>,
    pub owner: Pubkey,
    pub executable: bool,
}

impl Account {
    pub fn new(lamports: u64, data: Vec<u8>, owner: Pubkey) -> Self {
        Account {
            lamports,
            data: Rc::new(data),
            owner,
            executable: false,
        }
    }
}

#[derive(Clone, Debug, Default, PartialEq, Eq)]
pub struct Ledger {
    pub accts: BTreeMap<Pubkey, Account>,
}

impl Ledger {
    pub fn get(&self, k: &Pubkey) -> Option<&Account> {
        self.accts.get(k)
    }
    pub fn data(&self, k: &Pubkey) -> Option<&[u8]> {
        self.accts.get(k).map(|a| a.data.as_slice())
    }
    pub fn put(&mut self, k: Pubkey, a: Account) {
        self.accts.insert(k, a);
    }
    pub fn exists(&self, k: &Pubkey) -> bool {
        self.accts.contains_key(k)
    }
    pub fn add_program(&mut self, k: Pubkey) {
        self.accts.insert(
            k,
            Account {
                lamports: 1_000_000_000,
                data: Rc::new(vec![0u8; 36]),
                owner: solana_program::bpf_loader_upgradeable::ID,
                executable: true,
            },
        );
    }
    pub fn total_lamports(&self) -> u128 {
        self.accts.values().map(|a| a.lamports as u128).sum()
    }
}

#[derive(Clone, Debug, PartialEq, Eq)]
pub struct Meta {
    pub pubkey: Pubkey,
    pub is_signer: bool,
    pub is_writable: bool,
}

#[derive(Clone, Debug, PartialEq, Eq)]
pub struct Ix {
    pub program_id: Pubkey,
    pub accounts: Vec<Meta>,
    pub data: Vec<u8>,
}

impl Ix {
    pub fn from_sol(ix: SolInstruction) -> Ix {
        Ix {
            program_id: ix.program_id,
            accounts: ix
                .accounts
                .into_iter()
                .map(|m| Meta {
                    pubkey: m.pubkey,
                    is_signer: m.is_signer,
                    is_writable: m.is_writable,
                })
                .collect(),
            data: ix.data,
        }
    }
}

// ---------------------------------------------------------------------------------------------
// Clock / rent
// ---------------------------------------------------------------------------------------------

#[derive(Clone, Copy, Debug, PartialEq, Eq)]
pub struct ClockState {
    pub slot: u64,
    pub epoch_start_timestamp: i64,
    pub epoch: u64,
    pub leader_schedule_epoch: u64,
    pub unix_timestamp: i64,
}

impl Default for ClockState {
    fn default() -> Self {
        ClockState {
            slot: 1000,
            epoch_start_timestamp: 1_700_000_000,
            epoch: 10,
            leader_schedule_epoch: 11,
            unix_timestamp: 1_700_000_000,
        }
    }
}

#[derive(Clone, Copy, Debug, PartialEq)]
pub struct RentParams {
    pub lamports_per_byte_year: u64,
    pub exemption_threshold: f64,
    pub burn_percent: u8,
}

impl Default for RentParams {
    fn default() -> Self {
        RentParams {
            lamports_per_byte_year: 3480,
            exemption_threshold: 2.0,
            burn_percent: 50,
        }
    }
}

impl RentParams {
    pub fn minimum_balance(&self, len: usize) -> u64 {
        (((128 + len as u64) * self.lamports_per_byte_year) as f64 * self.exemption_threshold)
            as u64
    }
}

// ---------------------------------------------------------------------------------------------
// Execution context (thread local)
// ---------------------------------------------------------------------------------------------

#[derive(Clone, Debug)]
pub struct CpiRecord {
    pub depth: usize,
    pub program_id: Pubkey,
    pub accounts: Vec<Meta>,
    pub data: Vec<u8>,
    pub result: u64,
}

#[derive(Clone, Debug, Default)]
pub struct Frame {
    pub program_id: Pubkey,
    pub accounts: Vec<Meta>,
}

#[derive(Default)]
pub struct ExecCtx {
    pub clock: ClockState,
    pub rent: RentParams,
    pub stack: Vec<Frame>,
    pub logs: Vec<String>,
    pub data_logs: Vec<(Pubkey, Vec<Vec<u8>>)>,
    pub return_data: Option<(Pubkey, Vec<u8>)>,
    pub cpi_count: usize,
    /// fault injection: the k-th CPI (0-based, counted per top-level instruction) fails
    pub fail_cpi_at: Option<usize>,
    pub injected_fired: bool,
    pub cpis: Vec<CpiRecord>,
    pub record_logs: bool,
    pub hook_fail: bool,
    pub hook_calls: usize,
    pub panic_msg: Option<String>,
}

thread_local! {
    pub static CTX: RefCell<ExecCtx> = RefCell::new(ExecCtx::default());
}

pub fn with_ctx<R>(f: impl FnOnce(&mut ExecCtx) -> R) -> R {
    CTX.with(|c| f(&mut c.borrow_mut()))
}

/// Payload used to unwind out of a Pinocchio handler when a CPI fails (on chain the VM aborts).
pub struct CpiAbort(pub u64);

// ---------------------------------------------------------------------------------------------
// Syscall seams
// ---------------------------------------------------------------------------------------------

struct Stubs;

impl solana_program::program_stubs::SyscallStubs for Stubs {
    fn sol_log(&self, message: &str) {
        with_ctx(|c| {
            if c.record_logs {
                c.logs.push(message.to_string())
            }
        });
    }
    fn sol_log_compute_units(&self) {}
    fn sol_remaining_compute_units(&self) -> u64 {
        1_000_000
    }
    fn sol_invoke_signed(
        &self,
        instruction: &SolInstruction,
        account_infos: &[AccountInfo],
        signers_seeds: &[&[&[u8]]],
    ) -> Result<(), ProgramError> {
        let r = cpi_from_sol(instruction, account_infos, signers_seeds);
        if r == 0 {
            Ok(())
        } else {
            Err(ProgramError::from(r))
        }
    }
    fn sol_get_clock_sysvar(&self, var_addr: *mut u8) -> u64 {
        let c = with_ctx(|c| c.clock);
        unsafe {
            let p = var_addr as *mut solana_program::clock::Clock;
            std::ptr::write_unaligned(
                p,
                solana_program::clock::Clock {
                    slot: c.slot,
                    epoch_start_timestamp: c.epoch_start_timestamp,
                    epoch: c.epoch,
                    leader_schedule_epoch: c.leader_schedule_epoch,
                    unix_timestamp: c.unix_timestamp,
                },
            );
        }
        0
    }
    fn sol_get_rent_sysvar(&self, var_addr: *mut u8) -> u64 {
        let r = with_ctx(|c| c.rent);
        unsafe {
            let p = var_addr as *mut solana_program::rent::Rent;
            let mut rent = solana_program::rent::Rent::default();
            rent.lamports_per_byte_year = r.lamports_per_byte_year;
            rent.exemption_threshold = r.exemption_threshold;
            rent.burn_percent = r.burn_percent;
            std::ptr::write_unaligned(p, rent);
        }
        0
    }
    fn sol_get_epoch_schedule_sysvar(&self, _var_addr: *mut u8) -> u64 {
        1
    }
    fn sol_get_return_data(&self) -> Option<(Pubkey, Vec<u8>)> {
        with_ctx(|c| c.return_data.clone())
    }
    fn sol_set_return_data(&self, data: &[u8]) {
        set_return_data(data)
    }
    fn sol_log_data(&self, fields: &[&[u8]]) {
        log_data(fields)
    }
    fn sol_get_stack_height(&self) -> u64 {
        with_ctx(|c| c.stack.len() as u64)
    }
}

fn set_return_data(data: &[u8]) {
    with_ctx(|c| {
        let pid = c.stack.last().map(|f| f.program_id).unwrap_or_default();
        c.return_data = Some((pid, data.to_vec()));
    });
}

fn log_data(fields: &[&[u8]]) {
    with_ctx(|c| {
        let pid = c.stack.last().map(|f| f.program_id).unwrap_or_default();
        c.data_logs
            .push((pid, fields.iter().map(|f| f.to_vec()).collect()));
    });
}

pub fn install_stubs() {
    use std::sync::Once;
    static ONCE: Once = Once::new();
    ONCE.call_once(|| {
        solana_program::program_stubs::set_syscall_stubs(Box::new(Stubs));
        // silent panic hook: panics are an expected way for an instruction to fail
        std::panic::set_hook(Box::new(|info| {
            let msg = if let Some(s) = info.payload().downcast_ref::<&str>() {
                s.to_string()
            } else if let Some(s) = info.payload().downcast_ref::<String>() {
                s.clone()
            } else if info.payload().downcast_ref::<CpiAbort>().is_some() {
                return;
            } else {
                "<non-string panic>".to_string()
            };
            let loc = info
                .location()
                .map(|l| format!("{}:{}", l.file(), l.line()))
                .unwrap_or_default();
            let in_program = CTX
                .try_with(|c| {
                    if let Ok(mut c) = c.try_borrow_mut() {
                        let inside = !c.stack.is_empty();
                        c.panic_msg = Some(format!("{} @ {}", msg, loc));
                        inside
                    } else {
                        false
                    }
                })
                .unwrap_or(false);
            // (a panic inside `guarded` is an expected outcome of the code under comparison - the SDK, an accessor - and is
            // turned into a value by the caller)
            if !in_program && GUARDED.with(|g| g.get()) == 0 {
                eprintln!("HARNESS PANIC: {} @ {}", msg, loc);
            }
        }));
    });
}

thread_local! {
    static GUARDED: std::cell::Cell<u32> = const { std::cell::Cell::new(0) };
}

/// run code whose panic is an outcome to be judged (not a harness failure): the panic hook stays silent meanwhile
pub fn guarded<T>(f: impl FnOnce() -> T) -> std::thread::Result<T> {
    GUARDED.with(|g| g.set(g.get() + 1));
    let r = std::panic::catch_unwind(std::panic::AssertUnwindSafe(f));
    GUARDED.with(|g| g.set(g.get() - 1));
    r
}

/// like `guarded`, on a helper thread and with a deadline: code under comparison that does not return within `secs` seconds
/// is abandoned (its thread keeps spinning until the process ends - a check stops after a handful of violations) and reported
/// as `Err(None)`; a panic is `Err(Some(()))`
pub fn guarded_with_deadline<T: Send + 'static>(secs: u64, f: impl FnOnce() -> T + Send + 'static) -> Result<T, Option<()>> {
    let (tx, rx) = std::sync::mpsc::channel();
    let _ = std::thread::Builder::new().name("code-under-comparison".into()).spawn(move || {
        let r = guarded(f);
        let _ = tx.send(r);
    });
    match rx.recv_timeout(std::time::Duration::from_secs(secs)) {
        Ok(Ok(v)) => Ok(v),
        Ok(Err(_)) => Err(Some(())),
        Err(_) => Err(None),
    }
}

// seams of the vendored crates ---------------------------------------------------------------

#[no_mangle]
pub fn __verif_sol_invoke_signed(
    instruction: &SolInstruction,
    account_infos: &[AccountInfo],
    signers_seeds: &[&[&[u8]]],
) -> u64 {
    cpi_from_sol(instruction, account_infos, signers_seeds)
}

#[no_mangle]
pub fn __verif_sol_set_return_data(data: &[u8]) {
    set_return_data(data)
}

#[no_mangle]
pub fn __verif_sol_get_return_data() -> Option<(Pubkey, Vec<u8>)> {
    with_ctx(|c| c.return_data.clone())
}

#[no_mangle]
pub fn __verif_sol_log(message: &str) {
    with_ctx(|c| {
        if c.record_logs {
            c.logs.push(message.to_string())
        }
    });
}

#[no_mangle]
pub fn __verif_sol_log_data(data: &[&[u8]]) {
    log_data(data)
}

#[no_mangle]
pub fn __verif_pino_log(message: &str) {
    with_ctx(|c| {
        if c.record_logs {
            c.logs.push(message.to_string())
        }
    });
}

#[no_mangle]
pub fn __verif_pino_log_data(data: &[&[u8]]) {
    log_data(data)
}

#[no_mangle]
pub fn __verif_pino_sysvar(name: &str, var_addr: *mut u8) -> u64 {
    match name {
        "sol_get_clock_sysvar" => {
            let c = with_ctx(|c| c.clock);
            unsafe {
                let p = var_addr as *mut u64;
                std::ptr::write_unaligned(p, c.slot);
                std::ptr::write_unaligned(p.add(1) as *mut i64, c.epoch_start_timestamp);
                std::ptr::write_unaligned(p.add(2), c.epoch);
                std::ptr::write_unaligned(p.add(3), c.leader_schedule_epoch);
                std::ptr::write_unaligned(p.add(4) as *mut i64, c.unix_timestamp);
            }
            0
        }
        "sol_get_rent_sysvar" => {
            let r = with_ctx(|c| c.rent);
            unsafe {
                // pinocchio Rent: lamports_per_byte_year u64, exemption_threshold f64, burn_percent u8
                let p = var_addr;
                std::ptr::write_unaligned(p as *mut u64, r.lamports_per_byte_year);
                std::ptr::write_unaligned(p.add(8) as *mut f64, r.exemption_threshold);
                std::ptr::write_unaligned(p.add(16), r.burn_percent);
            }
            0
        }
        _ => 1,
    }
}

#[repr(C)]
struct PinoCInstruction {
    program_id: *const [u8; 32],
    accounts: *const PinoAccountMeta,
    accounts_len: u64,
    data: *const u8,
    data_len: u64,
}
#[repr(C)]
struct PinoAccountMeta {
    pubkey: *const [u8; 32],
    is_writable: bool,
    is_signer: bool,
}
#[repr(C)]
struct PinoCAccount {
    key: *const [u8; 32],
    lamports: *const u64,
    data_len: u64,
    data: *const u8,
    owner: *const [u8; 32],
    rent_epoch: u64,
    is_signer: bool,
    is_writable: bool,
    executable: bool,
}
#[repr(C)]
struct PinoSeed {
    seed: *const u8,
    len: u64,
}
#[repr(C)]
struct PinoSigner {
    seeds: *const PinoSeed,
    len: u64,
}

#[no_mangle]
pub unsafe fn __verif_pino_invoke_signed_c(
    instruction: *const u8,
    accounts: *const u8,
    accounts_len: u64,
    signers: *const u8,
    signers_len: u64,
) -> u64 {
    let ci = &*(instruction as *const PinoCInstruction);
    let metas = std::slice::from_raw_parts(ci.accounts, ci.accounts_len as usize);
    let data = std::slice::from_raw_parts(ci.data, ci.data_len as usize);
    let accts = std::slice::from_raw_parts(accounts as *const PinoCAccount, accounts_len as usize);
    let signers = std::slice::from_raw_parts(signers as *const PinoSigner, signers_len as usize);

    let sol_ix = SolInstruction {
        program_id: Pubkey::new_from_array(*ci.program_id),
        accounts: metas
            .iter()
            .map(|m| solana_program::instruction::AccountMeta {
                pubkey: Pubkey::new_from_array(*m.pubkey),
                is_signer: m.is_signer,
                is_writable: m.is_writable,
            })
            .collect(),
        data: data.to_vec(),
    };
    // build solana AccountInfos over the same memory
    let mut saved: Vec<(*mut u32, u32)> = Vec::new();
    let mut infos: Vec<AccountInfo> = Vec::with_capacity(accts.len());
    let mut seen: Vec<(*const [u8; 32], usize)> = Vec::new();
    for a in accts {
        if let Some((_, idx)) = seen.iter().find(|(k, _)| *k == a.key) {
            let mut dup = infos[*idx].clone();
            dup.is_signer = a.is_signer;
            dup.is_writable = a.is_writable;
            infos.push(dup);
            continue;
        }
        let key: &Pubkey = &*(a.key as *const Pubkey);
        let owner: &Pubkey = &*(a.owner as *const Pubkey);
        let lamports: &mut u64 = &mut *(a.lamports as *mut u64);
        // current data length is in the buffer, 8 bytes before the data
        let cur_len = *((a.data as *const u8).offset(-8) as *const u64) as usize;
        let d: &mut [u8] = std::slice::from_raw_parts_mut(a.data as *mut u8, cur_len);
        // original_data_len slot (pinocchio: resize_delta)
        let odl = (a.key as *const u8).offset(-4) as *mut u32;
        saved.push((odl, *odl));
        *odl = cur_len as u32;
        seen.push((a.key, infos.len()));
        infos.push(AccountInfo::new(
            key,
            a.is_signer,
            a.is_writable,
            lamports,
            d,
            owner,
            a.executable,
            0,
        ));
    }
    let seeds_owned: Vec<Vec<&[u8]>> = signers
        .iter()
        .map(|s| {
            std::slice::from_raw_parts(s.seeds, s.len as usize)
                .iter()
                .map(|sd| std::slice::from_raw_parts(sd.seed, sd.len as usize))
                .collect()
        })
        .collect();
    let seeds_ref: Vec<&[&[u8]]> = seeds_owned.iter().map(|v| v.as_slice()).collect();
    let r = cpi_from_sol(&sol_ix, &infos, &seeds_ref);
    drop(infos);
    for (p, v) in saved {
        *p = v;
    }
    if r != 0 {
        // on chain a failed CPI aborts the whole instruction; pinocchio's wrapper returns ()
        std::panic::panic_any(CpiAbort(r));
    }
    0
}

// ---------------------------------------------------------------------------------------------
// CPI
// ---------------------------------------------------------------------------------------------

fn perr(e: ProgramError) -> u64 {
    u64::from(e)
}

/// Common CPI path (Anchor/solana-program callers and, after conversion, Pinocchio callers).
fn cpi_from_sol(
    instruction: &SolInstruction,
    account_infos: &[AccountInfo],
    signers_seeds: &[&[&[u8]]],
) -> u64 {
    // fault injection point + bookkeeping
    let (caller, depth, inject) = with_ctx(|c| {
        let idx = c.cpi_count;
        c.cpi_count += 1;
        let inject = c.fail_cpi_at == Some(idx);
        if inject {
            c.injected_fired = true;
        }
        (
            c.stack.last().cloned().unwrap_or_default(),
            c.stack.len(),
            inject,
        )
    });
    let record = |result: u64| {
        with_ctx(|c| {
            c.cpis.push(CpiRecord {
                depth,
                program_id: instruction.program_id,
                accounts: instruction
                    .accounts
                    .iter()
                    .map(|m| Meta {
                        pubkey: m.pubkey,
                        is_signer: m.is_signer,
                        is_writable: m.is_writable,
                    })
                    .collect(),
                data: instruction.data.clone(),
                result,
            })
        });
        result
    };
    if inject {
        return record(ERR_INJECTED_CPI);
    }
    if depth >= 5 {
        return record(perr(ProgramError::Custom(0xdead_0001))); // call depth
    }
    // the callee program must be one of the caller's instruction accounts and executable
    if !caller
        .accounts
        .iter()
        .any(|m| m.pubkey == instruction.program_id)
    {
        return record(perr(ProgramError::NotEnoughAccountKeys)); // MissingAccount
    }
    // PDA signers
    let mut pda_signers: Vec<Pubkey> = Vec::new();
    for seeds in signers_seeds {
        match Pubkey::create_program_address(seeds, &caller.program_id) {
            Ok(k) => pda_signers.push(k),
            Err(_) => return record(perr(ProgramError::InvalidSeeds)),
        }
    }
    // privilege checks, build callee account list
    let mut callee_infos: Vec<AccountInfo> = Vec::with_capacity(instruction.accounts.len());
    let mut callee_metas: Vec<Meta> = Vec::with_capacity(instruction.accounts.len());
    for m in &instruction.accounts {
        // flags are merged across duplicates of the same key in the instruction
        let (mut sgn, mut wr) = (false, false);
        for m2 in &instruction.accounts {
            if m2.pubkey == m.pubkey {
                sgn |= m2.is_signer;
                wr |= m2.is_writable;
            }
        }
        let caller_meta = caller.accounts.iter().find(|cm| cm.pubkey == m.pubkey);
        let info = account_infos.iter().find(|ai| *ai.key == m.pubkey);
        let (caller_meta, info) = match (caller_meta, info) {
            (Some(a), Some(b)) => (a, b),
            _ => return record(perr(ProgramError::NotEnoughAccountKeys)),
        };
        // privileges of the caller frame (the runtime's view), not of the AccountInfo flags
        let caller_signer = caller
            .accounts
            .iter()
            .any(|cm| cm.pubkey == m.pubkey && cm.is_signer);
        let caller_writable = caller
            .accounts
            .iter()
            .any(|cm| cm.pubkey == m.pubkey && cm.is_writable);
        let _ = caller_meta;
        if wr && !caller_writable {
            return record(perr(ProgramError::Custom(0xdead_0002))); // PrivilegeEscalation
        }
        if sgn && !(caller_signer || pda_signers.contains(&m.pubkey)) {
            return record(perr(ProgramError::Custom(0xdead_0003))); // PrivilegeEscalation
        }
        let mut ci = info.clone();
        ci.is_signer = sgn;
        ci.is_writable = wr;
        callee_infos.push(ci);
        callee_metas.push(Meta {
            pubkey: m.pubkey,
            is_signer: sgn,
            is_writable: wr,
        });
    }
    // callee frame: it may further CPI into programs among *its* accounts
    with_ctx(|c| {
        c.stack.push(Frame {
            program_id: instruction.program_id,
            accounts: callee_metas,
        });
        c.return_data = None;
    });
    let r = crate::programs::process(&instruction.program_id, &callee_infos, &instruction.data);
    with_ctx(|c| {
        c.stack.pop();
    });
    let code = match r {
        Some(Ok(())) => 0,
        Some(Err(e)) => {
            let c = perr(e);
            if c == 0 {
                1 << 32
            } else {
                c
            }
        }
        None => perr(ProgramError::IncorrectProgramId),
    };
    record(code)
}

// ---------------------------------------------------------------------------------------------
// Input buffer
// ---------------------------------------------------------------------------------------------

pub struct SerAccount {
    pub key: Pubkey,
    pub off_flags: usize, // offset of the 0xFF marker
    pub off_owner: usize,
    pub off_lamports: usize,
    pub off_data_len: usize,
    pub off_data: usize,
    pub pre_lamports: u64,
    pub pre_len: usize,
    pub pre_owner: Pubkey,
    pub pre_data: Rc<Vec<u8>>,
    pub executable: bool,
    pub is_signer: bool,
    pub is_writable: bool,
    pub existed: bool,
}

pub struct InputBuf {
    pub mem: Vec<u64>,
    pub accts: Vec<SerAccount>,
}

impl InputBuf {
    pub fn ptr(&mut self) -> *mut u8 {
        self.mem.as_mut_ptr() as *mut u8
    }
    fn bytes(&self) -> &[u8] {
        unsafe { std::slice::from_raw_parts(self.mem.as_ptr() as *const u8, self.mem.len() * 8) }
    }
}

/// Serialise exactly like the BPF loader's `serialize_parameters_aligned`.
pub fn serialize(ledger: &Ledger, ix: &Ix, flags: &BTreeMap<Pubkey, (bool, bool)>) -> InputBuf {
    // size
    let mut uniq: Vec<Pubkey> = Vec::new();
    let mut size = 8usize;
    for m in &ix.accounts {
        if uniq.contains(&m.pubkey) {
            size += 8;
        } else {
            uniq.push(m.pubkey);
            let dl = ledger.get(&m.pubkey).map(|a| a.data.len()).unwrap_or(0);
            size += 8 + 32 + 32 + 8 + 8 + dl + MAX_PERMITTED_DATA_INCREASE;
            size = (size + 7) & !7;
            size += 8;
        }
    }
    size += 8 + ix.data.len() + 32;
    let words = (size + 7) / 8 + 1;
    let mut mem = vec![0u64; words];
    let b: &mut [u8] =
        unsafe { std::slice::from_raw_parts_mut(mem.as_mut_ptr() as *mut u8, words * 8) };
    let mut off = 0usize;
    b[off..off + 8].copy_from_slice(&(ix.accounts.len() as u64).to_le_bytes());
    off += 8;
    let mut accts: Vec<SerAccount> = Vec::new();
    let mut first_index: Vec<(Pubkey, usize)> = Vec::new();
    for (i, m) in ix.accounts.iter().enumerate() {
        if let Some((_, fi)) = first_index.iter().find(|(k, _)| *k == m.pubkey) {
            b[off] = *fi as u8;
            off += 8;
            continue;
        }
        first_index.push((m.pubkey, i));
        let (sgn, wr) = flags
            .get(&m.pubkey)
            .cloned()
            .unwrap_or((m.is_signer, m.is_writable));
        let acct = ledger.get(&m.pubkey);
        let (lamports, data, owner, executable, existed) = match acct {
            Some(a) => (a.lamports, a.data.clone(), a.owner, a.executable, true),
            None => (0, Rc::new(Vec::new()), system_program_id(), false, false),
        };
        let off_flags = off;
        b[off] = NON_DUP_MARKER;
        b[off + 1] = sgn as u8;
        b[off + 2] = wr as u8;
        b[off + 3] = executable as u8;
        off += 8; // incl. 4 bytes original_data_len / resize delta
        b[off..off + 32].copy_from_slice(m.pubkey.as_ref());
        off += 32;
        let off_owner = off;
        b[off..off + 32].copy_from_slice(owner.as_ref());
        off += 32;
        let off_lamports = off;
        b[off..off + 8].copy_from_slice(&lamports.to_le_bytes());
        off += 8;
        let off_data_len = off;
        b[off..off + 8].copy_from_slice(&(data.len() as u64).to_le_bytes());
        off += 8;
        let off_data = off;
        b[off..off + data.len()].copy_from_slice(&data);
        off += data.len() + MAX_PERMITTED_DATA_INCREASE;
        off = (off + 7) & !7;
        // rent epoch
        b[off..off + 8].copy_from_slice(&u64::MAX.to_le_bytes());
        off += 8;
        accts.push(SerAccount {
            key: m.pubkey,
            off_flags,
            off_owner,
            off_lamports,
            off_data_len,
            off_data,
            pre_lamports: lamports,
            pre_len: data.len(),
            pre_owner: owner,
            pre_data: data,
            executable,
            is_signer: sgn,
            is_writable: wr,
            existed,
        });
    }
    b[off..off + 8].copy_from_slice(&(ix.data.len() as u64).to_le_bytes());
    off += 8;
    b[off..off + ix.data.len()].copy_from_slice(&ix.data);
    off += ix.data.len();
    b[off..off + 32].copy_from_slice(ix.program_id.as_ref());
    InputBuf { mem, accts }
}

#[derive(Clone, Debug, PartialEq, Eq)]
pub struct PostAccount {
    pub key: Pubkey,
    pub lamports: u64,
    pub owner: Pubkey,
    pub data: Vec<u8>,
}

fn read_back(buf: &InputBuf) -> Result<Vec<PostAccount>, &'static str> {
    let b = buf.bytes();
    let mut out = Vec::with_capacity(buf.accts.len());
    for a in &buf.accts {
        let lamports = u64::from_le_bytes(b[a.off_lamports..a.off_lamports + 8].try_into().unwrap());
        let len = u64::from_le_bytes(b[a.off_data_len..a.off_data_len + 8].try_into().unwrap())
            as usize;
        if len > a.pre_len + MAX_PERMITTED_DATA_INCREASE {
            return Err("InvalidRealloc: data grew by more than 10240 bytes");
        }
        let owner = Pubkey::new_from_array(b[a.off_owner..a.off_owner + 32].try_into().unwrap());
        out.push(PostAccount {
            key: a.key,
            lamports,
            owner,
            data: b[a.off_data..a.off_data + len].to_vec(),
        });
    }
    Ok(out)
}

// ---------------------------------------------------------------------------------------------
// Instruction / transaction execution
// ---------------------------------------------------------------------------------------------

#[derive(Clone, Debug, Default)]
pub struct IxOutcome {
    pub code: u64,
    pub detail: Option<String>,
    pub logs: Vec<String>,
    pub events: Vec<(Pubkey, Vec<Vec<u8>>)>,
    pub cpis: Vec<CpiRecord>,
    pub return_data: Option<(Pubkey, Vec<u8>)>,
    pub injected_fired: bool,
    pub routing_mismatch: Option<String>,
    /// per-step swap traces recorded by hook H1 (one per call of the swap loop)
    pub traces: Vec<whirlpool::verif_hooks::SwapTrace>,
}

impl IxOutcome {
    pub fn ok(&self) -> bool {
        self.code == 0
    }
    /// Anchor / program custom error code if the error is a custom one
    pub fn custom(&self) -> Option<u32> {
        if self.code != 0 && self.code < (1 << 32) {
            Some(self.code as u32)
        } else {
            None
        }
    }
}

#[derive(Clone, Debug, Default)]
pub struct ExecOpts {
    pub fail_cpi_at: Option<usize>,
    pub record_logs: bool,
    pub hook_fail: bool,
}

fn reset_ix_ctx(ix: &Ix, metas: &[Meta], opts: &ExecOpts) {
    with_ctx(|c| {
        c.stack.clear();
        c.stack.push(Frame {
            program_id: ix.program_id,
            accounts: metas.to_vec(),
        });
        c.logs.clear();
        c.data_logs.clear();
        c.cpis.clear();
        c.cpi_count = 0;
        c.fail_cpi_at = opts.fail_cpi_at;
        c.injected_fired = false;
        c.record_logs = opts.record_logs;
        c.hook_fail = opts.hook_fail;
        c.return_data = None;
        c.panic_msg = None;
    });
    whirlpool::verif_hooks::clear();
}

extern "C" {
    fn entrypoint(input: *mut u8) -> u64;
}

const PINO_MAX_TX_ACCOUNTS: usize = 64;

/// Pre-flight through the public, non-`extern` pieces of the program.
unsafe fn whirlpool_preflight(input: *mut u8) -> u64 {
    use anchor_lang::Discriminator;
    use whirlpool::instruction as wi;
    use whirlpool::pinocchio::instructions as pi;
    type H = fn(&[pinocchio::account_info::AccountInfo], &[u8]) -> whirlpool::pinocchio::Result<()>;
    let table: [(&[u8], H); 6] = [
        (wi::IncreaseLiquidity::DISCRIMINATOR, pi::increase_liquidity::handler),
        (wi::DecreaseLiquidity::DISCRIMINATOR, pi::decrease_liquidity::handler),
        (wi::IncreaseLiquidityV2::DISCRIMINATOR, pi::increase_liquidity_v2::handler),
        (wi::DecreaseLiquidityV2::DISCRIMINATOR, pi::decrease_liquidity_v2::handler),
        (
            wi::IncreaseLiquidityByTokenAmountsV2::DISCRIMINATOR,
            pi::increase_liquidity_by_token_amounts_v2::handler,
        ),
        (wi::RepositionLiquidityV2::DISCRIMINATOR, pi::reposition_liquidity_v2::handler),
    ];
    const UNINIT: core::mem::MaybeUninit<pinocchio::account_info::AccountInfo> =
        core::mem::MaybeUninit::<pinocchio::account_info::AccountInfo>::uninit();
    let mut accounts = [UNINIT; PINO_MAX_TX_ACCOUNTS];
    let (_pid, count, data) =
        pinocchio::entrypoint::deserialize::<PINO_MAX_TX_ACCOUNTS>(input, &mut accounts);
    if let Some((_, h)) = table.iter().find(|t| data.starts_with(t.0)) {
        let parsed = core::slice::from_raw_parts(accounts.as_ptr() as *const _, count);
        return match h(parsed, data) {
            Ok(()) => 0,
            Err(e) => e.into(),
        };
    }
    let (program_id, accounts, data) = solana_program::entrypoint::deserialize(input);
    match whirlpool::entry(program_id, &accounts, data) {
        Ok(()) => 0,
        Err(e) => e.into(),
    }
}

/// The Anchor implementations of the four liquidity instructions are still in the tree as public
/// handlers (the `#[program]` stubs are `unreachable!()`): drive them with the same sequence the
/// `#[program]` macro generates (try_accounts -> Context::new -> handler -> exit).
fn anchor_twin<'info>(program_id: &Pubkey, accounts: &'info [AccountInfo<'info>], data: &[u8]) -> anchor_lang::Result<()> {
    use anchor_lang::prelude::*;
    use anchor_lang::{Bumps, Discriminator};
    use std::collections::BTreeSet;
    use whirlpool::instruction as wi;
    use whirlpool::instructions as ins;
    if data.len() < 8 {
        return Err(ProgramError::InvalidInstructionData.into());
    }
    let (disc, mut ix_data) = data.split_at(8);
    let mut reallocs: BTreeSet<Pubkey> = BTreeSet::new();
    let mut remaining = accounts;
    if disc == wi::IncreaseLiquidity::DISCRIMINATOR {
        let a = wi::IncreaseLiquidity::deserialize(&mut ix_data).map_err(|_| anchor_lang::error::ErrorCode::InstructionDidNotDeserialize)?;
        let mut bumps = <ins::ModifyLiquidity as Bumps>::Bumps::default();
        let mut accs = ins::ModifyLiquidity::try_accounts(program_id, &mut remaining, ix_data, &mut bumps, &mut reallocs)?;
        ins::increase_liquidity::handler(Context::new(program_id, &mut accs, remaining, bumps), a.liquidity_amount, a.token_max_a, a.token_max_b)?;
        accs.exit(program_id)
    } else if disc == wi::DecreaseLiquidity::DISCRIMINATOR {
        let a = wi::DecreaseLiquidity::deserialize(&mut ix_data).map_err(|_| anchor_lang::error::ErrorCode::InstructionDidNotDeserialize)?;
        let mut bumps = <ins::ModifyLiquidity as Bumps>::Bumps::default();
        let mut accs = ins::ModifyLiquidity::try_accounts(program_id, &mut remaining, ix_data, &mut bumps, &mut reallocs)?;
        ins::decrease_liquidity::handler(Context::new(program_id, &mut accs, remaining, bumps), a.liquidity_amount, a.token_min_a, a.token_min_b)?;
        accs.exit(program_id)
    } else if disc == wi::IncreaseLiquidityV2::DISCRIMINATOR {
        let a = wi::IncreaseLiquidityV2::deserialize(&mut ix_data).map_err(|_| anchor_lang::error::ErrorCode::InstructionDidNotDeserialize)?;
        let mut bumps = <ins::v2::ModifyLiquidityV2 as Bumps>::Bumps::default();
        let mut accs = ins::v2::ModifyLiquidityV2::try_accounts(program_id, &mut remaining, ix_data, &mut bumps, &mut reallocs)?;
        ins::v2::increase_liquidity::handler(Context::new(program_id, &mut accs, remaining, bumps), a.liquidity_amount, a.token_max_a, a.token_max_b, a.remaining_accounts_info)?;
        accs.exit(program_id)
    } else if disc == wi::DecreaseLiquidityV2::DISCRIMINATOR {
        let a = wi::DecreaseLiquidityV2::deserialize(&mut ix_data).map_err(|_| anchor_lang::error::ErrorCode::InstructionDidNotDeserialize)?;
        let mut bumps = <ins::v2::ModifyLiquidityV2 as Bumps>::Bumps::default();
        let mut accs = ins::v2::ModifyLiquidityV2::try_accounts(program_id, &mut remaining, ix_data, &mut bumps, &mut reallocs)?;
        ins::v2::decrease_liquidity::handler(Context::new(program_id, &mut accs, remaining, bumps), a.liquidity_amount, a.token_min_a, a.token_min_b, a.remaining_accounts_info)?;
        accs.exit(program_id)
    } else {
        Err(ProgramError::InvalidInstructionData.into())
    }
}

pub fn has_anchor_twin(ix: &Ix) -> bool {
    use anchor_lang::Discriminator;
    use whirlpool::instruction as wi;
    ix.program_id == whirlpool::ID
        && ix.data.len() >= 8
        && [
            wi::IncreaseLiquidity::DISCRIMINATOR,
            wi::DecreaseLiquidity::DISCRIMINATOR,
            wi::IncreaseLiquidityV2::DISCRIMINATOR,
            wi::DecreaseLiquidityV2::DISCRIMINATOR,
        ]
        .iter()
        .any(|d| ix.data[..8] == **d)
}

/// Execute a liquidity instruction through the Anchor implementation (not the live routing).
/// Returns the outcome and the post-accounts as read back from the buffer (no runtime checks, no commit).
pub fn exec_ix_anchor_twin(ledger: &Ledger, ix: &Ix, opts: &ExecOpts) -> (IxOutcome, Vec<PostAccount>) {
    install_stubs();
    let flags: BTreeMap<Pubkey, (bool, bool)> = {
        let mut f = BTreeMap::new();
        for m in &ix.accounts {
            let e = f.entry(m.pubkey).or_insert((false, false));
            e.0 |= m.is_signer;
            e.1 |= m.is_writable;
        }
        f
    };
    let metas: Vec<Meta> = ix
        .accounts
        .iter()
        .map(|m| {
            let (s, w) = flags[&m.pubkey];
            Meta { pubkey: m.pubkey, is_signer: s, is_writable: w }
        })
        .collect();
    let mut buf = serialize(ledger, ix, &flags);
    reset_ix_ctx(ix, &metas, opts);
    let ptr = buf.ptr();
    let r = std::panic::catch_unwind(std::panic::AssertUnwindSafe(|| unsafe {
        let (program_id, accounts, data) = solana_program::entrypoint::deserialize(ptr);
        match anchor_twin(program_id, &accounts, data) {
            Ok(()) => 0u64,
            Err(e) => {
                let pe: ProgramError = e.into();
                let c = u64::from(pe);
                if c == 0 { 1 << 32 } else { c }
            }
        }
    }));
    let mut out = IxOutcome::default();
    match r {
        Ok(code) => out.code = code,
        Err(payload) => {
            if let Some(a) = payload.downcast_ref::<CpiAbort>() {
                out.code = a.0;
            } else {
                out.code = ERR_PANIC;
                out.detail = with_ctx(|c| c.panic_msg.clone());
            }
        }
    }
    out.traces = whirlpool::verif_hooks::take();
    with_ctx(|c| {
        out.logs = std::mem::take(&mut c.logs);
        out.events = std::mem::take(&mut c.data_logs);
        out.cpis = std::mem::take(&mut c.cpis);
        out.injected_fired = c.injected_fired;
        c.stack.clear();
    });
    let post = read_back(&buf).unwrap_or_default();
    (out, post)
}

/// Post-accounts of the live path for the same instruction (for byte comparison with the twin).
pub fn exec_ix_live_raw(ledger: &Ledger, ix: &Ix, opts: &ExecOpts) -> (IxOutcome, Vec<PostAccount>) {
    let mut l = ledger.clone();
    let flags: BTreeMap<Pubkey, (bool, bool)> = {
        let mut f = BTreeMap::new();
        for m in &ix.accounts {
            let e = f.entry(m.pubkey).or_insert((false, false));
            e.0 |= m.is_signer;
            e.1 |= m.is_writable;
        }
        f
    };
    let o = exec_ix(&mut l, ix, &flags, opts);
    let mut post = Vec::new();
    let mut seen: Vec<Pubkey> = Vec::new();
    for m in &ix.accounts {
        if seen.contains(&m.pubkey) {
            continue;
        }
        seen.push(m.pubkey);
        let (lamports, owner, data) = match l.get(&m.pubkey) {
            Some(a) => (a.lamports, a.owner, (*a.data).clone()),
            None => (0, system_program_id(), Vec::new()),
        };
        post.push(PostAccount { key: m.pubkey, lamports, owner, data });
    }
    (o, post)
}

pub fn whirlpool_id() -> Pubkey {
    whirlpool::ID
}

fn run_top_level(ix: &Ix, buf: &mut InputBuf, metas: &[Meta], opts: &ExecOpts) -> (u64, Option<String>) {
    reset_ix_ctx(ix, metas, opts);
    let ptr = buf.ptr();
    let pid = ix.program_id;
    let r = std::panic::catch_unwind(std::panic::AssertUnwindSafe(|| unsafe {
        if pid == whirlpool::ID {
            whirlpool_preflight(ptr)
        } else {
            let (program_id, accounts, data) = solana_program::entrypoint::deserialize(ptr);
            match crate::programs::process(program_id, &accounts, data) {
                Some(Ok(())) => 0,
                Some(Err(e)) => {
                    let c = u64::from(e);
                    if c == 0 {
                        1 << 32
                    } else {
                        c
                    }
                }
                None => u64::from(ProgramError::IncorrectProgramId),
            }
        }
    }));
    match r {
        Ok(code) => (code, None),
        Err(payload) => {
            if let Some(a) = payload.downcast_ref::<CpiAbort>() {
                (a.0, Some("cpi-abort".to_string()))
            } else {
                let msg = with_ctx(|c| c.panic_msg.clone());
                (ERR_PANIC, msg.or(Some("panic".into())))
            }
        }
    }
}

/// Execute one instruction against `ledger` (mutated only on success).
/// `flags`: transaction-level (signer, writable) union per key.
pub fn exec_ix(
    ledger: &mut Ledger,
    ix: &Ix,
    flags: &BTreeMap<Pubkey, (bool, bool)>,
    opts: &ExecOpts,
) -> IxOutcome {
    install_stubs();
    let mut out = IxOutcome::default();
    // program must exist and be executable
    match ledger.get(&ix.program_id) {
        Some(a) if a.executable => {}
        _ => {
            out.code = ERR_RUNTIME;
            out.detail = Some("program account missing or not executable".into());
            return out;
        }
    }
    let metas: Vec<Meta> = ix
        .accounts
        .iter()
        .map(|m| {
            let (s, w) = flags
                .get(&m.pubkey)
                .cloned()
                .unwrap_or((m.is_signer, m.is_writable));
            Meta {
                pubkey: m.pubkey,
                is_signer: s,
                is_writable: w,
            }
        })
        .collect();
    let mut buf = serialize(ledger, ix, flags);
    let (code, detail) = run_top_level(ix, &mut buf, &metas, opts);
    let mut final_buf = buf;
    let mut code = code;
    let mut detail = detail;
    if ix.program_id == whirlpool::ID && detail.is_none() {
        // authoritative run through the real entrypoint on a fresh buffer
        let pre_out = read_back(&final_buf);
        let pre_cpis = with_ctx(|c| c.cpis.len());
        let mut buf2 = serialize(ledger, ix, flags);
        reset_ix_ctx(ix, &metas, opts);
        let code2 = unsafe { entrypoint(buf2.ptr()) };
        let post_out = read_back(&buf2);
        let cpis2 = with_ctx(|c| c.cpis.len());
        if code2 != code || (code == 0 && (pre_out != post_out || pre_cpis != cpis2)) {
            out.routing_mismatch = Some(format!(
                "entrypoint code {:#x} vs public-handler code {:#x}; outputs equal: {}",
                code2,
                code,
                pre_out == post_out
            ));
        }
        code = code2;
        final_buf = buf2;
        detail = None;
    }
    out.traces = whirlpool::verif_hooks::take();
    with_ctx(|c| {
        out.logs = std::mem::take(&mut c.logs);
        out.events = std::mem::take(&mut c.data_logs);
        out.cpis = std::mem::take(&mut c.cpis);
        out.return_data = c.return_data.clone();
        out.injected_fired = c.injected_fired;
        c.stack.clear();
    });
    out.code = code;
    out.detail = detail;
    if code != 0 {
        return out;
    }
    // post-conditions of the runtime
    let post = match read_back(&final_buf) {
        Ok(p) => p,
        Err(e) => {
            out.code = ERR_RUNTIME;
            out.detail = Some(e.into());
            return out;
        }
    };
    let rent = with_ctx(|c| c.rent);
    let mut pre_sum: u128 = 0;
    let mut post_sum: u128 = 0;
    for (a, p) in final_buf.accts.iter().zip(post.iter()) {
        pre_sum += a.pre_lamports as u128;
        post_sum += p.lamports as u128;
        let data_changed = p.data.len() != a.pre_len || p.data[..] != a.pre_data[..];
        let changed = data_changed || p.lamports != a.pre_lamports || p.owner != a.pre_owner;
        let fail = |m: &str| -> Option<String> { Some(format!("{} ({})", m, a.key)) };
        if changed && !a.is_writable {
            out.code = ERR_RUNTIME;
            out.detail = fail("read-only account modified");
            return out;
        }
        if changed && a.executable {
            out.code = ERR_RUNTIME;
            out.detail = fail("executable account modified");
            return out;
        }
        // only the owning program may change an account's data or take lamports out of it. Attribution is per
        // instruction, not per call level: the owner must be the executing program or a program it called.
        if a.existed && (data_changed || p.lamports < a.pre_lamports || p.owner != a.pre_owner) {
            let owner_ran = a.pre_owner == ix.program_id || out.cpis.iter().any(|c| c.program_id == a.pre_owner);
            if !owner_ran {
                out.code = ERR_RUNTIME;
                out.detail = fail("account modified by a program that does not own it");
                return out;
            }
        }
        if p.lamports != a.pre_lamports || p.data.len() != a.pre_len {
            // rent state transition
            let exempt = p.lamports >= rent.minimum_balance(p.data.len());
            let uninit = p.lamports == 0;
            let pre_paying =
                a.pre_lamports != 0 && a.pre_lamports < rent.minimum_balance(a.pre_len);
            let ok = uninit
                || exempt
                || (pre_paying && p.data.len() == a.pre_len && p.lamports <= a.pre_lamports);
            if !ok {
                out.code = ERR_RUNTIME;
                out.detail = fail("account left not rent exempt");
                return out;
            }
        }
    }
    if pre_sum != post_sum {
        out.code = ERR_RUNTIME;
        out.detail = Some("sum of lamports changed".into());
        return out;
    }
    // commit
    for (a, p) in final_buf.accts.iter().zip(post.into_iter()) {
        let data_changed = p.data.len() != a.pre_len || p.data[..] != a.pre_data[..];
        if !a.existed && p.lamports == 0 && p.data.is_empty() && p.owner == system_program_id() {
            continue;
        }
        if !data_changed && p.lamports == a.pre_lamports && p.owner == a.pre_owner {
            continue;
        }
        let data = if data_changed {
            Rc::new(p.data)
        } else {
            a.pre_data.clone()
        };
        ledger.accts.insert(
            a.key,
            Account {
                lamports: p.lamports,
                data,
                owner: p.owner,
                executable: a.executable,
            },
        );
    }
    out
}

#[derive(Clone, Debug, PartialEq, Eq)]
pub struct Tx {
    pub ixs: Vec<Ix>,
}

#[derive(Clone, Debug, Default)]
pub struct TxOutcome {
    pub ok: bool,
    pub failed_ix: Option<usize>,
    pub ix_outcomes: Vec<IxOutcome>,
    /// ledger after each successfully executed instruction (cheap copies)
    pub post_ix: Vec<Ledger>,
}

impl TxOutcome {
    pub fn code(&self) -> u64 {
        self.ix_outcomes.last().map(|o| o.code).unwrap_or(0)
    }
    pub fn custom(&self) -> Option<u32> {
        self.ix_outcomes.last().and_then(|o| o.custom())
    }
}

/// Execute a transaction atomically. `fail_cpi`: (instruction index, k-th CPI) fault.
pub fn exec_tx(ledger: &mut Ledger, tx: &Tx, opts_for: &dyn Fn(usize) -> ExecOpts) -> TxOutcome {
    let mut flags: BTreeMap<Pubkey, (bool, bool)> = BTreeMap::new();
    for ix in &tx.ixs {
        for m in &ix.accounts {
            let e = flags.entry(m.pubkey).or_insert((false, false));
            e.0 |= m.is_signer;
            e.1 |= m.is_writable;
        }
    }
    let mut work = ledger.clone();
    let mut res = TxOutcome::default();
    for (i, ix) in tx.ixs.iter().enumerate() {
        let o = exec_ix(&mut work, ix, &flags, &opts_for(i));
        let ok = o.ok();
        res.ix_outcomes.push(o);
        if ok {
            res.post_ix.push(work.clone());
        }
        if !ok {
            res.ok = false;
            res.failed_ix = Some(i);
            return res;
        }
    }
    // purge zero-lamport accounts (end of transaction)
    let dead: Vec<Pubkey> = work
        .accts
        .iter()
        .filter(|(_, a)| a.lamports == 0)
        .map(|(k, _)| *k)
        .collect();
    for k in dead {
        work.accts.remove(&k);
    }
    *ledger = work;
    res.ok = true;
    res
}

pub fn exec_tx_simple(ledger: &mut Ledger, tx: &Tx) -> TxOutcome {
    exec_tx(ledger, tx, &|_| ExecOpts::default())
}
