//! World bootstrap helpers: programs, sysvars, funded wallets, mints, token accounts.

use crate::ix;
use crate::rng::Rng;
use crate::rt::{self, Account, Ix, Ledger, Tx, TxOutcome};
use solana_program::pubkey::Pubkey;

pub const ADMIN0: Pubkey = solana_program::pubkey!("tstYmkF9JHjZbSugJe1H3ygUTox1bqSxpn5QjxMwVrm");

pub fn new_key(rng: &mut Rng) -> Pubkey {
    Pubkey::new_from_array(rng.bytes32())
}

pub fn base_ledger(rent: &rt::RentParams) -> Ledger {
    let mut l = Ledger::default();
    for p in [
        ix::wp(),
        ix::sys(),
        ix::tok(),
        ix::tok22(),
        ix::ata_prog(),
        ix::memo(),
        ix::mpl(),
        rt::hook_program_id(),
    ] {
        l.add_program(p);
    }
    // rent sysvar account (bincode: u64, f64, u8)
    let mut d = Vec::with_capacity(17);
    d.extend_from_slice(&rent.lamports_per_byte_year.to_le_bytes());
    d.extend_from_slice(&rent.exemption_threshold.to_le_bytes());
    d.push(rent.burn_percent);
    l.put(
        ix::rent_sysvar(),
        Account {
            lamports: 1_009_200,
            data: std::rc::Rc::new(d),
            owner: solana_program::sysvar::ID,
            executable: false,
        },
    );
    l
}

pub fn fund(l: &mut Ledger, k: &Pubkey, lamports: u64) {
    l.put(*k, Account::new(lamports, vec![], ix::sys()));
}

pub fn run(l: &mut Ledger, ixs: Vec<Ix>) -> TxOutcome {
    rt::exec_tx_simple(l, &Tx { ixs })
}

pub fn must(l: &mut Ledger, ixs: Vec<Ix>, what: &str) -> TxOutcome {
    let o = run(l, ixs);
    if !o.ok {
        let last = o.ix_outcomes.last().unwrap();
        panic!(
            "setup step `{}` failed: code {:#x} detail {:?} logs {:?}",
            what, last.code, last.detail, last.logs
        );
    }
    o
}

thread_local! {
    /// setup steps that the program refused although the world builder considers them valid (reported as observations)
    pub static GENESIS_NOTES: std::cell::RefCell<Vec<String>> = const { std::cell::RefCell::new(Vec::new()) };
}

/// like `must`, for optional parts of a world: a refusal is recorded and the builder carries on without that part
pub fn attempt(l: &mut Ledger, ixs: Vec<Ix>, what: &str) -> bool {
    let mut f = l.clone();
    let o = run(&mut f, ixs);
    if o.ok {
        *l = f;
        true
    } else {
        let code = o.ix_outcomes.last().map(|x| x.code).unwrap_or(0);
        GENESIS_NOTES.with(|g| g.borrow_mut().push(format!("genesis_step_refused:{}:{:#x}", what, code)));
        false
    }
}

pub fn rent_min(len: usize) -> u64 {
    rt::with_ctx(|c| c.rent).minimum_balance(len)
}

/// plain SPL mint
pub fn create_mint(l: &mut Ledger, payer: &Pubkey, mint: &Pubkey, authority: &Pubkey, decimals: u8, freeze: Option<&Pubkey>) {
    let ixs = vec![
        ix::sys_create_account(payer, mint, rent_min(82), 82, &ix::tok()),
        ix::from_sol(
            spl_token::instruction::initialize_mint2(&ix::tok(), mint, authority, freeze, decimals)
                .unwrap(),
        ),
    ];
    must(l, ixs, "create_mint");
}

pub fn create_token_account(l: &mut Ledger, payer: &Pubkey, acct: &Pubkey, mint: &Pubkey, owner: &Pubkey) {
    let ixs = vec![
        ix::sys_create_account(payer, acct, rent_min(165), 165, &ix::tok()),
        ix::from_sol(
            spl_token::instruction::initialize_account3(&ix::tok(), acct, mint, owner).unwrap(),
        ),
    ];
    must(l, ixs, "create_token_account");
}

pub fn mint_to(l: &mut Ledger, program: &Pubkey, mint: &Pubkey, dest: &Pubkey, authority: &Pubkey, amount: u64) {
    let ix = if *program == ix::tok() {
        spl_token::instruction::mint_to(program, mint, dest, authority, &[], amount).unwrap()
    } else {
        spl_token_2022::instruction::mint_to(program, mint, dest, authority, &[], amount).unwrap()
    };
    must(l, vec![ix::from_sol(ix)], "mint_to");
}

/// token amount of any SPL / Token-2022 token account (offset 64)
pub fn token_amount(l: &Ledger, k: &Pubkey) -> u64 {
    match l.data(k) {
        Some(d) if d.len() >= 72 => u64::from_le_bytes(d[64..72].try_into().unwrap()),
        _ => 0,
    }
}

/// write a plain SPL token account directly into a (forked) ledger
pub fn put_token_account(l: &mut Ledger, key: &Pubkey, mint: &Pubkey, owner: &Pubkey, amount: u64) {
    let mut d = vec![0u8; 165];
    d[0..32].copy_from_slice(mint.as_ref());
    d[32..64].copy_from_slice(owner.as_ref());
    d[64..72].copy_from_slice(&amount.to_le_bytes());
    d[108] = 1; // initialized
    let lamports = rent_min(165);
    l.put(*key, Account::new(lamports, d, ix::tok()));
}

/// deterministic scratch key from a label and a salt (used on forks only)
pub fn scratch_key(salt: u64, label: u64) -> Pubkey {
    let mut r = Rng::new(salt ^ label.wrapping_mul(0xA24BAED4963EE407));
    Pubkey::new_from_array(r.bytes32())
}

// ---- Token-2022 ---------------------------------------------------------------------------------

use spl_token_2022::extension::{BaseStateWithExtensions, ExtensionType, StateWithExtensions};

/// Token-2022 mint, optionally with a TransferFeeConfig (basis points, maximum fee)
pub fn create_mint_2022(l: &mut Ledger, payer: &Pubkey, mint: &Pubkey, authority: &Pubkey, decimals: u8, fee: Option<(u16, u64)>, freeze: Option<&Pubkey>) {
    create_mint_2022_ext(l, payer, mint, authority, decimals, fee, freeze, false)
}

/// address of the account a transfer-hook program reads its extra account list from
pub fn hook_validation_address(mint: &Pubkey) -> Pubkey {
    Pubkey::find_program_address(&[b"extra-account-metas", mint.as_ref()], &rt::hook_program_id()).0
}

/// Token-2022 mint with optional TransferFeeConfig and optional TransferHook (simulator's hook stub, empty extra-account list)
#[allow(clippy::too_many_arguments)]
pub fn create_mint_2022_ext(l: &mut Ledger, payer: &Pubkey, mint: &Pubkey, authority: &Pubkey, decimals: u8, fee: Option<(u16, u64)>, freeze: Option<&Pubkey>, hook: bool) {
    create_mint_2022_full(l, payer, mint, authority, decimals, fee, freeze, hook, 0)
}

/// `meta_ptr`: 0 = none, 1 = a MetadataPointer extension initialised BEFORE the others (so it comes first in the
/// account's extension list although its type number is the highest), 2 = initialised after the others
#[allow(clippy::too_many_arguments)]
pub fn create_mint_2022_full(l: &mut Ledger, payer: &Pubkey, mint: &Pubkey, authority: &Pubkey, decimals: u8, fee: Option<(u16, u64)>, freeze: Option<&Pubkey>, hook: bool, meta_ptr: u8) {
    create_mint_2022_badged(l, payer, mint, authority, decimals, fee, freeze, hook, meta_ptr, 0)
}

/// `extras`: bit 0 MintCloseAuthority, bit 1 PermanentDelegate, bit 2 DefaultAccountState (Initialized) - extensions the
/// program admits only with a token badge; they come first in the list (bit 3: last) and change the mint's length - some
/// combinations hit the length Token-2022 pads by two bytes to keep mints apart from multisig accounts
#[allow(clippy::too_many_arguments)]
pub fn create_mint_2022_badged(l: &mut Ledger, payer: &Pubkey, mint: &Pubkey, authority: &Pubkey, decimals: u8, fee: Option<(u16, u64)>, freeze: Option<&Pubkey>, hook: bool, meta_ptr: u8, extras: u8) {
    let mut exts = Vec::new();
    if extras & 1 != 0 {
        exts.push(ExtensionType::MintCloseAuthority);
    }
    if extras & 2 != 0 {
        exts.push(ExtensionType::PermanentDelegate);
    }
    if extras & 4 != 0 {
        exts.push(ExtensionType::DefaultAccountState);
    }
    if matches!(meta_ptr, 1 | 2 | 4 | 5 | 6) {
        exts.push(ExtensionType::MetadataPointer);
    }
    if fee.is_some() {
        exts.push(ExtensionType::TransferFeeConfig);
    }
    if hook {
        exts.push(ExtensionType::TransferHook);
    }
    let len = ExtensionType::try_calculate_account_len::<spl_token_2022::state::Mint>(&exts).unwrap();
    let mut ixs = vec![ix::sys_create_account(payer, mint, rent_min(len), len as u64, &ix::tok22())];
    // the extension list of the mint keeps the order in which the extensions were initialised (not type order):
    // meta_ptr 0: fee, hook | 1: meta, fee, hook | 2: fee, hook, meta | 3: hook, fee | 4: hook, fee, meta | 5: meta, hook, fee | 6: hook, meta, fee
    let meta_ix = || ix::from_sol(spl_token_2022::extension::metadata_pointer::instruction::initialize(&ix::tok22(), mint, Some(*authority), Some(*mint)).unwrap());
    let fee_ix = fee.map(|(bps, max)| {
        ix::from_sol(spl_token_2022::extension::transfer_fee::instruction::initialize_transfer_fee_config(&ix::tok22(), mint, Some(authority), Some(authority), bps, max).unwrap())
    });
    // (extras bit 4: the hook's authority has been renounced; bit 5: the mint carries the TransferHook extension but names no
    // hook program - nothing is called on transfer, no hook accounts are needed)
    let hook_ix = if hook {
        let hook_authority = if extras & 16 != 0 { None } else { Some(*authority) };
        let hook_program = if extras & 32 != 0 { None } else { Some(rt::hook_program_id()) };
        Some(ix::from_sol(spl_token_2022::extension::transfer_hook::instruction::initialize(&ix::tok22(), mint, hook_authority, hook_program).unwrap()))
    } else {
        None
    };
    let order: &[char] = match meta_ptr {
        1 => &['m', 'f', 'h'],
        2 => &['f', 'h', 'm'],
        3 => &['h', 'f'],
        4 => &['h', 'f', 'm'],
        5 => &['m', 'h', 'f'],
        6 => &['h', 'm', 'f'],
        _ => &['f', 'h'],
    };
    let mut extra_ixs: Vec<rt::Ix> = Vec::new();
    if extras & 1 != 0 {
        extra_ixs.push(ix::from_sol(spl_token_2022::instruction::initialize_mint_close_authority(&ix::tok22(), mint, Some(authority)).unwrap()));
    }
    if extras & 2 != 0 {
        extra_ixs.push(ix::from_sol(spl_token_2022::instruction::initialize_permanent_delegate(&ix::tok22(), mint, authority).unwrap()));
    }
    if extras & 4 != 0 {
        extra_ixs.push(ix::from_sol(spl_token_2022::extension::default_account_state::instruction::initialize_default_account_state(&ix::tok22(), mint, &spl_token_2022::state::AccountState::Initialized).unwrap()));
    }
    if extras & 8 == 0 {
        ixs.append(&mut extra_ixs);
    }
    for o in order {
        match o {
            'm' => ixs.push(meta_ix()),
            'f' => {
                if let Some(i) = &fee_ix {
                    ixs.push(i.clone());
                }
            }
            _ => {
                if let Some(i) = &hook_ix {
                    ixs.push(i.clone());
                }
            }
        }
    }
    ixs.append(&mut extra_ixs);
    ixs.push(ix::from_sol(spl_token_2022::instruction::initialize_mint2(&ix::tok22(), mint, authority, freeze.or(if extras & 4 != 0 { Some(authority) } else { None }), decimals).unwrap()));
    must(l, ixs, "create_mint_2022");
    if hook {
        // ExtraAccountMetaList for the Execute instruction with zero extra accounts:
        // 8-byte discriminator, u32 value length (4), u32 count (0)
        let mut d = vec![105u8, 37, 101, 197, 75, 251, 102, 26];
        d.extend_from_slice(&4u32.to_le_bytes());
        d.extend_from_slice(&0u32.to_le_bytes());
        let lam = rent_min(d.len());
        l.put(hook_validation_address(mint), Account::new(lam, d, rt::hook_program_id()));
    }
}

/// token account for any mint (SPL Token or Token-2022 with the extensions the mint requires)
pub fn create_token_account_any(l: &mut Ledger, payer: &Pubkey, acct: &Pubkey, mint: &Pubkey, owner: &Pubkey) {
    let prog = l.get(mint).map(|a| a.owner).unwrap_or(ix::tok());
    if prog == ix::tok() {
        create_token_account(l, payer, acct, mint, owner);
        return;
    }
    let len = {
        let data = l.data(mint).unwrap();
        let st = StateWithExtensions::<spl_token_2022::state::Mint>::unpack(data).unwrap();
        let mint_exts = st.get_extension_types().unwrap();
        let req = ExtensionType::get_required_init_account_extensions(&mint_exts);
        ExtensionType::try_calculate_account_len::<spl_token_2022::state::Account>(&req).unwrap()
    };
    let ixs = vec![
        ix::sys_create_account(payer, acct, rent_min(len), len as u64, &ix::tok22()),
        ix::from_sol(spl_token_2022::instruction::initialize_account3(&ix::tok22(), acct, mint, owner).unwrap()),
    ];
    must(l, ixs, "create_token_account_2022");
}

/// transfer-fee parameters in force for `mint` at `epoch`: (basis points, maximum fee); None for mints without the extension
pub fn transfer_fee_params(l: &Ledger, mint: &Pubkey, epoch: u64) -> Option<(u16, u64)> {
    let a = l.get(mint)?;
    if a.owner != ix::tok22() {
        return None;
    }
    let st = StateWithExtensions::<spl_token_2022::state::Mint>::unpack(&a.data).ok()?;
    let cfg = st.get_extension::<spl_token_2022::extension::transfer_fee::TransferFeeConfig>().ok()?;
    let f = cfg.get_epoch_fee(epoch);
    Some((u16::from(f.transfer_fee_basis_points), u64::from(f.maximum_fee)))
}

/// the SPL definition of the fee on a transfer of `amount` (trusted definition of g in C16)
pub fn transfer_fee_of(l: &Ledger, mint: &Pubkey, epoch: u64, amount: u64) -> u64 {
    let Some(a) = l.get(mint) else { return 0 };
    if a.owner != ix::tok22() {
        return 0;
    }
    let Ok(st) = StateWithExtensions::<spl_token_2022::state::Mint>::unpack(&a.data) else { return 0 };
    match st.get_extension::<spl_token_2022::extension::transfer_fee::TransferFeeConfig>() {
        Ok(cfg) => cfg.calculate_epoch_fee(epoch, amount).unwrap_or(0),
        Err(_) => 0,
    }
}

/// withheld transfer fees recorded on a Token-2022 token account
pub fn withheld_amount(l: &Ledger, k: &Pubkey) -> u64 {
    let Some(d) = l.data(k) else { return 0 };
    for (t, v) in crate::decode::tlv_entries(d) {
        if t == 2 && v.len() >= 8 {
            return u64::from_le_bytes(v[..8].try_into().unwrap());
        }
    }
    0
}
