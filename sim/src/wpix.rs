//! Decoding of a raw whirlpool instruction into (name, named accounts, raw args), so that
//! monitors and replay work from the transaction bytes alone.

use crate::decode::Rd;
use crate::ixtable::{IxInfo, IX_TABLE};
use crate::rt::Ix;
use solana_program::pubkey::Pubkey;
use std::cell::RefCell;

thread_local! {
    static DISCS: RefCell<Vec<[u8; 8]>> = RefCell::new(Vec::new());
}

pub fn ix_disc(name: &str) -> [u8; 8] {
    let h = solana_program::hash::hash(format!("global:{}", name).as_bytes());
    let mut d = [0u8; 8];
    d.copy_from_slice(&h.to_bytes()[..8]);
    d
}

fn discs() -> Vec<[u8; 8]> {
    DISCS.with(|c| {
        let mut c = c.borrow_mut();
        if c.is_empty() {
            *c = IX_TABLE.iter().map(|i| ix_disc(i.name)).collect();
        }
        c.clone()
    })
}

pub struct Call<'a> {
    pub info: &'static IxInfo,
    pub ix: &'a Ix,
}

pub fn decode(ix: &Ix) -> Option<Call<'_>> {
    if ix.program_id != crate::ix::wp() || ix.data.len() < 8 {
        return None;
    }
    let ds = discs();
    let pos = ds.iter().position(|d| d[..] == ix.data[..8])?;
    Some(Call {
        info: &IX_TABLE[pos],
        ix,
    })
}

impl<'a> Call<'a> {
    pub fn name(&self) -> &'static str {
        self.info.name
    }
    pub fn idx(&self, name: &str) -> Option<usize> {
        self.info.accounts.iter().position(|n| *n == name)
    }
    pub fn acct(&self, name: &str) -> Option<Pubkey> {
        self.idx(name)
            .and_then(|i| self.ix.accounts.get(i))
            .map(|m| m.pubkey)
    }
    pub fn a(&self, name: &str) -> Pubkey {
        self.acct(name).unwrap_or_default()
    }
    pub fn args(&self) -> Rd<'a> {
        Rd::new(&self.ix.data, 8)
    }
    pub fn remaining(&self) -> &'a [crate::rt::Meta] {
        let n = self.info.accounts.len();
        if self.ix.accounts.len() > n {
            &self.ix.accounts[n..]
        } else {
            &[]
        }
    }
}

#[derive(Clone, Copy, Debug, PartialEq, Eq)]
pub struct SwapCall {
    pub amount: u64,
    pub threshold: u64,
    pub limit: u128,
    pub is_input: bool,
    pub a_to_b: bool,
}

pub fn swap_args(c: &Call) -> SwapCall {
    let mut r = c.args();
    SwapCall {
        amount: r.u64(),
        threshold: r.u64(),
        limit: r.u128(),
        is_input: r.bool(),
        a_to_b: r.bool(),
    }
}

#[derive(Clone, Copy, Debug, PartialEq, Eq)]
pub struct TwoHopCall {
    pub amount: u64,
    pub threshold: u64,
    pub is_input: bool,
    pub a_to_b_one: bool,
    pub a_to_b_two: bool,
    pub limit_one: u128,
    pub limit_two: u128,
}

pub fn two_hop_args(c: &Call) -> TwoHopCall {
    let mut r = c.args();
    TwoHopCall {
        amount: r.u64(),
        threshold: r.u64(),
        is_input: r.bool(),
        a_to_b_one: r.bool(),
        a_to_b_two: r.bool(),
        limit_one: r.u128(),
        limit_two: r.u128(),
    }
}

/// (liquidity, token bound a, token bound b) of increase/decrease (v1, v2)
pub fn liq_args(c: &Call) -> (u128, u64, u64) {
    let mut r = c.args();
    (r.u128(), r.u64(), r.u64())
}
