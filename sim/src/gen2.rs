//! Additional actors (router, reward authority, ...).

use crate::gen::{Actor, Knobs, World};
use crate::rt::{Ledger, Tx};

pub fn plan_router(_w: &World, _k: &Knobs, _a: &mut Actor, _l: &Ledger) -> Vec<(Tx, String)> {
    Vec::new()
}

pub fn plan_reward_auth(_w: &World, _k: &Knobs, _a: &mut Actor, _l: &Ledger) -> Vec<(Tx, String)> {
    Vec::new()
}
