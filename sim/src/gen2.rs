//! Additional actors (router, reward authority, ...).

use crate::decode::{self, MAX_TICK, MIN_TICK};
use crate::gen::{pick_limit, swap_tick_arrays, Actor, Knobs, World};
use crate::ix::{self, TwoHopAccounts, TwoHopArgs};
use crate::model;
use crate::rt::{self, Ledger, Tx};
use crate::world;

pub fn plan_router(w: &World, knobs: &Knobs, actor: &mut Actor, l: &Ledger) -> Vec<(Tx, String)> {
    let rng = &mut actor.rng.clone();
    let mut flow = Vec::new();
    if w.pools.len() < 2 {
        return flow;
    }
    for attempt in 0..4 {
        let i1 = rng.idx(w.pools.len());
        let mut i2 = rng.idx(w.pools.len());
        // same pool twice: must be rejected (rare)
        if i2 == i1 && !rng.chance(1, 25) {
            i2 = (i1 + 1 + rng.idx(w.pools.len() - 1)) % w.pools.len();
        }
        let (p1, p2) = (&w.pools[i1].keys, &w.pools[i2].keys);
        let (Some(s1), Some(s2)) = (l.data(&p1.whirlpool).and_then(decode::pool), l.data(&p2.whirlpool).and_then(decode::pool)) else {
            continue;
        };
        // shared mint: output of leg one = input of leg two
        let shared = [p1.mint_a, p1.mint_b].into_iter().find(|m| *m == p2.mint_a || *m == p2.mint_b);
        let (mut a_to_b_one, mut a_to_b_two) = match shared {
            Some(x) => (p1.mint_b == x, p2.mint_a == x),
            None => (rng.chance(1, 2), rng.chance(1, 2)),
        };
        if rng.chance(1, 30) {
            a_to_b_one = !a_to_b_one; // wrong direction: intermediate mint mismatch
        }
        if rng.chance(1, 30) {
            a_to_b_two = !a_to_b_two;
        }
        let is_input = rng.chance(1, 2);
        let amount = match rng.below(12) {
            0 => 1,
            1 => u64::MAX,
            2..=7 => {
                let liq = if is_input { s1.liquidity } else { s2.liquidity };
                let bits = (128 - liq.leading_zeros()).saturating_sub(2 + rng.below(12) as u32).clamp(3, 60);
                rng.log_u64(bits)
            }
            _ => rng.log_u64(knobs.swap_bits.min(50)),
        };
        let mut limit_one = if rng.chance(2, 3) { 0 } else { pick_limit(rng, l, &p1.whirlpool, &s1, a_to_b_one) };
        let mut limit_two = if rng.chance(2, 3) { 0 } else { pick_limit(rng, l, &p2.whirlpool, &s2, a_to_b_two) };
        let deep_route = rng.chance(1, 4);
        if attempt >= 2 || deep_route {
            let far = |s: &decode::Pool, atb: bool, rng: &mut crate::rng::Rng| {
                // mostly within the first tick array, one time in three deep into the second or third one
                let reach: u64 = if rng.chance(1, 3) { 100 + rng.below(160) } else { 60 };
                let dt = 1 + rng.below(reach * s.tick_spacing as u64) as i32;
                let t = if atb { s.tick_current_index - dt } else { s.tick_current_index + dt };
                model::sqrt_price_of_tick(t.clamp(MIN_TICK, MAX_TICK))
            };
            if rng.chance(1, 2) {
                limit_one = far(&s1, a_to_b_one, rng);
            }
            if rng.chance(1, 2) {
                limit_two = far(&s2, a_to_b_two, rng);
            }
        }
        let t = TwoHopAccounts {
            one: p1.clone(),
            two: p2.clone(),
            authority: actor.wallet,
            owner_one_a: actor.tokens[&p1.mint_a],
            owner_one_b: actor.tokens[&p1.mint_b],
            owner_two_a: actor.tokens[&p2.mint_a],
            owner_two_b: actor.tokens[&p2.mint_b],
            tick_arrays_one: swap_tick_arrays(&s1, &p1.whirlpool, a_to_b_one),
            tick_arrays_two: swap_tick_arrays(&s2, &p2.whirlpool, a_to_b_two),
        };
        let mut args = TwoHopArgs {
            amount,
            other_amount_threshold: if is_input { 0 } else { u64::MAX },
            amount_specified_is_input: is_input,
            a_to_b_one,
            a_to_b_two,
            sqrt_price_limit_one: limit_one,
            sqrt_price_limit_two: limit_two,
        };
        let v2 = rng.chance(1, 2) || knobs.v2_only;
        // one v2 route in ten is sent by a delegate: the trader approves a second key of theirs on the input account and
        // that key signs the route (the trader's accounts, the delegate's signature)
        let delegate = if v2 && rng.chance(1, 10) { Some(world::scratch_key(rng.next_u64(), 77)) } else { None };
        let mut t = t;
        let mut approvals: Vec<rt::Ix> = Vec::new();
        if let Some(d) = delegate {
            let in_acct = if a_to_b_one { t.owner_one_a } else { t.owner_one_b };
            let prog = l.get(&in_acct).map(|a| a.owner).unwrap_or(ix::tok());
            let appr = if prog == ix::tok22() {
                ix::from_sol(spl_token_2022::instruction::approve(&ix::tok22(), &in_acct, &d, &actor.wallet, &[], u64::MAX).unwrap())
            } else {
                ix::from_sol(spl_token::instruction::approve(&ix::tok(), &in_acct, &d, &actor.wallet, &[], u64::MAX).unwrap())
            };
            approvals.push(appr);
            t.authority = d;
        }
        let build = |a: &TwoHopArgs| if v2 { ix::two_hop_swap_v2(&t, a) } else { ix::two_hop_swap(&t, a) };
        // quote on the current view
        let mut fork = l.clone();
        if !approvals.is_empty() {
            let _ = rt::exec_tx_simple(&mut fork, &Tx { ixs: approvals.clone() });
        }
        let in_acct = if a_to_b_one { t.owner_one_a } else { t.owner_one_b };
        let out_acct = if a_to_b_two { t.owner_two_b } else { t.owner_two_a };
        let (pi, po) = (world::token_amount(&fork, &in_acct), world::token_amount(&fork, &out_acct));
        let o = rt::exec_tx_simple(&mut fork, &Tx { ixs: vec![build(&args)] });
        if o.ok {
            if rng.chance(1, 2) {
                let paid = pi.saturating_sub(world::token_amount(&fork, &in_acct));
                let got = world::token_amount(&fork, &out_acct).saturating_sub(po);
                let slip = match rng.below(3) {
                    0 => 0,
                    1 => 1,
                    _ => rng.below(1 + got.max(paid) / 200),
                };
                args.other_amount_threshold = if is_input { got.saturating_sub(slip) } else { paid.saturating_add(slip) };
            }
            if !approvals.is_empty() {
                flow.push((Tx { ixs: approvals.clone() }, "approve a delegate on the input account".to_string()));
            }
            flow.push((Tx { ixs: vec![build(&args)] }, if v2 { if delegate.is_some() { "two_hop_swap_v2 (signed by a delegate)".to_string() } else { "two_hop_swap_v2".to_string() } } else { "two_hop_swap".to_string() }));
            break;
        } else if rng.chance(1, 5) {
            flow.push((Tx { ixs: vec![build(&args)] }, if v2 { "two_hop_swap_v2".to_string() } else { "two_hop_swap".to_string() }));
            break;
        }
    }
    actor.rng = rng.clone();
    flow
}

pub fn collect_reward_ix(
    rng: &mut crate::rng::Rng,
    pool: &ix::PoolKeys,
    authority: &solana_program::pubkey::Pubkey,
    pk: &ix::PositionKeys,
    index: u8,
    r: &decode::RewardInfo,
    owner_acct: &solana_program::pubkey::Pubkey,
) -> rt::Ix {
    use whirlpool::accounts as wa;
    use whirlpool::instruction as wi;
    if rng.chance(1, 2) {
        ix::mk(
            wa::CollectReward {
                whirlpool: pool.whirlpool,
                position_authority: *authority,
                position: pk.position,
                position_token_account: pk.token_account,
                reward_owner_account: *owner_acct,
                reward_vault: r.vault,
                token_program: ix::tok(),
            },
            wi::CollectReward { reward_index: index },
        )
    } else {
        ix::mk(
            wa::CollectRewardV2 {
                whirlpool: pool.whirlpool,
                position_authority: *authority,
                position: pk.position,
                position_token_account: pk.token_account,
                reward_owner_account: *owner_acct,
                reward_mint: r.mint,
                reward_vault: r.vault,
                reward_token_program: ix::tok(),
                memo_program: ix::memo(),
            },
            wi::CollectRewardV2 { reward_index: index, remaining_accounts_info: None },
        )
    }
}

pub fn pick_emissions_k(rng: &mut crate::rng::Rng, k: &Knobs) -> u128 {
    if k.extreme_rewards && rng.chance(2, 3) {
        // as large as a fully funded vault allows: 2^64 * u64::MAX / 86400 ~ 2^111.6
        return (1u128 << (96 + rng.below(15) as u32)) | rng.next_u64() as u128;
    }
    pick_emissions(rng)
}

pub fn pick_emissions(rng: &mut crate::rng::Rng) -> u128 {
    match rng.below(16) {
        0 => 0,
        1 => 1,
        2 => 1u128 << 40,
        3 | 4 => 1u128 << 64,
        5 | 6 => (1u128 << 64) * 1000,
        7 => (1u128 << 64) * 1_000_000_000,
        8 => 1u128 << 100,
        9 => u128::MAX >> rng.below(20),
        10 | 11 => (1u128 << 64) * (1 + rng.below(1_000_000) as u128),
        _ => rng.log_u128(100),
    }
}

/// reward authority (initially the config's reward-emissions super authority)
pub fn plan_reward_auth(w: &World, k: &Knobs, actor: &mut Actor, l: &Ledger) -> Vec<(Tx, String)> {
    use whirlpool::accounts as wa;
    use whirlpool::instruction as wi;
    let rng = &mut actor.rng.clone();
    let mut flow: Vec<(Tx, String)> = Vec::new();
    let pi = &w.pools[rng.idx(w.pools.len())];
    let Some(pool) = l.data(&pi.keys.whirlpool).and_then(decode::pool) else { return flow };
    let n_init = pool.rewards.iter().filter(|r| r.initialized()).count();
    let action = if n_init == 0 || (k.extreme_rewards && n_init < 3) { 0 } else { rng.below(10) };
    match action {
        0 | 1 if n_init < 3 || rng.chance(1, 6) => {
            // initialize the next reward (or a wrong index)
            // (one time in eight some index; one time in eight an index that is already taken)
            let idx = if rng.chance(1, 8) { rng.below(4) as u8 } else if n_init > 0 && rng.chance(1, 7) { rng.below(n_init as u64) as u8 } else { n_init as u8 };
            let used: Vec<_> = pool.rewards.iter().map(|r| r.mint).collect();
            // usually a fresh mint; sometimes the mint another reward index of this pool already uses
            let shared = w.reward_mints.iter().find(|m| used.contains(&m.key));
            let m = match shared {
                Some(m) if rng.chance(1, 4) => m,
                _ => w.reward_mints.iter().find(|m| !used.contains(&m.key)).unwrap_or(&w.reward_mints[0]),
            };
            let vault = crate::world::new_key(rng);
            let ixn = if rng.chance(1, 2) {
                let mut i = ix::mk(
                    wa::InitializeReward {
                        reward_authority: actor.wallet,
                        funder: actor.wallet,
                        whirlpool: pi.keys.whirlpool,
                        reward_mint: m.key,
                        reward_vault: vault,
                        token_program: ix::tok(),
                        system_program: ix::sys(),
                        rent: ix::rent_sysvar(),
                    },
                    wi::InitializeReward { reward_index: idx },
                );
                for mm in i.accounts.iter_mut() {
                    if mm.pubkey == vault {
                        mm.is_signer = true;
                    }
                }
                i
            } else {
                ix::mk(
                    wa::InitializeRewardV2 {
                        reward_authority: actor.wallet,
                        funder: actor.wallet,
                        whirlpool: pi.keys.whirlpool,
                        reward_mint: m.key,
                        reward_token_badge: ix::pda_token_badge(&pi.keys.config, &m.key),
                        reward_vault: vault,
                        reward_token_program: ix::tok(),
                        system_program: ix::sys(),
                        rent: ix::rent_sysvar(),
                    },
                    wi::InitializeRewardV2 { reward_index: idx },
                )
            };
            flow.push((Tx { ixs: vec![ixn] }, "initialize_reward".into()));
            // fund the vault (sometimes deliberately too little, sometimes nothing)
            let amount = if k.extreme_rewards {
                u64::MAX / 2
            } else {
                match rng.below(8) {
                    0 => 0,
                    1 => rng.log_u64(30),
                    2 => rng.log_u64(62),
                    _ => 1u64 << 61,
                }
            };
            if amount > 0 {
                flow.push((
                    Tx { ixs: vec![ix::from_sol(spl_token::instruction::mint_to(&ix::tok(), &m.key, &vault, &actor.wallet, &[], amount).unwrap())] },
                    "fund_reward_vault".into(),
                ));
            }
            let e = pick_emissions_k(rng, k);
            flow.push((Tx { ixs: vec![set_emissions_ix(rng, &pi.keys.whirlpool, &actor.wallet, idx, e, &vault)] }, "set_reward_emissions".into()));
            if rng.chance(1, 2) {
                // one atomic transaction
                let ixs: Vec<rt::Ix> = flow.drain(..).flat_map(|(t, _)| t.ixs).collect();
                flow.push((Tx { ixs }, "initialize_reward+fund+emissions (atomic)".into()));
            }
        }
        2..=6 => {
            let cands: Vec<usize> = (0..3).filter(|i| pool.rewards[*i].initialized()).collect();
            if !cands.is_empty() {
                let idx = if rng.chance(1, 12) { rng.below(4) as usize } else { cands[rng.idx(cands.len())] };
                let vault = pool.rewards.get(idx).map(|r| r.vault).unwrap_or_default();
                let e = pick_emissions_k(rng, k);
                flow.push((Tx { ixs: vec![set_emissions_ix(rng, &pi.keys.whirlpool, &actor.wallet, idx as u8, e, &vault)] }, "set_reward_emissions".into()));
            }
        }
        7 => {
            // top up a vault
            let cands: Vec<usize> = (0..3).filter(|i| pool.rewards[*i].initialized()).collect();
            if !cands.is_empty() {
                let r = &pool.rewards[cands[rng.idx(cands.len())]];
                let amount = rng.log_u64(58);
                flow.push((
                    Tx { ixs: vec![ix::from_sol(spl_token::instruction::mint_to(&ix::tok(), &r.mint, &r.vault, &actor.wallet, &[], amount).unwrap())] },
                    "fund_reward_vault".into(),
                ));
            }
        }
        8 => {
            // authority hand-over to itself (keeps the world usable, exercises the setters)
            let ixn = if rng.chance(1, 2) {
                ix::mk(
                    wa::SetRewardAuthority { whirlpool: pi.keys.whirlpool, reward_authority: actor.wallet, new_reward_authority: actor.wallet },
                    wi::SetRewardAuthority { reward_index: rng.below(4) as u8 },
                )
            } else {
                ix::mk(
                    wa::SetRewardAuthorityBySuperAuthority {
                        whirlpools_config: w.config,
                        whirlpool: pi.keys.whirlpool,
                        reward_emissions_super_authority: actor.wallet,
                        new_reward_authority: actor.wallet,
                    },
                    wi::SetRewardAuthorityBySuperAuthority { reward_index: rng.below(4) as u8 },
                )
            };
            flow.push((Tx { ixs: vec![ixn] }, "set_reward_authority".into()));
        }
        _ => {
            let ixn = ix::mk(
                wa::SetRewardEmissionsSuperAuthority {
                    whirlpools_config: w.config,
                    reward_emissions_super_authority: actor.wallet,
                    new_reward_emissions_super_authority: actor.wallet,
                },
                wi::SetRewardEmissionsSuperAuthority {},
            );
            flow.push((Tx { ixs: vec![ixn] }, "set_reward_emissions_super_authority".into()));
        }
    }
    actor.rng = rng.clone();
    flow
}

pub fn set_emissions_ix(
    rng: &mut crate::rng::Rng,
    whirlpool: &solana_program::pubkey::Pubkey,
    authority: &solana_program::pubkey::Pubkey,
    idx: u8,
    e: u128,
    vault: &solana_program::pubkey::Pubkey,
) -> rt::Ix {
    use whirlpool::accounts as wa;
    use whirlpool::instruction as wi;
    if rng.chance(1, 2) {
        ix::mk(
            wa::SetRewardEmissions { whirlpool: *whirlpool, reward_authority: *authority, reward_vault: *vault },
            wi::SetRewardEmissions { reward_index: idx, emissions_per_second_x64: e },
        )
    } else {
        ix::mk(
            wa::SetRewardEmissionsV2 { whirlpool: *whirlpool, reward_authority: *authority, reward_vault: *vault },
            wi::SetRewardEmissionsV2 { reward_index: idx, emissions_per_second_x64: e },
        )
    }
}


/// valid adaptive-fee constants over the whole valid region (boundary biased); returns (fee tier index, constants)
pub fn pick_adaptive_constants(rng: &mut crate::rng::Rng, spacing: u16, salt: u16) -> (u16, decode::AfConstants) {
    let tier_index = 1024 + salt + if spacing == 1024 + salt { 7 } else { 0 };
    // (filter periods of half an hour and more let a short unbroken chain of major swaps outlive the one-hour reference age)
    let filter = *rng.pick(&[1u16, 2, 10, 30, 60, 600, 1800, 3000, 3601]);
    let decay = match rng.below(4) {
        0 => filter + 1,
        1 => filter.saturating_add(60).max(filter + 1),
        2 => 3600u16.max(filter + 1),
        _ => filter.saturating_add(1 + rng.below(2000) as u16),
    };
    let divisors: Vec<u16> = (1..=spacing).filter(|d| spacing % d == 0).collect();
    let group = if spacing >= 32768 { *rng.pick(&[1u16, 64, 128, 32768]) } else { *rng.pick(&divisors) };
    let max_acc_cap = (u32::MAX as u64 / group as u64).min(u32::MAX as u64) as u32;
    let max_acc = (*rng.pick(&[0u32, 10_000, 50_000, 350_000, 1_000_000, 88 * 3 * 10_000, u32::MAX])).min(max_acc_cap);
    let cf = *rng.pick(&[0u32, 1, 100, 1_000, 4_000, 50_000, 99_999]);
    let threshold = match rng.below(4) {
        0 => 1,
        1 => (88u32 * spacing as u32).min(u16::MAX as u32) as u16,
        _ => (1 + rng.below((88u64 * spacing as u64).min(2000))) as u16,
    };
    (
        tier_index,
        decode::AfConstants {
            filter_period: filter,
            decay_period: decay,
            reduction_factor: *rng.pick(&[0u16, 1, 5_000, 9_000, 9_999]),
            adaptive_fee_control_factor: cf,
            max_volatility_accumulator: max_acc,
            tick_group_size: group,
            major_swap_threshold_ticks: threshold.max(1),
        },
    )
}


/// mint authority of the Token-2022 mints: changes the transfer fee (effective two epochs later)
pub fn plan_mint_auth(w: &World, _k: &Knobs, actor: &mut Actor, l: &Ledger) -> Vec<(Tx, String)> {
    let rng = &mut actor.rng.clone();
    let mut flow = Vec::new();
    let cands: Vec<&crate::gen::MintInfo> = w.mints.iter().filter(|m| m.program == ix::tok22() && crate::world::transfer_fee_params(l, &m.key, 0).is_some()).collect();
    if !cands.is_empty() {
        let m = cands[rng.idx(cands.len())];
        let bps = *rng.pick(&[0u16, 1, 30, 100, 500, 5000, 9999, 10000]);
        let max = *rng.pick(&[0u64, 10, 1_000_000, 1_000_000_000_000, u64::MAX]);
        flow.push((
            Tx { ixs: vec![ix::from_sol(spl_token_2022::extension::transfer_fee::instruction::set_transfer_fee(&ix::tok22(), &m.key, &actor.wallet, &[], bps, max).unwrap())] },
            "set_transfer_fee".to_string(),
        ));
        // one fee change in forty is the last one: the authority over the fee configuration is renounced right behind it,
        // while the change is still pending (the schedule stays as it is: the old fee until the activation epoch)
        if rng.chance(1, 40) {
            flow.push((
                Tx { ixs: vec![ix::from_sol(spl_token_2022::instruction::set_authority(&ix::tok22(), &m.key, None, spl_token_2022::instruction::AuthorityType::TransferFeeConfig, &actor.wallet, &[]).unwrap())] },
                "renounce the transfer-fee authority".to_string(),
            ));
        }
    }
    actor.rng = rng.clone();
    flow
}
